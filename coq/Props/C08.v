(* C08 - a Structure stays a consistent list of atoms in one lattice under any edits.
   Statements only; proofs live in Proofs/C08_*.v.  The model (Model/C08_StructHeap.v) is tied to the
   current source by the correspondence run of ./check C08 (model vs real objects after every step).
   `current` is the repaired source (extend materialises its argument, __setstate__ re-links the atoms);
   `pinned` is the tree before those two repairs. *)
From Coq Require Import List ZArith Bool Arith.
From DS Require Import Model.C08_StructHeap.
From DS Require Import Proofs.C08_Lists Proofs.C08_Prims Proofs.C08_Inv Proofs.C08_Step Proofs.C08_Refuted.
From DS Require Import Proofs.C08_Spec Proofs.C08_Refine Proofs.C08_Guard Proofs.C08_Dup.
From DS Require Import Proofs.C08_Payload.
From Coq Require Import Permutation Sorted.
Import ListNotations.

(* For EVERY finite sequence of public operations from ANY well-formed world: identities never dangle
   (wf), and - as long as the two ghost flags stay clear - every atom of every Structure refers to that
   Structure's lattice and no Structure holds one atom in two slots.
   g_repoint is raised exactly when an existing atom is re-pointed to a lattice L while ANOTHER live
   Structure whose lattice is not L holds it (lattice assignment to / non-copying insertion of atoms of a
   container that shares atoms: the inherent conflict D10);  g_dup is raised when an atom is kept
   (copy=False, or a member repeated in a slice assignment) into a slot while it occupies another slot,
   or a selection repeats an index. *)
Theorem C08_invariants_all_histories : forall ops w, Inv w ->
  Inv (run current ops w) /\ ext w (run current ops w).
Proof. exact run_Inv. Qed.
Print Assumptions C08_invariants_all_histories.

Theorem C08_wf_preserved : forall ops w, Inv w -> wf (run current ops w).
Proof. intros ops w H. exact (proj1 (proj1 (run_Inv ops w H))). Qed.
Print Assumptions C08_wf_preserved.

(* partial: the lattice invariant holds under the guard g_repoint = false; unguarded it is false, see
   C08_lattice_inv_refuted *)
Theorem C08_lattice_inv_partial : forall ops w, Inv w -> g_repoint (run current ops w) = false ->
  lat_ok (run current ops w).
Proof. intros ops w H. exact (proj1 (proj2 (proj1 (run_Inv ops w H)))). Qed.
Print Assumptions C08_lattice_inv_partial.

Theorem C08_nodup_unless_asked : forall ops w, Inv w -> g_dup (run current ops w) = false ->
  nodup_ok (run current ops w).
Proof. intros ops w H. exact (proj2 (proj2 (proj1 (run_Inv ops w H)))). Qed.
Print Assumptions C08_nodup_unless_asked.

(* the hypotheses are satisfiable by a non-trivial history that keeps both guards (selection, +, lattice
   assignment to a copy, extend, extended-slice assignment, pickle, s += s, -) *)
Theorem C08_guard_not_vacuous : Inv empty_world /\
  g_repoint (run current guarded_example empty_world) = false /\ g_dup (run current guarded_example empty_world) = false
  /\ length (objs (run current guarded_example empty_world)) = 5.
Proof. exact (conj empty_Inv guarded_example_ok). Qed.
Print Assumptions C08_guard_not_vacuous.

(* the guard in syntactic form: a history that never assigns a lattice to an existing container
   (s.lattice = L, placeInLattice, Structure(x, lattice=L), __copy__ into a target) and never inserts atoms
   without copying (copy=False, extend/Structure() with a plain list) keeps the lattice invariant; slicing and
   index/mask/label selections, + - * += -= *=, copies, copying insertions and slice assignment, deletions,
   pickling and column assignment are all inside the guard *)
Theorem C08_lattice_inv_syntactic_guard_partial : forall ops w, Inv w -> g_repoint w = false -> guarded ops w = true ->
  lat_ok (run current ops w).
Proof. exact lattice_inv_guarded. Qed.
Print Assumptions C08_lattice_inv_syntactic_guard_partial.

Theorem C08_syntactic_guard_not_vacuous :
  guarded syntactic_example empty_world = true /\ length (objs (run current syntactic_example empty_world)) = 7.
Proof. exact syntactic_example_ok. Qed.
Print Assumptions C08_syntactic_guard_not_vacuous.

(* "unless asked" in syntactic form: if no operation of the history is a non-copying insertion
   (append/insert/setitem/extend with copy=False), a slice assignment, an index list/tuple selection or a
   __copy__ into an existing target, no Structure ever holds one atom in two slots.  (Conservative: every
   slice assignment and every index-list selection counts as asking; the precise condition is g_dup.) *)
Theorem C08_nodup_syntactic_guard_partial : forall ops w, Inv w -> g_dup w = false -> never_asks ops = true ->
  nodup_ok (run current ops w).
Proof. exact nodup_guarded. Qed.
Print Assumptions C08_nodup_syntactic_guard_partial.

Theorem C08_nodup_guard_not_vacuous :
  never_asks never_asks_example = true /\ length (objs (run current never_asks_example empty_world)) = 8.
Proof. exact never_asks_example_ok. Qed.
Print Assumptions C08_nodup_guard_not_vacuous.

(* results documented as copies (+ - * copy() Structure(stru) pickle deepcopy): the result is a NEW object,
   every atom in it is newer than every atom that existed before, its lattice is newer than every lattice
   that existed before, and everything that existed before still holds the same atom objects *)
Theorem C08_copies_are_fresh : forall o w w' hn, Inv w -> copy_op o w = true ->
  step current o w = (w', Done (RObj hn)) -> fresh_result w w' hn.
Proof. exact copies_are_fresh. Qed.
Print Assumptions C08_copies_are_fresh.

Theorem C08_copies_share_nothing : forall o w w' hn, Inv w -> copy_op o w = true ->
  step current o w = (w', Done (RObj hn)) ->
  exists its L, nth_error (objs w') hn = Some (OStruct its L) /\
    forall h ob, nth_error (objs w) h = Some ob ->
      nth_error (objs w') h = Some ob /\
      (forall a, In a its -> ~ In a (obj_items ob)) /\ (forall its2 L2, ob = OStruct its2 L2 -> L2 <> L).
Proof. exact copies_share_nothing. Qed.
Print Assumptions C08_copies_share_nothing.

(* results documented as selections (slice, index list/tuple, boolean mask, labels): a new container holding
   EXACTLY the selected atom objects in the selected order, with the receiver's lattice object; no atom is
   created, no payload changes, every other object is untouched *)
Theorem C08_selections_share : forall o w h idxs old L, Inv w -> selected o w = Some (h, idxs) ->
  get_struct w h = Some (old, L) ->
  exists hn w', step current o w = (w', Done (RObj hn)) /\ hn = length (objs w) /\
    objs w' = objs w ++ [OStruct (pick old idxs) L] /\
    length (heap w') = length (heap w) /\ (forall b, tag_of w' b = tag_of w b).
Proof. exact selections_share. Qed.
Print Assumptions C08_selections_share.

Theorem C08_copy_selection_hypotheses_satisfiable :
  (Inv three_atoms /\ snd (step current (Mul 0 2%Z) three_atoms) = Done (RObj 1) /\
   nth_error (objs (fst (step current (Mul 0 2%Z) three_atoms))) 1 = Some (OStruct [3; 4; 5; 6; 7; 8] 3)) /\
  (get_struct three_atoms 0 = Some ([0; 1; 2], 0) /\
   slice_indices 3 (mkSlice None None (Some (-2)%Z)) = Some [2; 0] /\
   nth_error (objs (fst (step current (GetSlice 0 (mkSlice None None (Some (-2)%Z))) three_atoms))) 1 = Some (OStruct [2; 0] 0)).
Proof. exact (conj copy_hypotheses_example selection_hypotheses_example). Qed.
Print Assumptions C08_copy_selection_hypotheses_satisfiable.

(* items refine plain-list semantics.  The core lemma: after any insertion/assignment the payload sequence of
   the receiver is the plain list edit (old[lo:hi] = new | old[i_k] = new[k] | [old[i] for i in idxs]) of its
   old payload sequence with the payloads of the sources - copied or kept makes no difference - and no other
   object changes its items.  The corollaries spell it out per overloaded operation.
   (del / pop / remove / reverse / clear are inherited from list unchanged: the model defines them as the
   plain edit EPick, there is nothing to refine.) *)
Theorem C08_items_refine_list : forall (h : hid) srcs e w old L, wf w ->
  nth_error (objs w) h = Some (OStruct old L) -> srcs_valid w srcs ->
  exists new, nth_error (objs (install h srcs e w)) h = Some (OStruct new L) /\
    map (tag_of (install h srcs e w)) new = plain_edit e (map (tag_of w) old) (map (src_tag w) srcs) /\
    (forall h2, h2 <> h -> nth_error (objs (install h srcs e w)) h2 = nth_error (objs w) h2).
Proof. exact install_refines. Qed.
Print Assumptions C08_items_refine_list.

Theorem C08_append_refines : forall h r c w old L a, Inv w -> get_struct w h = Some (old, L) -> resolve_aref w r = Some a ->
  payload (fst (step current (Append h r c) w)) h = payload w h ++ [tag_of w a].
Proof. exact append_refines. Qed.
Print Assumptions C08_append_refines.

Theorem C08_insert_refines : forall h i r c w old L a, Inv w -> get_struct w h = Some (old, L) -> resolve_aref w r = Some a ->
  let p := clamp_insert (length old) i in
  payload (fst (step current (Insert h i r c) w)) h = firstn p (payload w h) ++ [tag_of w a] ++ skipn p (payload w h).
Proof. exact insert_refines. Qed.
Print Assumptions C08_insert_refines.

Theorem C08_setint_refines : forall h i r c w old L a k, Inv w -> get_struct w h = Some (old, L) -> resolve_aref w r = Some a ->
  norm_index (length old) i = Some k ->
  payload (fst (step current (SetInt h i r c) w)) h = firstn k (payload w h) ++ [tag_of w a] ++ skipn (S k) (payload w h).
Proof. exact setint_refines. Qed.
Print Assumptions C08_setint_refines.

Theorem C08_extend_iadd_refine : forall h s c w old L so, Inv w -> get_struct w h = Some (old, L) -> get_obj w s = Some so ->
  payload (fst (step current (Extend h s c) w)) h = payload w h ++ payload w s /\
  payload (fst (step current (IAdd h s) w)) h = payload w h ++ payload w s.
Proof. exact extend_refines. Qed.
Print Assumptions C08_extend_iadd_refine.

Theorem C08_setslice_refines : forall h sl v c w old L vo start stop stp slen idxs, Inv w ->
  get_struct w h = Some (old, L) -> get_obj w v = Some vo ->
  slice_adjust (length old) sl = Some (start, stop, stp, slen) -> slice_indices (length old) sl = Some idxs ->
  payload (fst (step current (SetSlice h sl v c) w)) h =
    if Z.eqb stp 1 then firstn (Z.to_nat start) (payload w h) ++ payload w v ++ skipn (Nat.max (Z.to_nat start) (Z.to_nat stop)) (payload w h)
    else if Nat.eqb (length (obj_items vo)) (length idxs) then assign_allT (payload w h) (combine idxs (payload w v))
    else payload w h.
Proof. exact setslice_refines. Qed.
Print Assumptions C08_setslice_refines.

Theorem C08_isub_refines : forall h s w old L so, Inv w -> get_struct w h = Some (old, L) -> get_obj w s = Some so ->
  payload (fst (step current (ISub h s) w)) h = map (tag_of w) (filter (fun a => negb (memb a (obj_items so))) old).
Proof. exact isub_refines. Qed.
Print Assumptions C08_isub_refines.

Theorem C08_imul_refines : forall h n w old L, Inv w -> get_struct w h = Some (old, L) ->
  payload (fst (step current (IMul h n) w)) h =
    if (n <=? 0)%Z then [] else payload w h ++ map (tag_of w) (repeat_list (Z.to_nat (n - 1)) old).
Proof. exact imul_refines. Qed.
Print Assumptions C08_imul_refines.

Theorem C08_copy_refines : forall h w old L, Inv w -> get_struct w h = Some (old, L) ->
  exists hn w', step current (Copy h) w = (w', Done (RObj hn)) /\ payload w' hn = payload w h.
Proof. exact copy_refines. Qed.
Print Assumptions C08_copy_refines.

Theorem C08_add_refines : forall h s w old L so, Inv w -> get_struct w h = Some (old, L) -> get_obj w s = Some so ->
  exists hn w', step current (Add h s) w = (w', Done (RObj hn)) /\ payload w' hn = payload w h ++ payload w s.
Proof. exact add_refines. Qed.
Print Assumptions C08_add_refines.

Theorem C08_sub_refines : forall h s w old L so, Inv w -> get_struct w h = Some (old, L) -> get_obj w s = Some so ->
  exists hn w', step current (Sub h s) w = (w', Done (RObj hn)) /\
    payload w' hn = map (tag_of w) (filter (fun a => negb (memb a (obj_items so))) old).
Proof. exact sub_refines. Qed.
Print Assumptions C08_sub_refines.

Theorem C08_mul_refines : forall h n w old L, Inv w -> get_struct w h = Some (old, L) ->
  exists hn w', step current (Mul h n) w = (w', Done (RObj hn)) /\
    payload w' hn = map (tag_of w) (repeat_list (Z.to_nat n) old).
Proof. exact mul_refines. Qed.
Print Assumptions C08_mul_refines.

(* payload-only operations - whole-column assignment (s.element / .label / .xyz / .occupancy = ...),
   assignUniqueLabels, column reads, composition, getLastAtom - never change an object's items, a lattice
   reference, the number of atoms or a guard flag *)
Theorem C08_payload_ops_keep_identities : forall o w, payload_only o = true ->
  same_identities w (fst (step current o w)).
Proof. exact payload_ops_keep_identities. Qed.
Print Assumptions C08_payload_ops_keep_identities.

Theorem C08_getcol_reads_payload : forall h c w old L, get_struct w h = Some (old, L) ->
  step current (GetCol h c) w = (w, Done (RVals (map (fun a => get_col c (tag_of w a)) old))) /\
  step current (Composition h) w = (w, Done (RVals (composition_of w old))).
Proof. exact getcol_reads_payload. Qed.
Print Assumptions C08_getcol_reads_payload.

(* whole-column assignment, one value per atom: the column reads back the values, the other three columns and
   all atoms outside the container keep their payload (stated for containers without a repeated atom and at
   least two atoms; for a container holding an atom twice the later value wins: correspondence-only) *)
Theorem C08_setcol_refines_partial : forall h c tags w old L, Inv w -> get_struct w h = Some (old, L) -> NoDup old ->
  length tags = length old -> 2 <= length old ->
  let w' := fst (step current (SetCol h c tags) w) in
  map (fun a => get_col c (tag_of w' a)) old = tags /\
  (forall c' a, c' <> c -> get_col c' (tag_of w' a) = get_col c' (tag_of w a)) /\
  (forall b, ~ In b old -> tag_of w' b = tag_of w b).
Proof. exact setcol_refines. Qed.
Print Assumptions C08_setcol_refines_partial.

(* the one-value (scalar / broadcast) form, for any container, also one holding an atom twice *)
Theorem C08_setcol_broadcast_refines : forall h c t w old L, Inv w -> get_struct w h = Some (old, L) -> old <> [] ->
  let w' := fst (step current (SetCol h c [t]) w) in
  (forall a, In a old -> get_col c (tag_of w' a) = t) /\
  (forall c' a, c' <> c -> get_col c' (tag_of w' a) = get_col c' (tag_of w a)) /\
  (forall b, ~ In b old -> tag_of w' b = tag_of w b).
Proof. exact setcol_broadcast_refines. Qed.
Print Assumptions C08_setcol_broadcast_refines.

(* s.sort(key=column, reverse=rev) (inherited from list): the same atom objects, permuted, ordered by the key;
   heap and lattices untouched *)
Theorem C08_sort_permutes : forall h c rev w old L, get_struct w h = Some (old, L) ->
  let keys := map (fun a => get_col c (tag_of w a)) old in
  let w' := fst (step current (Sort h (Some c) rev) w) in
  get_struct w' h = Some (pick old (sort_positions rev keys), L) /\
  Permutation (pick old (sort_positions rev keys)) old /\
  Sorted (fun i j : nat => (if rev then Z.geb else Z.leb) (nth i keys 0%Z) (nth j keys 0%Z) = true) (sort_positions rev keys) /\
  heap w' = heap w /\ nlat w' = nlat w.
Proof. exact sort_permutes. Qed.
Print Assumptions C08_sort_permutes.

(* ... and the sort is stable, also with reverse=True: among equal keys the original order is kept *)
Theorem C08_sort_stable : forall rev keys,
  Sorted (stable_before rev (fun i => nth i keys 0%Z)) (sort_positions rev keys).
Proof. exact sort_stable. Qed.
Print Assumptions C08_sort_stable.

(* assignUniqueLabels: exactly the distinct atom objects are labelled, once each, in order of first appearance
   (partial: that the written labels are pairwise different strings is checked on the real code only) *)
Theorem C08_unique_labels_partial : forall h w old L, get_struct w h = Some (old, L) ->
  fst (step current (AssignUniqueLabels h) w) = set_tags ColLabel (unique_labels w [] [] old) w /\
  map fst (unique_labels w [] [] old) = nodup_first [] old /\ NoDup (map fst (unique_labels w [] [] old)).
Proof. exact unique_labels_partial. Qed.
Print Assumptions C08_unique_labels_partial.

(* the unguarded invariant is FALSE of the faithful model: sel = s[0:1]; sel.lattice = Lattice()  and
   Structure(list(s)) re-point atoms that s still holds (known finding D10, replayed on the real code) *)
Theorem C08_lattice_inv_refuted : exists ops w, Inv w /\ g_repoint w = false /\ ~ lat_ok (run current ops w).
Proof. exact lattice_inv_refuted. Qed.
Print Assumptions C08_lattice_inv_refuted.

Theorem C08_lattice_inv_refuted_constructor :
  ~ lat_ok (run current d10_constructor empty_world) /\ g_repoint (run current d10_constructor empty_world) = true.
Proof. exact lattice_inv_refuted_constructor. Qed.
Print Assumptions C08_lattice_inv_refuted_constructor.

(* D8 (pinned tree): s += s never returns, whatever the fuel; repaired tree: it returns the receiver *)
Theorem C08_iadd_self_refuted_pinned : exists w h, forall fuel, snd (step (pinned fuel) (IAdd h h) w) = Diverges.
Proof. exact iadd_self_refuted. Qed.
Print Assumptions C08_iadd_self_refuted_pinned.

Theorem C08_iadd_self_terminates : forall w h old L,
  get_struct w h = Some (old, L) -> snd (step current (IAdd h h) w) = Done (RObj h).
Proof. exact iadd_self_current. Qed.
Print Assumptions C08_iadd_self_terminates.

(* D9 (pinned tree): unpickling with protocol >= 2 leaves the atoms without lattice *)
Theorem C08_pickle_refuted_pinned :
  let w := run (pinned 0) d9_history empty_world in
  nth_error (objs w) 1 = Some (OStruct [2; 3] 1) /\ lat_of w 2 = None /\ lat_of w 3 = None /\ g_repoint w = false.
Proof. exact pickle_refuted. Qed.
Print Assumptions C08_pickle_refuted_pinned.
