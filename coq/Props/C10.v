(* C10 - A lattice's derived quantities are coherent after any update history.
   setLatPar / setLatBase / reciprocal are the definitions regenerated from lattice.py; the six property
   assignments are setLatPar with one argument (the translator checks each setter is `self.setLatPar(x=value)`). *)
From Coq Require Import Reals List.
From DS Require Import Base.RMat Base.Trig Model.LatDefs Model.C01_Spec Model.C10_LatticeHist Gen.LatFormulas.
From DS Require Import Proofs.C01_Lattice Proofs.C10_Base Proofs.C10_Hist Proofs.C10_Reciprocal.
Import ListNotations.
Open Scope R_scope.

(* nothing is left over from earlier values: after setLatPar with ANY subset of arguments every one of the 32 cached
   attributes equals that of a lattice freshly built from the merged parameters *)
Theorem C10_no_leftover : forall old a b c al be ga r,
  setLatPar old a b c al be ga r =
  build (merge a (l_a old)) (merge b (l_b old)) (merge c (l_c old)) (merge al (l_alpha old)) (merge be (l_beta old))
        (merge ga (l_gamma old)) (merge r (l_baserot old)).
Proof. exact no_leftover. Qed.
Print Assumptions C10_no_leftover.

(* the base-vector path agrees attribute by attribute with the parameter path *)
Theorem C10_setLatBase_eq_build : forall old B, 0 < det B ->
  let L := setLatBase old B in L = build (l_a L) (l_b L) (l_c L) (l_alpha L) (l_beta L) (l_gamma L) (l_baserot L).
Proof. exact setLatBase_eq_build. Qed.
Print Assumptions C10_setLatBase_eq_build.

(* after ANY finite history of setLatPar (any subset of arguments, incl. single property assignments and rotations),
   setLatBase (positive determinant - the code raises otherwise) and copy-construction, the object is coherent *)
Theorem C10_coherent_forever : forall ops L, Coherent L -> Forall op_ok ops -> Coherent (run ops L).
Proof. exact coherent_forever. Qed.
Print Assumptions C10_coherent_forever.
Theorem C10_coherent_after_first_update : forall ops o L, op_ok o -> (match o with OCopy => Coherent L | _ => True end) ->
  Forall op_ok ops -> Coherent (run (o :: ops) L).
Proof. exact coherent_after_update. Qed.

(* the two ways of defining a lattice describe the same object *)
Theorem C10_two_definitions_agree : forall old a b c alpha beta gamma r, valid_cell a b c alpha beta gamma -> proper_rot r ->
  setLatBase old (l_base (build a b c alpha beta gamma r)) = build a b c alpha beta gamma r.
Proof. exact two_definitions_agree. Qed.
Print Assumptions C10_two_definitions_agree.

(* the reciprocal cell parameters are those of the reciprocal lattice, and the reciprocal of the reciprocal is the original *)
Theorem C10_reciprocal_params : forall a b c al be ga r, valid_cell a b c al be ga -> proper_rot r ->
  let L := build a b c al be ga r in let Lr := L_reciprocal L in
  l_a Lr = l_ar L /\ l_b Lr = l_br L /\ l_c Lr = l_cr L /\ l_ca Lr = l_car L /\ l_cb Lr = l_cbr L /\ l_cg Lr = l_cgr L.
Proof. exact reciprocal_params. Qed.
Print Assumptions C10_reciprocal_params.
Theorem C10_reciprocal_involution : forall a b c al be ga r, valid_cell a b c al be ga -> proper_rot r ->
  let L := build a b c al be ga r in L_reciprocal (L_reciprocal L) = L.
Proof. exact reciprocal_involution. Qed.

Example C10_history_nonvacuous :
  Forall op_ok [OSetLatPar (Some 3) None None None None (Some 100) None; OSetLatBase (M 2 0 0 0 3 0 0 1 4); OCopy].
Proof. exact history_nonvacuous. Qed.
