(* C18 - Nanoparticle cut-outs contain only crystal sites inside the requested shape.
   Statements only; proofs in Proofs/C18_Ellipsoid.v.  `make_ellipsoid`, `make_sphere` are Model/C18_Ellipsoid.v over
   Gen/C18_Spec.v (block-size formula, criterion, call shapes translated from the CURRENT makeellipsoid.py /
   shapeutils.py) and the C15 supercell model.  Real arithmetic; `sum ** 0.5 > 1` is decided as `sum > 1`.
   B = m * base is the base of the returned (m x m x m) cell, cart B x = x.xyz . B the Cartesian position.
   "input not modified" is checked on the real objects by the correspondence run. *)
From Coq Require Import Reals ZArith QArith List Bool.
From DS Require Import Base.RMat Base.C09_GNum Gen.C15_Spec Model.C15_Supercell Gen.C18_Spec Model.C18_Ellipsoid
  Proofs.C15_Lists Proofs.C15_Supercell Proofs.C18_Ellipsoid.
Import ListNotations.

(* popping the indices collected in descending order = keeping, in order, the atoms that are not outside *)
Theorem C18_pop_descending_is_filter : forall (A : Type) (P : A -> bool) (l : list A),
  pop_all (del_list P l) l = filter (fun x => negb (P x)) l.
Proof. exact @pop_descending_is_filter_l. Qed.
Print Assumptions C18_pop_descending_is_filter.

(* only_sites + all_inside + center_is_member, in one statement: a successful call has block size m >= 1, its atoms are
   (in block order) exactly those C15 images of the input atoms - parent's payload, position parent + i a1 + j a2 + k a3,
   see C15_image_positions - that satisfy sum(((x - c)/r)^2) <= 1 for the centre c, and the centre atom is one of them *)
Theorem C18_only_sites_all_inside_center_member : forall (P : Type) (S : einput R P) a b c S',
  make_ellipsoid ROps Rceil S a b c = EOk S' ->
  let sabc := GV a b c in let m := block_size ROps Rceil sabc (e_recbase S) in let B := scaled_base ROps m (e_base S) in
  exists newS ctr,
    (1 <= m)%Z /\
    supercell ROps (e_S S) [inject_Z m; inject_Z m; inject_Z m] = Ok newS /\
    s_atoms newS = flat_map (images ROps (Z.to_nat m) (Z.to_nat m) (Z.to_nat m)) (s_atoms (e_S S)) /\
    s_cell S' = scale_cell ROps (Z.to_nat m) (Z.to_nat m) (Z.to_nat m) (s_cell (e_S S)) /\
    In ctr (s_atoms S') /\
    s_atoms S' = filter (fun x => negb (outside ROps B sabc (cart ROps B ctr) x)) (s_atoms newS) /\
    (forall x, In x (s_atoms S') -> In x (s_atoms newS) /\ (c18_crit ROps (cart ROps B x) (cart ROps B ctr) sabc <= 1)%R) /\
    (forall x, In x (s_atoms newS) -> (c18_crit ROps (cart ROps B x) (cart ROps B ctr) sabc <= 1)%R -> In x (s_atoms S')).
Proof. exact @ellipsoid_result. Qed.
Print Assumptions C18_only_sites_all_inside_center_member.

(* no site twice, when no two input atoms coincide modulo the cell *)
Theorem C18_nodup : forall (P : Type) (S : einput R P) a b c S', make_ellipsoid ROps Rceil S a b c = EOk S' ->
  no_coincident (s_atoms (e_S S)) -> NoDup (map (@at_xyz R P) (s_atoms S')).
Proof. exact @ellipsoid_nodup. Qed.
Print Assumptions C18_nodup.

(* input atoms inside the unit cell: every crystal site (parent p displaced by integers t) that lies in the unit cell of the
   returned structure and inside the ellipsoid centred on the centre atom is present *)
Theorem C18_complete_in_cell : forall (P : Type) (S : einput R P) a b c S', make_ellipsoid ROps Rceil S a b c = EOk S' ->
  let sabc := GV a b c in let m := block_size ROps Rceil sabc (e_recbase S) in let B := scaled_base ROps m (e_base S) in
  Forall (fun p => in_unit3 (at_xyz p)) (s_atoms (e_S S)) ->
  exists ctr, In ctr (s_atoms S') /\
    forall p t0 t1 t2, In p (s_atoms (e_S S)) -> in_unit3 (at_xyz (site m p t0 t1 t2)) ->
      (c18_crit ROps (cart ROps B (site m p t0 t1 t2)) (cart ROps B ctr) sabc <= 1)%R -> In (site m p t0 t1 t2) (s_atoms S').
Proof. exact @complete_in_cell. Qed.
Print Assumptions C18_complete_in_cell.

(* EXACTLY the sites inside: with the input atoms inside the unit cell, for one returned centre atom,
   (a) every returned atom is a crystal site `site m p t` = parent p displaced by the integers t (parent's payload), and
   (b) for every parent p and ALL integer triples t:  site m p t is returned  <->  it lies in the unit cell of the returned
       structure and inside the ellipsoid centred on that atom.   (soundness and completeness in one statement) *)
Theorem C18_exactly_the_sites_inside : forall (P : Type) (S : einput R P) a b c S', make_ellipsoid ROps Rceil S a b c = EOk S' ->
  let sabc := GV a b c in let m := block_size ROps Rceil sabc (e_recbase S) in let B := scaled_base ROps m (e_base S) in
  Forall (fun p => in_unit3 (at_xyz p)) (s_atoms (e_S S)) ->
  exists ctr, In ctr (s_atoms S') /\
    (forall x, In x (s_atoms S') -> exists p t0 t1 t2, In p (s_atoms (e_S S)) /\ x = site m p t0 t1 t2) /\
    (forall p t0 t1 t2, In p (s_atoms (e_S S)) ->
       (In (site m p t0 t1 t2) (s_atoms S') <->
        in_unit3 (at_xyz (site m p t0 t1 t2)) /\ (c18_crit ROps (cart ROps B (site m p t0 t1 t2)) (cart ROps B ctr) sabc <= 1)%R)).
Proof. exact @exact_in_cell. Qed.
Print Assumptions C18_exactly_the_sites_inside.

(* a sphere is the ellipsoid with three equal radii, and the default-argument forms: the defaults are carried from the
   source into `make_ellipsoid_opt` (c18_default_b, c18_default_c), so "c omitted means c = a" is a theorem about the
   current source (it fails when the source says c = b) *)
Theorem C18_sphere_is_ellipsoid : forall (T : Type) (O : ops T) (tceil : T -> Z) (P : Type) (S : einput T P) r,
  make_sphere O tceil S r = make_ellipsoid O tceil S r r r /\
  make_ellipsoid_opt O tceil S r None None = make_ellipsoid O tceil S r r r /\
  (forall b, make_ellipsoid_opt O tceil S r (Some b) None = make_ellipsoid O tceil S r b r) /\
  (forall c, make_ellipsoid_opt O tceil S r None (Some c) = make_ellipsoid O tceil S r r c) /\
  (forall b c, make_ellipsoid_opt O tceil S r (Some b) (Some c) = make_ellipsoid O tceil S r b c).
Proof. intros. split; [apply sphere_is_ellipsoid | apply ellipsoid_defaults]. Qed.
Print Assumptions C18_sphere_is_ellipsoid.

(* PARTIAL (the property says "all positive radii"): the call raises ValueError exactly when no component of the generated
   `frac` vector is positive; whether that can happen for positive radii depends on the frac formula of the source:
   with S.lattice.fractional(sabc) it does for rotated cells (finder + known finding / fix), with sabc . |recbase| it cannot *)
Theorem C18_mno_positive_partial : forall (P : Type) (S : einput R P) a b c,
  make_ellipsoid ROps Rceil S a b c = EValueError <->
  let f := c18_frac ROps (GV a b c) (e_recbase S) in (x0 f <= 0 /\ x1 f <= 0 /\ x2 f <= 0)%R.
Proof. exact @rejected_iff. Qed.
Print Assumptions C18_mno_positive_partial.

(* hypotheses satisfiable: a concrete cut-out computed by the kernel in exact rationals (cubic cell 7/2, radius 5: 19 atoms) *)
Local Open Scope Q_scope.
Example C18_example :
  match make_sphere QOps Qceil (EIn (Struct [Atom (GV 0 0 0) 0%nat] (Cell (7 # 2) (7 # 2) (7 # 2) 90 90 90 (gI QOps)))
                                    (GM (GV (7 # 2) 0 0) (GV 0 (7 # 2) 0) (GV 0 0 (7 # 2))) (GM (GV (2 # 7) 0 0) (GV 0 (2 # 7) 0) (GV 0 0 (2 # 7)))) 5
  with EOk s => length (s_atoms s) | _ => 0%nat end = 19%nat.
Proof. vm_compute. reflexivity. Qed.

(* the rejection condition of C18_mno_positive_partial IS met by positive radii under the signed formula
   frac = sabc . recbase of the pinned source: cubic cell a = 7/2 turned by 180 degrees about (1,-1,0)
   (recbase below), radii (5,5,5): every component is -10/7.  Replayed on the real code by the harness (case ROTATED). *)
Example C18_signed_fractional_block_size_refuted :
  let recbase := GM (GV 0 (-(2 # 7)) 0) (GV (-(2 # 7)) 0 0) (GV 0 0 (-(2 # 7))) in
  let f := gvmmul QOps (GV 5 5 5) recbase in
  x0 f <= 0 /\ x1 f <= 0 /\ x2 f <= 0.
Proof. cbv zeta. repeat split; apply Qle_bool_iff; vm_compute; reflexivity. Qed.
