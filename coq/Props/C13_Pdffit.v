(* C13 - P_pdffit.  Statements only; proofs in Proofs/. *)
From Coq Require Import List Bool Arith ZArith.
From DS Require Import Base.C13_Exn Gen.C13_ExcSpec Model.C13_Common Model.C13_Pdffit.
From DS Require Import Proofs.C13_ExnLemmas Proofs.C13_Pdffit.
From Coq Require Import Ascii String.
Import ListNotations.

Theorem C13_only_documented_pdffit :
  forall (V : Type) (split split_commas : string -> list string) (isblank : string -> bool)
         (float_of : string -> res V) (int_of : string -> res Z) (lattice_of : list V -> res unit) (mulZ : V -> Z -> res V),
    (forall s, within [ValueError] (float_of s)) ->
    (forall s, within [ValueError] (int_of s)) ->
    (forall l, within [ValueError; ZeroDivisionError] (lattice_of l)) ->
    (forall v z, within [OverflowError] (mulZ v z)) ->
    forall lines, documented (parse_pdffit V split split_commas isblank float_of int_of lattice_of mulZ lines).
Proof. exact only_documented_pdffit. Qed.
Print Assumptions C13_only_documented_pdffit.

