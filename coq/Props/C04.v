(* C04 - Writing a structure and reading it back preserves everything the format carries; repeated
   conversion never drifts, grows or fails.  Statements only; proofs live in Base/ (field codecs) and Proofs/.
   The models read widths, precisions, literals and slices from Gen/C04_FmtSpecs.v, regenerated from
   parsers/p_*.py on every run.  Whole-file round trip: xyz, rawxyz, pdffit, discus, pdb, xcfg; cif: record-level
   `_partial` theorems (see design.d/C04.md). *)
From Coq Require Import List Bool Arith NArith ZArith String.
From DS Require Import Base.C04_Text Base.C04_Decimal Model.C04_Fmt Gen.C04_FmtSpecs.
From DS Require Import Model.C04_Xyz Model.C04_Rawxyz Model.C04_Pdffit Model.C04_Discus Model.C04_Cols Model.C04_Pdb Model.C04_Xcfg Model.C04_Cif.
From DS Require Import Proofs.C04_Fmt Proofs.C04_GenIdem Proofs.C04_NoDrift Proofs.C04_Xyz Proofs.C04_Rawxyz Proofs.C04_Pdffit Proofs.C04_Discus Proofs.C04_Cols Proofs.C04_Pdb Proofs.C04_Xcfg Proofs.C04_XcfgFile Proofs.C04_Cif
                       Proofs.C04_Examples.
Import ListNotations.

(* ---------------- field level ---------------- *)

(* fix_roundtrip: float() of a "%w.pf" field is the value rounded (half-even) to p decimals, for every
   width w - a field wider than its column still reads back when a blank separates it *)
Theorem C04_fix_roundtrip : forall w p d, parse_float (print_fix w p d) = Some (dq p d).
Proof. exact fix_roundtrip. Qed.
Print Assumptions C04_fix_roundtrip.

(* fix_quantize_error: |d - dq p d| <= 10^-p / 2, on integers scaled by 10^(p + dexp d) *)
Theorem C04_fix_quantize_error : forall p d,
  (2 * (dmag d * pow10 p) <= 2 * (quantN p d * pow10 (dexp d)) + pow10 (dexp d) /\
   2 * (quantN p d * pow10 (dexp d)) <= 2 * (dmag d * pow10 p) + pow10 (dexp d))%N.
Proof. exact quant_error. Qed.
Print Assumptions C04_fix_quantize_error.

(* gen_roundtrip: inside the non-exponent range, float() of a "%.Pg" field is the value rounded to P significant digits *)
Theorem C04_gen_roundtrip : forall w P d t, print_gen P d = Some t -> parse_float (lpad w t) = gq P d /\ gq P d <> None.
Proof. exact gen_roundtrip. Qed.
Print Assumptions C04_gen_roundtrip.

(* re-printing a value read from a "%.Pg" field reproduces it: the %g quantisation is idempotent *)
Theorem C04_gen_idempotent : forall P d d', (0 < P)%nat -> gq P d = Some d' -> gq P d' = Some d'.
Proof. exact gq_idem. Qed.
Print Assumptions C04_gen_idempotent.

Theorem C04_int_roundtrip : forall w z, parse_int (print_int w z) = Some z.
Proof. exact int_roundtrip. Qed.
Print Assumptions C04_int_roundtrip.

(* split_join at the level of a whole format string: the blank-separated tokens of a rendered record are
   the words of its literals and the bodies of its fields, provided the descriptor separates fields by blanks *)
Theorem C04_split_join : forall f a r, sep_ok f = true -> forallb arg_ok a = true -> render f a = Some r ->
  render_toks f a = Some (split_ws r).
Proof. exact render_split. Qed.
Print Assumptions C04_split_join.

(* the same after line.replace(",", " ") (cell, dcell, ncell, sharp, shape records) *)
Theorem C04_split_join_commas : forall f a r, sep_ok (c2s_spec f) = true -> forallb arg_ok a = true -> render f a = Some r ->
  render_toks (c2s_spec f) a = Some (split_ws (c2s r)).
Proof. exact render_split_c2s. Qed.
Print Assumptions C04_split_join_commas.

(* StructureParser.tostring / parse: the text wrapper returns the lines it was given *)
Theorem C04_text_lines_roundtrip : forall l0 ls,
  forallb (fun x => negb (has_char nl x)) (l0 :: ls) = true -> last_char_ok (last (l0 :: ls) []) = true ->
  lines_of_text (text_of_lines (l0 :: ls)) = l0 :: ls.
Proof. exact lines_text_roundtrip_cons. Qed.
Print Assumptions C04_text_lines_roundtrip.

(* columns_roundtrip: cutting a fixed-column record at constant columns is decided on the nominal widths alone, provided
   every field fits its column (sym_ok) *)
Theorem C04_columns_roundtrip : forall lo hi ps, sym_ok ps = true -> (hi <= List.length (flat ps))%nat -> slice lo hi (flat ps) = scut lo hi ps.
Proof. exact slice_flat. Qed.
Print Assumptions C04_columns_roundtrip.

(* ---------------- record level ---------------- *)

Theorem C04_roundtrip_xyz : forall S, repr_xyz S = true -> exists t, write_xyz S = Some t /\ read_xyz t = Some (canon_xyz S).
Proof. exact roundtrip_xyz. Qed.
Print Assumptions C04_roundtrip_xyz.
Theorem C04_canon_idem_xyz : forall S, canon_xyz (canon_xyz S) = canon_xyz S.
Proof. exact canon_idem_xyz. Qed.
Theorem C04_no_drift_xyz : forall S n, repr_xyz S = true -> iter_opt rt_xyz (Datatypes.S n) S = Some (canon_xyz S).
Proof. exact no_drift_xyz. Qed.
Print Assumptions C04_no_drift_xyz.

Theorem C04_roundtrip_rawxyz : forall S, repr_rawxyz S = true -> exists t, write_rawxyz S = Some t /\ read_rawxyz t = Some (canon_rawxyz S).
Proof. exact roundtrip_rawxyz. Qed.
Print Assumptions C04_roundtrip_rawxyz.
Theorem C04_canon_idem_rawxyz : forall S, canon_rawxyz (canon_rawxyz S) = canon_rawxyz S.
Proof. exact canon_idem_rawxyz. Qed.
Theorem C04_no_drift_rawxyz : forall S n, repr_rawxyz S = true -> iter_opt rt_rawxyz (Datatypes.S n) S = Some (canon_rawxyz S).
Proof. exact no_drift_rawxyz. Qed.
Print Assumptions C04_no_drift_rawxyz.

(* pdffit: what the reader assigns (raw attributes) is canon of what the writer read *)
Theorem C04_roundtrip_pdffit : forall S, repr_pdffit S = true -> exists t, write_pdffit S = Some t /\ read_pdffit t = Some (canon_pdffit S).
Proof. exact roundtrip_pdffit. Qed.
Print Assumptions C04_roundtrip_pdffit.
Theorem C04_canon_idem_pdffit : forall S, canon_pdffit (canon_pdffit S) = canon_pdffit S.
Proof. exact canon_idem_pdffit. Qed.
(* no drift, with the lattice-dependent view of isotropic atoms (a.U rebuilt from U11) over ANY geometry that
   (1) still classifies the printed isotropic tensor as isotropic and (2) has an exact 1 on the diagonal of
   isotropicunit.  Both facts are checked on the live Lattice for every generated case (vlib/props/c04.py). *)
Theorem C04_no_drift_pdffit :
  forall (isaniso : d6 -> d3 -> d3 -> bool) (isotens : d6 -> dec -> d3 * d3),
  (forall c u, isaniso c (q3 pdffit_w_Uii 0 (fst (isotens c u))) (q3 pdffit_w_Uij 0 (snd (isotens c u))) = false) ->
  (forall c u, first3 (fst (isotens c u)) = u) ->
  forall S n, repr_pdffit S = true ->
  iter_opt (rt_pdffit isaniso isotens) (Datatypes.S n) S = Some (canonl_pdffit isaniso isotens S).
Proof. exact no_drift_pdffit. Qed.
Print Assumptions C04_no_drift_pdffit.

Theorem C04_roundtrip_discus : forall S, repr_discus S = true -> exists t, write_discus S = Some t /\ read_discus t = Some (canon_discus S).
Proof. exact roundtrip_discus. Qed.
Print Assumptions C04_roundtrip_discus.
Theorem C04_canon_idem_discus : forall S, canon_discus (canon_discus S) = canon_discus S.
Proof. exact canon_idem_discus. Qed.
(* no drift, with Bisoequiv re-derived from the stored Uiso by ANY conversion that keeps a value of the printed
   grid on its grid point (UtoB * (BtoU * B) in floating point; checked on every generated case) *)
Theorem C04_no_drift_discus :
  forall bw : dec -> dec,
  (forall b, dq (fprec discus_w_atom 3) (bw (dq (fprec discus_w_atom 3) b)) = dq (fprec discus_w_atom 3) b) ->
  forall S n, repr_discus S = true -> iter_opt (rt_discus bw) (Datatypes.S n) S = Some (canonl_discus bw S).
Proof. exact no_drift_discus. Qed.
Print Assumptions C04_no_drift_discus.

(* the hypotheses above are satisfiable: non-trivial representable structures, and a model of the geometry *)
Theorem C04_hypotheses_satisfiable :
  repr_pdffit ex_pstru = true /\ repr_discus ex_dstru = true /\
  ((forall c u, cubic_isaniso c (q3 pdffit_w_Uii 0 (fst (cubic_isotens c u))) (q3 pdffit_w_Uij 0 (snd (cubic_isotens c u))) = false) /\
   (forall c u, first3 (fst (cubic_isotens c u)) = u)).
Proof. exact (conj repr_pdffit_example (conj repr_discus_example geometry_hypotheses_have_a_model)). Qed.

(* pdb (TITLE, CRYST1, ATOM, ANISOU, TER, END): every structure whose fields fit their columns reads back as canon:
   3-decimal Cartesian positions, 2-decimal occupancy and B, ANISOU integers in 1e-4, CRYST1 at 3/2 decimals *)
Theorem C04_roundtrip_pdb : forall S, repr_pdb S = true -> exists t, write_pdb S = Some t /\ read_pdb t = Some (canon_pdb S).
Proof. exact roundtrip_pdb. Qed.
Print Assumptions C04_roundtrip_pdb.
(* no drift over abstract geometry: Cartesian->fractional->Cartesian, B->Uiso->B and k->k*1e-4 keep a value of the printed
   grid on its grid point; anisotropic atoms stay anisotropic after the 1e-4 rounding and the re-read structure is itself
   representable (reprl_pdb).  The grid hypotheses are checked on the live objects for every generated case. *)
Theorem C04_no_drift_pdb :
  forall (recart : d6 -> d3 -> d3) (bw : dec -> dec) (bequiv : d6 -> list dec -> dec) (isiso : d6 -> list dec -> bool)
         (uof : dec -> dec) (isoU : d6 -> dec -> d6),
  (forall c v, q3 pdb_w_atom 0 (recart c (q3 pdb_w_atom 0 v)) = q3 pdb_w_atom 0 v) ->
  (forall b, dq (fprec pdb_w_atom 4) (bw (dq (fprec pdb_w_atom 4) b)) = dq (fprec pdb_w_atom 4) b) ->
  (forall z, uint (uof (dnorm (zdec z))) = z) ->
  forall S n, reprl_pdb recart bw bequiv isiso uof isoU S = true ->
  iter_opt (rt_pdb recart bw bequiv isiso uof isoU) (Datatypes.S n) S = Some (canonl_pdb recart bw bequiv isiso uof isoU S).
Proof. exact no_drift_pdb. Qed.
Print Assumptions C04_no_drift_pdb.
Theorem C04_pdb_hypotheses_satisfiable : repr_pdb ex_bstru = true.
Proof. exact repr_pdb_example. Qed.

(* xcfg, whole file: for every structure view in the representable range for which the writer model produces a text
   (i.e. box size, H0 and entry values inside the non-exponent range of "%.8g"), reading that text yields canon:
   number of particles, A and H0 at 8 significant digits, the auxiliary column names in order, and per atom the capitalised
   element and the entry fields (reduced position and auxiliary columns) at 8 significant digits.  Covers the header loop
   (including the mass line that ends it), the `^auxiliary\[(\d+)\] =` records with the reconstruction of the column names,
   the entry_count check and the mass / element / entry dispatch of the data block.  The model's file-level writer/reader are
   tied to p_xcfg.py by correspondence; no-drift for xcfg is NOT proved (the re-derivation of A and of the reduced positions
   from the re-read structure is outside the model; the finder covers it). *)
Theorem C04_split_join_blank : forall toks, Forall (fun t => no_ws t = true /\ t <> []) toks -> split_ws (join [sp] toks) = toks.
Proof. exact split_join_sp. Qed.
Theorem C04_roundtrip_xcfg_entry : forall cols a l, entry_line cols a = Some l ->
  map_opt parse_float (split_ws l) = Some (let '(x, y, z) := c_pos a in map g8 ([x; y; z] ++ map (fun c => snd c a) cols)).
Proof. exact roundtrip_xcfg_entry_partial. Qed.
Theorem C04_roundtrip_xcfg : forall S t, repr_xcfg S = true -> write_xcfg S = Some t -> read_xcfg t = Some (canon_xcfg S).
Proof. exact roundtrip_xcfg. Qed.
Print Assumptions C04_roundtrip_xcfg.
Theorem C04_xcfg_hypotheses_satisfiable : repr_xcfg ex_cstru = true /\ exists t, write_xcfg ex_cstru = Some t.
Proof. exact repr_xcfg_example. Qed.

(* cif - PARTIAL: each record of the CIF writer reads back through the setters of the CIF reader (cell record; atom_site row:
   label, capitalised element, position at 6 decimals reduced into the cell, Uiso at 6 decimals, adp type, occupancy at 4;
   aniso row at 6 decimals).  The composition through the layout tokenizer for whole files is not proved: it is compared with
   PyCifRW's tokenisation and with readStr on every generated text. *)
Theorem C04_roundtrip_cif_cell_record_partial : forall k v l, str_tok_ok k = true -> render cif_w_cell [AStr k; ANum v] = Some l ->
  exists b, split_ws l = [k; b] /\ parse_float b = gq (gprec cif_w_cell 0) v /\ gq (gprec cif_w_cell 0) v <> None.
Proof. exact roundtrip_cif_cell_record_partial. Qed.
Theorem C04_roundtrip_cif_atom_row_partial : forall lab a l, str_tok_ok lab = true -> str_tok_ok (f_el a) = true -> atom_row lab a = Some l ->
  site_atom site_cols (split_ws l) =
  Some (GAtom lab (capitalize (f_el a)) (let '(x, y, z) := q3 cif_w_atom 0 (f_xyz a) in (in_cell x, in_cell y, in_cell z))
              (dq (fprec cif_w_atom 3) (f_uiso a)) (f_aniso a) (dq (fprec cif_w_atom 4) (f_occ a)) []).
Proof. exact roundtrip_cif_atom_row_partial. Qed.
Print Assumptions C04_roundtrip_cif_atom_row_partial.
Theorem C04_roundtrip_cif_aniso_row_partial : forall lab a l r, str_tok_ok lab = true -> aniso_row lab a = Some l -> g_label r = lab ->
  set_aniso aniso_cols (split_ws l) [r] =
  Some [GAtom (g_label r) (g_el r) (g_xyz r) (g_uiso r) (g_aniso r) (g_occ r)
              (let '((u1, u2, u3), (u4, u5, u6)) := q6 cif_w_aniso (f_u a) in [u1; u2; u3; u4; u5; u6])].
Proof. exact roundtrip_cif_aniso_row_partial. Qed.
