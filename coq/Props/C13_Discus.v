(* C13 - P_discus.  Statements only; proofs in Proofs/. *)
From Coq Require Import List Bool Arith ZArith.
From DS Require Import Base.C13_Exn Gen.C13_ExcSpec Model.C13_Common Model.C13_Discus.
From DS Require Import Proofs.C13_ExnLemmas Proofs.C13_Discus.
From Coq Require Import Ascii String.
Import ListNotations.

Theorem C13_only_documented_discus :
  forall (V : Type) (split split_commas : string -> list string) (isblank : string -> bool)
         (float_of : string -> res V) (int_of : string -> res Z)
         (set_lat_par : list (list V) -> list V -> res unit) (cell_pars : list (list V) -> list V)
         (lattice_of : list V -> res unit) (mulZ : V -> Z -> res V),
    (forall s, within [ValueError] (float_of s)) ->
    (forall s, within [ValueError] (int_of s)) ->
    (forall h l, within [ValueError; ZeroDivisionError] (set_lat_par h l)) ->
    (forall l, within [ValueError; ZeroDivisionError] (lattice_of l)) ->
    (forall v z, within [OverflowError] (mulZ v z)) ->
    forall lines, documented (parse_discus V split split_commas isblank float_of int_of set_lat_par cell_pars lattice_of mulZ lines).
Proof. exact only_documented_discus. Qed.
Print Assumptions C13_only_documented_discus.

