(* C13 - P_pdb.  Statements only; proofs in Proofs/. *)
From Coq Require Import List Bool Arith ZArith.
From DS Require Import Base.C13_Exn Gen.C13_ExcSpec Model.C13_Common Model.C13_Pdb.
From DS Require Import Proofs.C13_ExnLemmas Proofs.C13_Pdb.
From Coq Require Import Ascii String.
Import ListNotations.

Theorem C13_only_documented_pdb :
  forall (V : Type) (split : string -> list string) (isblank : string -> bool) (strip : string -> string) (float_of : string -> res V)
         (set_lat_par : list V -> res unit)
         (scale3_finish : lat_state V -> list (option (list V)) -> list (option V) -> res (bool * bool))
         (set_xyz_cartn dot_scale : lat_state V -> list V -> res unit),
    (forall s, within [ValueError] (float_of s)) ->
    (forall l, within [ValueError; ZeroDivisionError] (set_lat_par l)) ->
    (forall a b c, within [LinAlgError; ValueError; LatticeError; ZeroDivisionError] (scale3_finish a b c)) ->
    (forall a l, within [ValueError] (set_xyz_cartn a l)) ->
    (forall a l, within [ValueError] (dot_scale a l)) ->
    forall lines, documented (parse_pdb V split isblank strip float_of set_lat_par scale3_finish set_xyz_cartn dot_scale lines).
Proof. exact only_documented_pdb. Qed.
Print Assumptions C13_only_documented_pdb.

