(* C13 - P_xcfg.  Statements only; proofs in Proofs/. *)
From Coq Require Import List Bool Arith ZArith.
From DS Require Import Base.C13_Exn Gen.C13_ExcSpec Model.C13_Common Model.C13_Xcfg.
From DS Require Import Proofs.C13_ExnLemmas Proofs.C13_Xcfg.
From Coq Require Import Ascii String.
Import ListNotations.

Theorem C13_only_documented_xcfg :
  forall (V : Type) (split : string -> list string) (isblank : string -> bool)
         (float_of : string -> res V) (int_of : string -> res Z)
         (first_word_from : nat -> string -> option string) (aux_match : string -> option (string * nat))
         (lat_base_of : list (option V) -> res unit) (aux_assign : string -> res unit),
    (forall s, within [ValueError] (float_of s)) ->
    (forall s, within [ValueError] (int_of s)) ->
    (forall h, within [LatticeError; ValueError; ZeroDivisionError] (lat_base_of h)) ->
    (forall p, within [IndexError; FormatError] (aux_assign p)) ->
    forall lines, documented (parse_xcfg V split isblank float_of int_of first_word_from aux_match lat_base_of aux_assign lines).
Proof. exact only_documented_xcfg. Qed.
Print Assumptions C13_only_documented_xcfg.

