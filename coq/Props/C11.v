(* C11 - Space groups are found by any of their identifiers and by their operations.
   `all_settings`, `builder` and `get_space_group` are regenerated from /repo on every run. *)
From Coq Require Import ZArith List Bool String Permutation.
From DS Require Import Base.ZMat Base.SGDefs Model.C11_LookupDefs Model.C11_Checks Gen.SGTables Gen.LookupSpec.
From DS Require Import Proofs.C11_DecNames Proofs.C11_DecFp Proofs.C11_DecMisc Proofs.C11_Lookup.

(* the table the builder fills exists (the alias loop never hits a missing key) *)
Theorem C11_table_builds : exists T, the_table = Some T.
Proof. exact table_builds. Qed.
Print Assumptions C11_table_builds.

(* a table number, as integer or decimal string, returns the setting registered under exactly that number *)
Theorem C11_by_number : with_table (fun T => forallb (num_ok T) all_settings) = true.
Proof. exact by_number_b. Qed.
Print Assumptions C11_by_number.

(* short and full Hermann-Mauguin symbol of every setting, in each of the 15 case/spacing variants of `variants`,
   returns a setting that carries that symbol (compared modulo case and blanks) *)
Theorem C11_by_name_any_case_and_spacing : with_table (fun T => forallb (names_ok T) all_settings) = true.
Proof. exact by_name_b. Qed.
Print Assumptions C11_by_name_any_case_and_spacing.

(* the exact spelling returns a setting whose short or full symbol is literally that string *)
Theorem C11_by_exact_name : with_table (fun T => forallb (exact_ok T) all_settings) = true.
Proof. exact exact_name_b. Qed.

(* each legacy alias (>= 17 of them, in 4 spellings) returns a setting carrying the alias target *)
Theorem C11_aliases : with_table (fun T => forallb (alias_ok T) (aliases_of builder)) = true /\ (List.length (aliases_of builder) >= 17)%nat.
Proof. exact (conj aliases_b alias_count). Qed.
Print Assumptions C11_aliases.

(* partial: rejection is decided for the 20 listed non-identifiers, not for every string outside the table *)
Theorem C11_unknown_rejected_partial : with_table unknown_ok = true.
Proof. exact unknown_b. Qed.

(* for EVERY identifier: it is accepted only through a key of the table, and every key is accepted *)
Theorem C11_accepted_only_through_table : forall T id s, get_space_group T id = Some s -> exists k, lookup T k = Some s.
Proof. exact get_sound. Qed.
Theorem C11_every_key_accepted : forall T id s, lookup T id = Some s -> get_space_group T id = Some s.
Proof. exact get_direct. Qed.

(* operation lists: for EVERY list, a hit means the list is a rearrangement of that setting's rendered operations *)
Theorem C11_find_sound : forall ops s b, find_space_group all_settings ops = Some (s, b) ->
  In s all_settings /\ Permutation (map op_key ops) (map op_key (sg_ops s)) /\ (b = true <-> map op_key (sg_ops s) = map op_key ops).
Proof. exact (find_sound all_settings). Qed.
Print Assumptions C11_find_sound.

(* ... and every rearrangement of a tabulated list (any permutation, any length) finds exactly that setting *)
Theorem C11_find_complete : forall s ops, In s all_settings -> Permutation (map op_key ops) (map op_key (sg_ops s)) ->
  exists b, find_space_group all_settings ops = Some (s, b).
Proof. exact find_complete. Qed.
Print Assumptions C11_find_complete.

Theorem C11_find_any_order : forall s ops, In s all_settings -> Permutation ops (sg_ops s) ->
  exists b, find_space_group all_settings ops = Some (s, b).
Proof. exact find_any_order. Qed.

Theorem C11_fingerprints_distinct : fingerprints_distinct = true.
Proof. exact fingerprints_distinct_b. Qed.
