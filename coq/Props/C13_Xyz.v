(* C13 - P_xyz and P_rawxyz.  Statements only; proofs in Proofs/. *)
From Coq Require Import List Bool Arith ZArith.
From DS Require Import Base.C13_Exn Gen.C13_ExcSpec Model.C13_Common Model.C13_Xyz.
From DS Require Import Proofs.C13_ExnLemmas Proofs.C13_Xyz.
From Coq Require Import Ascii String.
Import ListNotations.

Theorem C13_only_documented_xyz :
  forall (V : Type) (split : string -> list string) (int_of : string -> res Z) (canon_int : string -> bool)
         (float_of : string -> res V),
    (forall s w, In w (split s) -> w <> EmptyString) ->
    (forall s, within [ValueError] (int_of s)) ->
    (forall s, within [ValueError] (float_of s)) ->
    forall lines, documented (parse_xyz V split int_of canon_int float_of lines).
Proof. exact only_documented_xyz. Qed.
Print Assumptions C13_only_documented_xyz.

Theorem C13_only_documented_rawxyz :
  forall (V : Type) (split : string -> list string) (float_of : string -> res V),
    (forall s, within [ValueError] (float_of s)) ->
    forall lines, documented (parse_rawxyz V split float_of lines).
Proof. exact (fun V split float_of H lines => only_documented_rawxyz V split (fun _ => Ok 0%Z) (fun _ => true) float_of H lines). Qed.
Print Assumptions C13_only_documented_rawxyz.

