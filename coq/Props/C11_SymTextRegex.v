(* C11/C17 - tie of the text-form model to the source BY PROOF for acceptance: every translation part that the
   model of getSymOp (Model/C11_SymText.parse_tpart) accepts is accepted by the validator pattern
   `_rx_symop_translation` as regenerated from p_cif.py on this run (Gen/C17_SymopRegex.v). Together with
   C11_translation_part_numeric this confines the model's accepted language inside the real validator's; the values
   (float(num)/float(den)) and the converse inclusion are checked by the kernel-evaluated correspondence. *)
From Coq Require Import List NArith QArith.
From DS Require Import Base.C04_Text Model.C11_SymText Model.C17_Regex Gen.C17_SymopRegex Proofs.C11_SymTextRegex.

Theorem C11_model_accepts_only_validated_text : forall s q, parse_tpart s = Some q -> rmatch gen_rx_translation (codes s) = true.
Proof. exact model_accepts_only_validated. Qed.
Print Assumptions C11_model_accepts_only_validated_text.

Theorem C11_model_accepts_only_number_sums : forall s q, parse_tpart s = Some q -> is_number_sum (codes s) = true.
Proof. exact model_accepts_only_number_sums. Qed.
