(* C08 - the (T) tie: the facts about structure.py that the heap model hard-codes, regenerated from the current
   source on every run (Gen/C08_Shapes.v), equal the facts the model was written for (Model/C08_ShapeDefs.v).
   Kept apart from Props/C08.v so that an edited statement breaks exactly these obligations. *)
From Coq Require Import List String Bool.
From DS Require Import Model.C08_StructHeap Model.C08_ShapeDefs Gen.C08_Shapes Proofs.C08_Shapes.

(* (T) the tie of the hand-written model to the CURRENT source: translate/c08_shapes.py (fail-closed) extracts from
   class Structure, on every run, the facts the model hard-codes - which `copy` value each internal call passes,
   what append/insert/extend/__setitem__ copy and what they keep (memo-of-ids, keep-set), where `.lattice =
   self.lattice` is assigned, generator vs materialised list in extend, the guard on n in __imul__, the dispatch
   order of index kinds in __getitem__, the shape of __copy__/__init__/__setstate__/_set_lattice, and which list
   attributes the class overrides at all - and this theorem compares them with `model_shapes`
   (Model/C08_ShapeDefs.v), the facts Model/C08_StructHeap.v was written for. *)
Theorem C08_source_shapes_match : gen_shapes = model_shapes.
Proof. exact shapes_match. Qed.
Print Assumptions C08_source_shapes_match.

(* in particular the source is the `current` variant of the model (materialised extend, re-linking __setstate__) *)
Theorem C08_source_variant_is_current : variant_of gen_shapes = current.
Proof. exact source_variant_is_current. Qed.
Print Assumptions C08_source_variant_is_current.

