(* C16 - loading and saving are all-or-nothing and do not depend on the object's past.
   Statements only; proofs live in Proofs/C16_*.v.  The statement lists structure_read, structure_readstr,
   structure_write, pdffit_read, pdffit_readstr (inside run_read / run_write, Model/C16_Methods.v) are
   regenerated from the current source of structure.py and pdffitstructure.py on every run
   (Gen/C16_RW.v); parsers, serialisers, getParser and the file system are arbitrary functions. *)
From Coq Require Import ZArith List Bool String.
From DS Require Import Model.C16_ReadWriteTxn Gen.C16_RW Model.C16_Methods.
From DS Require Import Proofs.C16_Atomic Proofs.C16_Main Proofs.C16_AnyFailure.
Open Scope string_scope.

(* If the parse call of the entry point raises (or getParser does: then the premise holds vacuously),
   the read fails and the target object and the files are exactly as before - for every prior content,
   source, exception, both entry points (file / string), both classes. *)
Theorem C16_read_failure_atomic : forall E G c en o fs n,
  (forall p, e_getparser E (g_format G) = Ok p -> exists x, po_result (parse_of G en fs p) = Raise x) ->
  exists x fr', run_read E G c en (frame_of o fs n) = Failed x fr' /\ f_self fr' = o /\ f_fs fr' = fs.
Proof. exact read_failure_atomic. Qed.
Print Assumptions C16_read_failure_atomic.

(* Whatever statement of the read fails in the model (getParser, a missing file, the parse, a statement
   after it), the target object and the files are untouched - both classes, both entry points.  The premise
   says that a pdffit entry of a parse result, when present, is a dictionary (what P_pdffit / P_discus build). *)
Theorem C16_read_any_failure_atomic : forall E G c en o fs n x fr',
  (forall p ps sg, e_getparser E (g_format G) = Ok p ->
     parse_of G en fs p = {| po_result := Ok (Some ps); po_sg := sg |} -> pdffit_entry_ok ps = true) ->
  run_read E G c en (frame_of o fs n) = Failed x fr' -> f_self fr' = o /\ f_fs fr' = fs.
Proof. exact read_any_failure_atomic_all. Qed.
Print Assumptions C16_read_any_failure_atomic.

(* If producing the text raises, write fails and no file has changed (nor has the structure). *)
Theorem C16_write_failure_keeps_file : forall E G o fs n,
  (forall p, e_getparser E (g_format G) = Ok p -> forall fn, exists x, ps_tostring p fn o = Raise x) ->
  exists x fr', run_write E G (frame_of o fs n) = Failed x fr' /\ f_fs fr' = fs /\ f_self fr' = o.
Proof. exact write_failure_keeps_file. Qed.
Print Assumptions C16_write_failure_keeps_file.

(* After a successful read every item of the target refers to the target's lattice
   (r = what the parser returned: a structure, or None). *)
Theorem C16_atoms_point_to_target_lattice : forall E G c en o fs n p r sg fr,
  e_getparser E (g_format G) = Ok p ->
  parse_of G en fs p = {| po_result := Ok r; po_sg := sg |} ->
  run_read E G c en (frame_of o fs n) = Done fr ->
  atoms_point_to_lattice (f_self fr).
Proof. exact atoms_point_to_target_lattice. Qed.
Print Assumptions C16_atoms_point_to_target_lattice.

(* After a successful read the observable state (class, atom payloads, title, pdffit, xcfg, lattice cell and
   every attribute the parsed structure carries) equals that of the same read into a brand-new object
   of the same class - whatever the target held before, and whatever the parser returned: a structure, or
   None (P_cif on CIF text without atom sites), for which the statements use an empty Structure()
   (`effective`).  A returned structure is a Structure instance, which always has its lattice in the
   instance dictionary (third premise). *)
Theorem C16_read_success_eq_fresh : forall E G en o fs n id' n' p r sg fr fr',
  e_getparser E (g_format G) = Ok p ->
  parse_of G en fs p = {| po_result := Ok r; po_sg := sg |} ->
  (forall ps, r = Some ps -> In "_lattice" (map fst (p_inst ps))) ->
  run_read E G (o_cls o) en (frame_of o fs n) = Done fr ->
  run_read E G (o_cls o) en (frame_of (fresh E (o_cls o) id') fs n') = Done fr' ->
  observe (observed_names (effective E r)) (f_self fr) = observe (observed_names (effective E r)) (f_self fr').
Proof. exact read_success_eq_fresh. Qed.
Print Assumptions C16_read_success_eq_fresh.

(* ---------------------------------------------------------------------------------------------------
   Heap level.  The statements of read / readStr between the parse and the return, run by the heap
   interpreter HM.hrun_read (Model/C16_Heap.v) over the SAME generated lists on a C08 world: target,
   parser result, their atoms and lattice objects are heap objects; `_lattice` is the lat field of the
   OStruct; `self[:] = new` is the C08 slice assignment (Proofs/C16_HeapC08.v).  HB.hpre s: the world
   satisfies the C08 invariant Inv, the target is a Structure with a lattice, the parser result (if the
   parser returned one) is another Structure object of the same world.  No guard-flag hypothesis. *)
From DS Require Model.C08_StructHeap Model.C16_Heap Proofs.C16_HeapBridge.
Module H := C08_StructHeap.
Module HM := C16_Heap.
Module HB := C16_HeapBridge.

(* every item of the target refers to the target's lattice object, which IS the result's lattice object;
   the result keeps its items, and its atoms keep referring to that lattice *)
Theorem C16_heap_atoms_point_to_target_lattice : forall E G c en s s',
  HB.hpre s -> HM.hrun_read E G c en s = Some s' ->
  exists its L,
    H.get_struct (HM.hs_world s') (HM.hs_self s) = Some (its, L) /\
    (forall a, In a its -> H.lat_of (HM.hs_world s') a = Some L) /\
    HM.new_lat s' = Some L /\ HM.new_items s' = HM.new_items s /\
    ((forall a, In a (HM.new_items s) -> H.lat_of (HM.hs_world s) a = HM.new_lat s) ->
       forall a, In a (HM.new_items s') -> H.lat_of (HM.hs_world s') a = Some L).
Proof. exact HB.heap_atoms_point_to_target_lattice. Qed.
Print Assumptions C16_heap_atoms_point_to_target_lattice.

(* the target's atoms after the read are all newer than every atom that existed before: nothing is shared
   with the parser's result or with the old content (premise: the result holds no atom of the target) *)
Theorem C16_heap_result_atoms_are_copies : forall E G c en s s',
  HB.hpre s -> (forall a, In a (HM.new_items s) -> ~ In a (HM.self_items s)) ->
  HM.hrun_read E G c en s = Some s' ->
  forall x, In x (HM.self_items s') -> (List.length (H.heap (HM.hs_world s)) <= x)%nat.
Proof. exact HB.heap_result_atoms_are_copies. Qed.
Print Assumptions C16_heap_result_atoms_are_copies.

(* two targets with ANY prior contents (in particular one of them brand-new, Proofs/C16_HeapExamples.v)
   that read the same thing (HB.same_result: same payload sequence, cell, instance entries and space group
   of the parser result, or None in both) end with the same payload sequence, the same lattice cell, the
   result's lattice object as their lattice with every item referring to it, and the same title / pdffit /
   xcfg / parsed entries *)
Theorem C16_heap_read_success_eq_fresh : forall E G c en s t s' t',
  HB.hpre s -> HB.hpre t -> HB.same_result s t ->
  HM.hrun_read E G c en s = Some s' -> HM.hrun_read E G c en t = Some t' ->
  HM.self_payloads s' = HM.self_payloads t' /\ HM.self_cell s' = HM.self_cell t' /\
  HM.self_lat s' = HM.new_lat s' /\ HM.self_lat t' = HM.new_lat t' /\ HM.points_b s' = true /\ HM.points_b t' = true /\
  forall a, In a (HB.meta_names (HB.eff_new_meta s)) -> getattr (HM.hs_meta s') a = getattr (HM.hs_meta t') a.
Proof. exact HB.heap_read_success_eq_fresh. Qed.
Print Assumptions C16_heap_read_success_eq_fresh.

(* The abstract transaction model simulates the heap model, statement by statement: with
   abs : heap state -> abstract object (items -> atoms with a_id = heap identity, a_payload = enc of the
   payload tag for ANY enc : pay -> Z, a_lat = code of the lattice reference; instance dictionary =
   `_lattice` built from the OStruct lat field + the non-heap entries) every heap statement between the
   parse and the return commutes with its abstract transformer EXACTLY (no renaming of identities: the
   abstract copy counter is started at the heap's allocation point).
   Partial: the composition over the whole generated list is not stated as one theorem; the slice
   assignment is simulated under the premise that the target's lattice already is the result's lattice
   (true after the dictionary update, i.e. in the generated order). *)
From DS Require Proofs.C16_HeapSim.
Theorem C16_heap_statements_simulated_partial : forall enc, C16_HeapSim.statement_simulation enc.
Proof. exact C16_HeapSim.statements_simulated. Qed.
Print Assumptions C16_heap_statements_simulated_partial.
