(* C16 - loading and saving are all-or-nothing and do not depend on the object's past.
   Statements only; proofs live in Proofs/C16_*.v.  The statement lists structure_read, structure_readstr,
   structure_write, pdffit_read, pdffit_readstr (inside run_read / run_write, Model/C16_Methods.v) are
   regenerated from the current source of structure.py and pdffitstructure.py on every run
   (Gen/C16_RW.v); parsers, serialisers, getParser and the file system are arbitrary functions. *)
From Coq Require Import ZArith List Bool String.
From DS Require Import Model.C16_ReadWriteTxn Gen.C16_RW Model.C16_Methods.
From DS Require Import Proofs.C16_Atomic Proofs.C16_Main Proofs.C16_AnyFailure.
Open Scope string_scope.

(* If the parse call of the entry point raises (or getParser does: then the premise holds vacuously),
   the read fails and the target object and the files are exactly as before - for every prior content,
   source, exception, both entry points (file / string), both classes. *)
Theorem C16_read_failure_atomic : forall E G c en o fs n,
  (forall p, e_getparser E (g_format G) = Ok p -> exists x, po_result (parse_of G en fs p) = Raise x) ->
  exists x fr', run_read E G c en (frame_of o fs n) = Failed x fr' /\ f_self fr' = o /\ f_fs fr' = fs.
Proof. exact read_failure_atomic. Qed.
Print Assumptions C16_read_failure_atomic.

(* Whatever statement of the read fails in the model (getParser, a missing file, the parse, a statement
   after it), the target object and the files are untouched - both classes, both entry points.  The premise
   says that a pdffit entry of a parse result, when present, is a dictionary (what P_pdffit / P_discus build). *)
Theorem C16_read_any_failure_atomic : forall E G c en o fs n x fr',
  (forall p ps sg, e_getparser E (g_format G) = Ok p ->
     parse_of G en fs p = {| po_result := Ok (Some ps); po_sg := sg |} -> pdffit_entry_ok ps = true) ->
  run_read E G c en (frame_of o fs n) = Failed x fr' -> f_self fr' = o /\ f_fs fr' = fs.
Proof. exact read_any_failure_atomic_all. Qed.
Print Assumptions C16_read_any_failure_atomic.

(* If producing the text raises, write fails and no file has changed (nor has the structure). *)
Theorem C16_write_failure_keeps_file : forall E G o fs n,
  (forall p, e_getparser E (g_format G) = Ok p -> forall fn, exists x, ps_tostring p fn o = Raise x) ->
  exists x fr', run_write E G (frame_of o fs n) = Failed x fr' /\ f_fs fr' = fs /\ f_self fr' = o.
Proof. exact write_failure_keeps_file. Qed.
Print Assumptions C16_write_failure_keeps_file.

(* After a successful read every item of the target refers to the target's lattice
   (r = what the parser returned: a structure, or None). *)
Theorem C16_atoms_point_to_target_lattice : forall E G c en o fs n p r sg fr,
  e_getparser E (g_format G) = Ok p ->
  parse_of G en fs p = {| po_result := Ok r; po_sg := sg |} ->
  run_read E G c en (frame_of o fs n) = Done fr ->
  atoms_point_to_lattice (f_self fr).
Proof. exact atoms_point_to_target_lattice. Qed.
Print Assumptions C16_atoms_point_to_target_lattice.

(* After a successful read the observable state (class, atom payloads, title, pdffit, xcfg, lattice cell and
   every attribute the parsed structure carries) equals that of the same read into a brand-new object
   of the same class - whatever the target held before, and whatever the parser returned: a structure, or
   None (P_cif on CIF text without atom sites), for which the statements use an empty Structure()
   (`effective`).  A returned structure is a Structure instance, which always has its lattice in the
   instance dictionary (third premise). *)
Theorem C16_read_success_eq_fresh : forall E G en o fs n id' n' p r sg fr fr',
  e_getparser E (g_format G) = Ok p ->
  parse_of G en fs p = {| po_result := Ok r; po_sg := sg |} ->
  (forall ps, r = Some ps -> In "_lattice" (map fst (p_inst ps))) ->
  run_read E G (o_cls o) en (frame_of o fs n) = Done fr ->
  run_read E G (o_cls o) en (frame_of (fresh E (o_cls o) id') fs n') = Done fr' ->
  observe (observed_names (effective E r)) (f_self fr) = observe (observed_names (effective E r)) (f_self fr').
Proof. exact read_success_eq_fresh. Qed.
Print Assumptions C16_read_success_eq_fresh.
