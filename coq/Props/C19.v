(* C19 - Space-group lookups are correct when first used from several threads at once.
   Statements only; proofs live in Proofs/.  `gen_prog` is regenerated from spacegroups.py on every run.

   Model (Model/C19_Threads.v): any number of threads, each with any list of calls
   (GetSpaceGroup / IsSpaceGroupIdentifier / FindSpaceGroup); one scheduler step = one operation on a
   module-level dictionary; a schedule is any list of thread ids; the data the builders loop over
   (`data`) are arbitrary lists.  `answer p d c` is what call c returns in a single-threaded program
   (lookups on the tables the builders produce when they run alone). *)
From Coq Require Import ZArith List Bool.
From DS Require Import Model.C19_Threads Proofs.C19_Linearizable Gen.C19_LazyTables Proofs.C19_Gen.
Import ListNotations.

(* builders "fill a local dictionary, then one publish", readers test emptiness before use:
   for ALL thread counts, call lists and schedules, the results a thread has obtained so far are
   exactly the sequential answers of the calls it has completed *)
Theorem C19_safe_publish_linearizable : forall p d, safe_shape p = true -> build_ok p d = true ->
  forall css sched i th, nth_error (w_threads (run p d css sched)) i = Some th ->
  exists cs, nth_error css i = Some cs /\
             t_done th = map (answer p d) (firstn (List.length (t_done th)) cs).
Proof. exact linearizable. Qed.
Print Assumptions C19_safe_publish_linearizable.

(* a thread with nothing left to run has returned the sequential answer of every one of its calls *)
Theorem C19_finished_threads_have_all_answers : forall p d, safe_shape p = true -> build_ok p d = true ->
  forall css sched i th, nth_error (w_threads (run p d css sched)) i = Some th -> t_cur th = None ->
  exists cs, nth_error css i = Some cs /\ t_done th = map (answer p d) cs.
Proof. exact finished_all_answers. Qed.
Print Assumptions C19_finished_threads_have_all_answers.

(* the invariant behind it: no schedule ever exposes a half-built table *)
Theorem C19_tables_empty_or_complete : forall p d, safe_shape p = true -> build_ok p d = true ->
  forall css sched g, let s := w_shared (run p d css sched) in
  s g = [] \/ (s g <> [] /\ forall x, find x (s g) = find x (full p d g)).
Proof. exact tables_empty_or_complete. Qed.
Print Assumptions C19_tables_empty_or_complete.

(* the current source has that shape *)
Theorem C19_gen_has_safe_shape : safe_shape gen_prog = true.
Proof. exact gen_safe. Qed.
Print Assumptions C19_gen_has_safe_shape.

Theorem C19_gen_linearizable : forall d css sched i th, build_ok gen_prog d = true ->
  nth_error (w_threads (run gen_prog d css sched)) i = Some th ->
  exists cs, nth_error css i = Some cs /\
             t_done th = map (answer gen_prog d) (firstn (List.length (t_done th)) cs).
Proof. exact gen_linearizable. Qed.
Print Assumptions C19_gen_linearizable.

(* the hypotheses are satisfiable by a non-trivial instance *)
Theorem C19_hypotheses_satisfiable : safe_shape publish_prog = true /\ build_ok publish_prog tiny_data = true
  /\ build_ok gen_prog tiny_data = true.
Proof. exact (conj publish_prog_safe (conj tiny_build_ok gen_tiny_build_ok)). Qed.

(* the in-place fill (the shape of the code before the repair): a 2-thread schedule in which the
   builder is pre-empted after its first insertion makes a valid lookup fail *)
Theorem C19_inplace_fill_refuted : exists d css sched i r c,
  build_ok publish_prog d = true /\
  nth_error (results (run inplace_prog d css sched)) i = Some [r] /\
  nth_error css i = Some [c] /\ r <> answer inplace_prog d c.
Proof. exact inplace_fill_refuted_lemma. Qed.
Print Assumptions C19_inplace_fill_refuted.
