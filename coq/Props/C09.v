(* C09 - An atom's displacement parameters stay coherent under any assignment history.
   Statements only; proofs in Proofs/C09_*.v.  The accessor bodies (`step`, `rd_*`, `get_Un`, `get_Bn`, `msd*`) are the
   translation of the CURRENT atom.py (Gen/C09_AtomFormulas.v, regenerated on every run).
   `RC eps` = real arithmetic, PI, sqrt, and the unit cubic cell (tolerance eps) standing in for `lattice is None`.
   `reach eps s`: s is the state after ANY finite sequence of operations (flag, full tensor, Uij, Bij, Uisoequiv,
   Bisoequiv, lattice assignments, and the storage-rewriting reads) whose full-tensor arguments are symmetric and whose
   lattices satisfy `lat_ok` (the relations lattice.py establishes; checked numerically on live lattices every run),
   started from any state satisfying the invariant - in particular from Atom(). *)
From Coq Require Import Reals List Bool.
From DS Require Import Base.RMat Base.C09_GNum Model.C09_Prims Gen.C09_AtomFormulas Model.C09_AtomADP
  Proofs.C09_Algebra Proofs.C09_Machine Proofs.C09_Main Proofs.C09_Ctor Model.C09_Alias Proofs.C09_Alias.
Import ListNotations.
Open Scope R_scope.

(* the tensor that can be read is symmetric *)
Theorem C09_u_symmetric : forall eps, 0 < eps -> forall s, reach eps s -> gsym (rd_U (RC eps) s).
Proof. exact h_u_symmetric. Qed.
Print Assumptions C09_u_symmetric.

(* flag off: tensor = isotropic value x unit isotropic tensor of the lattice in force *)
Theorem C09_iso_tensor_is_value_times_unit : forall eps s, reach eps s -> rd_aniso (RC eps) s = false ->
  rd_U (RC eps) s = gmscale ROps (rd_Uiso (RC eps) s) (iso_of eps s).
Proof. exact h_iso_tensor. Qed.
Print Assumptions C09_iso_tensor_is_value_times_unit.

(* every B quantity is 8 pi^2 times the U quantity (6 components and the equivalent value), and the Uij read the tensor *)
Theorem C09_B_is_8pi2_U : forall eps s, reach eps s ->
  (forall n, get_Bn (RC eps) n s = 8 * (PI * PI) * get_Un (RC eps) n s) /\
  rd_Biso (RC eps) s = 8 * (PI * PI) * rd_Uiso (RC eps) s /\
  (forall n, get_Un (RC eps) n s = mget (rd_U (RC eps) s) (name_i n) (name_j n)).
Proof. exact h_B_is_8pi2_U. Qed.
Print Assumptions C09_B_is_8pi2_U.

(* Uisoequiv = trace(N^T U N) / 3 with N = normbase of the lattice in force: one third of the trace in Cartesian axes *)
Theorem C09_uisoequiv_is_third_trace_cart : forall eps, 0 < eps -> forall s, reach eps s ->
  rd_Uiso (RC eps) s = mtrace (mmul (mT (N_of eps s)) (mmul (toM (rd_U (RC eps) s)) (N_of eps s))) / 3.
Proof. exact h_uiso_third_trace. Qed.
Print Assumptions C09_uisoequiv_is_third_trace_cart.

(* switching the flag to the other value and back preserves Uisoequiv (and the flag); in fact any flag assignment does *)
Theorem C09_flag_off_on_keeps_uiso : forall eps, 0 < eps -> forall s, reach eps s ->
  let s' := step (RC eps) (step (RC eps) s (OSetAniso (negb (rd_aniso (RC eps) s)))) (OSetAniso (rd_aniso (RC eps) s)) in
  rd_Uiso (RC eps) s' = rd_Uiso (RC eps) s /\ rd_aniso (RC eps) s' = rd_aniso (RC eps) s.
Proof. exact h_flag_off_on. Qed.
Print Assumptions C09_flag_off_on_keeps_uiso.
Theorem C09_any_flag_assignment_keeps_uiso : forall eps, 0 < eps -> forall s b, reach eps s ->
  rd_Uiso (RC eps) (step (RC eps) s (OSetAniso b)) = rd_Uiso (RC eps) s.
Proof. exact h_flag_switch_keeps_uiso. Qed.
Print Assumptions C09_any_flag_assignment_keeps_uiso.

(* what is assigned is what is read back, per setter and mode (both branches of the |uequiv| < eps test included) *)
Theorem C09_set_get_laws : forall eps, 0 < eps -> forall s, reach eps s ->
  (forall b, rd_aniso (RC eps) (step (RC eps) s (OSetAniso b)) = b) /\
  (forall m, rd_U (RC eps) (step (RC eps) s (OSetU m)) = if rd_aniso (RC eps) s then m else gmscale ROps (mget m i0 i0) (iso_of eps s)) /\
  (forall n v, rd_aniso (RC eps) s = true ->
     get_Un (RC eps) n (step (RC eps) s (OSetUij n v)) = v /\ get_Bn (RC eps) n (step (RC eps) s (OSetBij n v)) = v) /\
  (forall n v, rd_aniso (RC eps) s = false -> name_diag n = true -> rd_Uiso (RC eps) (step (RC eps) s (OSetUij n v)) = v) /\
  (forall n v, rd_aniso (RC eps) s = false -> name_diag n = false -> observe (RC eps) (step (RC eps) s (OSetUij n v)) = observe (RC eps) s) /\
  (forall v, rd_Uiso (RC eps) (step (RC eps) s (OSetUiso v)) = v) /\
  (forall v, rd_Biso (RC eps) (step (RC eps) s (OSetBiso v)) = v).
Proof. exact h_set_get. Qed.
Print Assumptions C09_set_get_laws.

(* mean-square displacement along v given in lattice coordinates = along v.base given in Cartesian coordinates
   (both sides normalise by the same length; for v = 0 the Python code yields nan on both sides);
   flag off: both equal Uisoequiv for every direction; asking for msdLat never changes the atom *)
Theorem C09_msd_lat_eq_cart : forall eps, 0 < eps -> forall s v, reach eps s ->
  rd_msdLat (RC eps) s v = rd_msdCart (RC eps) s (Lattice_cartesian (RC eps) (the_lat (RC eps) s) v) /\
  (rd_aniso (RC eps) s = false -> forall w, rd_msdLat (RC eps) s w = rd_Uiso (RC eps) s /\ rd_msdCart (RC eps) s w = rd_Uiso (RC eps) s) /\
  step (RC eps) s (OMsdLat v) = s.
Proof. exact h_msd. Qed.
Print Assumptions C09_msd_lat_eq_cart.

(* flag on with a tensor that is u times the unit tensor: displacement u along every (non-zero) Cartesian direction *)
Theorem C09_msd_isotropic_tensor : forall eps, 0 < eps -> forall s u vc, inv s -> st_aniso s = true ->
  st_U s = gmscale ROps u (iso_of eps s) -> gvsum ROps (gvsq ROps vc) <> 0 -> rd_msdCart (RC eps) s vc = u.
Proof. exact msd_cart_isotropic_tensor. Qed.
Print Assumptions C09_msd_isotropic_tensor.

(* order dependence: storage written while it is not meaningful (e.g. U12 = x while the flag is off, stale
   off-diagonal elements after switching the flag off) can never be observed later, whatever follows *)
Theorem C09_stale_storage_harmless : forall eps s s' ops, obs_eq s s' ->
  observe (RC eps) (run (RC eps) s ops) = observe (RC eps) (run (RC eps) s' ops) /\
  forall v, rd_msdLat (RC eps) (run (RC eps) s ops) v = rd_msdLat (RC eps) (run (RC eps) s' ops) v /\
            rd_msdCart (RC eps) (run (RC eps) s ops) v = rd_msdCart (RC eps) (run (RC eps) s' ops) v.
Proof. exact h_stale_storage_harmless. Qed.
Print Assumptions C09_stale_storage_harmless.

(* The constructor.  `init_Atom` is the translation of the CURRENT Atom.__init__ (its argument blocks in source order,
   Atom(a) / __copy__ included); `ctor_spec` is the documented behaviour: ValueError (None) when both U and Uisoequiv are
   given, otherwise the new atom - or the copy of the Atom given as atype - receives the assignments
   U (flag on, tensor), Uisoequiv (flag off, value), lattice, and LAST the explicit anisotropy flag.
   Holds for every number type (reals, floats): it is a statement about the order of the blocks. *)
Theorem C09_constructor_is_documented_sequence : forall (T : Type) (C : cctx T) atype anisotropy U Uisoequiv lattice,
  init_Atom C atype anisotropy U Uisoequiv lattice = ctor_spec C atype anisotropy U Uisoequiv lattice.
Proof. exact @init_is_documented_sequence. Qed.
Print Assumptions C09_constructor_is_documented_sequence.

(* hence every constructed atom (symmetric U, lat_ok lattice, reachable source atom) is a reachable state: all clauses
   above hold for it, in particular the flag argument preserves the equivalent isotropic value in the atom's lattice;
   and copying is the identity on the displacement state *)
Theorem C09_constructed_atoms_are_reachable : forall eps atype anisotropy U Uisoequiv lattice s,
  ctor_args_ok eps atype U lattice -> init_Atom (RC eps) atype anisotropy U Uisoequiv lattice = Some s -> reach eps s.
Proof. exact constructed_reachable. Qed.
Print Assumptions C09_constructed_atoms_are_reachable.
Theorem C09_copy_is_identity : forall (T : Type) (C : cctx T) (s : astate T), step C s OCopy = s.
Proof. exact @copy_is_identity. Qed.
Print Assumptions C09_copy_is_identity.

(* Aliasing.  A heap of atoms, each with the identity of its `_U` array and of its `xyz` array; events: a call of an accessor
   on one atom, a construction, a copy (__copy__ / copy.copy / Atom(a)), each executing rebinding statements.  `source_events`
   are the rebinding statements of the CURRENT atom.py with the kind of object they install (Gen c09_alias_table: new array,
   own array, caller's array, the copied atom's array); in-place writes bind nothing.  For every history made of those
   statements - whatever arrays the caller passes in - no two atoms ever share a tensor or coordinate array. *)
Theorem C09_no_aliasing : forall evs h, wf h ->
  Forall (fun ev => Forall (fun e => In e source_events) (evs_of ev)) evs -> wf (hrun h evs).
Proof. exact no_aliasing. Qed.
Print Assumptions C09_no_aliasing.
Theorem C09_source_rebindings_are_fresh_or_own : forallb safe source_events = true.
Proof. exact source_events_safe. Qed.
Print Assumptions C09_source_rebindings_are_fresh_or_own.
(* not vacuous: one statement binding an array of the caller (e.g. `self._U = value`) can make two atoms share it *)
Theorem C09_param_binding_would_alias : exists h ev, wf h /\ ~ wf (hstep h ev).
Proof. exact param_binding_aliases. Qed.
Print Assumptions C09_param_binding_would_alias.

(* the hypotheses are inhabited: Atom() is reachable, Lattice._epsilon of the source is positive, the unit cell and an
   oblique cell (gamma = 60 degrees) satisfy lat_ok, and a history on the oblique cell reaches an anisotropic state *)
Theorem C09_hypotheses_satisfiable :
  (forall eps, reach eps (init (RC eps))) /\ 0 < c_lat_epsilon (RC 1) /\ (forall eps, 0 < eps -> lat_ok (cart_lat ROps eps)) /\
  (exists s, reach 1 s /\ st_aniso s = true /\ st_lat s = Some (ex_lat (sqrt 3 / 2)) /\ mget (st_U s) i0 i1 <> 0).
Proof. exact (conj reach_init (conj epsilon_generated_positive (conj cart_lat_ok example_history))). Qed.
Print Assumptions C09_hypotheses_satisfiable.
