(* C11 - "... whether taken from the tables or parsed from their x,y,z text form ... all textual renderings of
   operations": theorems about Model/C11_SymText.get_symop, the executable model of p_cif.getSymOp that the check
   compares with the implementation on every run (exhaustive short strings, grammar renderings, single-character
   faults).  The grammar (`rowspec`): any non-empty list of signed axis letters in either case, a translation that is
   absent, a fraction n/d of unbounded numerals or a decimal ip.fp with either side possibly empty, written before
   or after the letters, with or without the leading plus sign; blanks anywhere. *)
From Coq Require Import List Ascii NArith ZArith QArith.
From DS Require Import Base.C04_Text Base.C04_Decimal Model.C11_SymText Proofs.C11_SymText.
Import ListNotations.

(* every rendering of the grammar is read back as the operation it denotes: rotation rows exactly,
   translations as exact rationals modulo 1 *)
Theorem C11_symop_text_roundtrip : forall r1 r2 r3, row_ok r1 -> row_ok r2 -> row_ok r3 ->
  exists q1 q2 q3, get_symop (render_op r1 r2 r3) = Ok [(R_of r1, q1); (R_of r2, q2); (R_of r3, q3)]
    /\ q1 == mod1 (t_val (r_t r1)) /\ q2 == mod1 (t_val (r_t r2)) /\ q3 == mod1 (t_val (r_t r3)).
Proof. exact symop_text_roundtrip. Qed.
Print Assumptions C11_symop_text_roundtrip.

(* the operations of the tables (coefficients -1,0,1, not all zero in a row; translations k/12): each of the
   2x2x2 spellings per row is read back as exactly that operation *)
Theorem C11_table_operation_text_roundtrip : forall f1 f2 f3 cs1 cs2 cs3 k1 k2 k3,
  In cs1 coefs -> In cs2 coefs -> In cs3 coefs -> nonzero_row cs1 = true -> nonzero_row cs2 = true -> nonzero_row cs3 = true ->
  (k1 < 12)%N -> (k2 < 12)%N -> (k3 < 12)%N ->
  let row f cs k := table_row (fst (fst f)) (snd (fst f)) (snd f) cs k in
  exists q1 q2 q3, get_symop (render_op (row f1 cs1 k1) (row f2 cs2 k2) (row f3 cs3 k3)) = Ok [(cs1, q1); (cs2, q2); (cs3, q3)]
    /\ q1 == Z.of_N k1 # 12 /\ q2 == Z.of_N k2 # 12 /\ q3 == Z.of_N k3 # 12.
Proof. exact table_op_roundtrip. Qed.
Print Assumptions C11_table_operation_text_roundtrip.

(* blanks never matter *)
Theorem C11_symop_text_blanks : forall s s', remove_sp s = remove_sp s' -> get_symop s = get_symop s'.
Proof. exact get_symop_blanks. Qed.

(* whatever is accepted consists, in each of its three fields, of digits . / + - e E and the letters x y z only
   (C17: anything else in the place of a number is an error, here ErrValue = ValueError) *)
Theorem C11_symop_text_accepts_numbers_only : forall s l, get_symop s = Ok l ->
  Forall (fun f => forallb rowcharb f = true) (firstn 3 (split_comma (remove_sp s))).
Proof. exact accepted_is_numeric. Qed.
Print Assumptions C11_symop_text_accepts_numbers_only.

(* a translation part that is accepted is a string over digits . / + - e E *)
Theorem C11_translation_part_numeric : forall s q, parse_tpart s = Some q -> forallb tcharb s = true.
Proof. exact parse_tpart_chars. Qed.
