(* C13 - tie of the xcfg parser model to the current source of p_xcfg.py (regenerated into Gen/C13_ExcSpec.v on every run). *)
From Coq Require Import List String Bool.
From DS Require Import Base.C13_Exn Gen.C13_ExcSpec Model.C13_Sites Model.C13_Callees.
Import ListNotations.

(* the raising-site layout (statement classes that can raise, with their enclosing try blocks) is the one the model accounts for *)
Theorem C13_sites_xcfg : xcfg_sites = xcfg_sites_expected.
Proof. exact eq_refl. Qed.

(* the tests of every if/while that stands outside a try (all that protects the unguarded sites behind it) or that compares
   with None, locals renamed canonically, are the ones the model implements *)
Theorem C13_guards_xcfg : xcfg_guards = xcfg_guards_expected.
Proof. exact eq_refl. Qed.

(* every explicit raise of the library modules reachable by name from a call of this parser is caught by an enclosing except
   clause, is a documented kind, or is exempted with a reason in Model/C13_Callees.v *)
Theorem C13_callees_xcfg : forallb (callee_covered "xcfg") xcfg_callee_raises = true.
Proof. vm_compute. reflexivity. Qed.
