(* C04 - the format descriptors extracted from the CURRENT parsers/p_*.py (Gen/C04_FmtSpecs.v) are the pinned ones
   (Model/C04_Pinned.v): widths, precisions, literals, slices.  The round-trip theorems of Props/C04.v hold for
   whatever the source prints; this obligation is what makes a changed width/precision visible. *)
From Coq Require Import List String.
From DS Require Import Base.C04_Text Model.C04_Fmt Gen.C04_FmtSpecs Model.C04_Pinned Proofs.C04_PinnedOk.

Theorem C04_formats_pinned : all_specs = pinned_specs /\ all_lits = pinned_lits /\ all_nats = pinned_nats.
Proof. exact formats_pinned. Qed.
Print Assumptions C04_formats_pinned.
