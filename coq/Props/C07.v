(* C07 - Reading a CIF yields the full cell, independent of how the CIF says it.
   Statements only; proofs in Proofs/C07_*.v.  The model (Model/C07_CifRead.v) composes
     - the text readers Model/C07_Text.v (leading_float) and Model/C07_SymopText.v (getSymOp),
     - Gen/C07_CifSpec.v      : _atom_setters, every _tr_* translator, BtoU        (regenerated from p_cif.py each run),
     - Gen/C09_AtomFormulas.v : the Atom ADP accessors                               (regenerated from atom.py),
     - Gen/SGTables*.v, Gen/LookupSpec.v : the tables and GetSpaceGroup             (regenerated from spacegroups*.py),
     - Model/C11_LookupDefs.v (FindSpaceGroup), Model/C02_Orbit.v (exact orbit on the grid Z/D).
   Numbers are of an abstract type T (theorems over all T, or over R where arithmetic laws are used). *)
From Coq Require Import ZArith List Bool QArith Ascii String Reals Permutation.
From DS Require Import Base.ZMat Base.SGDefs Base.C09_GNum Model.GroupCheck Model.C02_Orbit.
From DS Require Import Model.C09_Prims Gen.C09_AtomFormulas Model.C09_AtomADP Model.C11_LookupDefs Model.C11_Checks Gen.SGTables Gen.LookupSpec.
From DS Require Import Proofs.C09_Machine.
From DS Require Import Model.C07_Text Model.C07_SymopText Model.C07_SpecDefs Gen.C07_CifSpec Model.C07_CifRead Model.C07_Pre.
From DS Require Import Proofs.C07_Text Proofs.C07_Roundtrip Proofs.C07_Union Proofs.C07_Labels Proofs.C07_Equiv Proofs.C07_Columns
  Proofs.C07_SG Proofs.C07_Witness.
Import ListNotations.

(* ---- operator text -------------------------------------------------------------------------------------------- *)
(* every operation of every tabulated setting, written in each of the nine spellings of all_styles (terms first /
   translation first, reduced fraction / twelfths / 6- or 5-digit decimal / negative translation, leading plus,
   reversed variable order, upper case with blanks), is read back by the model of getSymOp as that operation *)
Theorem C07_symop_text_roundtrip : forall s o st, In s all_settings -> In o (sg_ops s) -> In st all_styles ->
  parse_symop (render st o) = Some o.
Proof. exact symop_text_roundtrip. Qed.
Print Assumptions C07_symop_text_roundtrip.

(* ---- numbers with a standard uncertainty ----------------------------------------------------------------------- *)
(* is_numeric s : the whole of s matches rx_float.  Any parenthesised suffix leaves the value unchanged. *)
Theorem C07_leading_float_esd : forall s d, is_numeric s = true ->
  leading_float (s ++ "(" ++ d ++ ")") = leading_float s.
Proof. exact leading_float_esd_any. Qed.
Print Assumptions C07_leading_float_esd.

(* ---- the structure is the union of the orbits ------------------------------------------------------------------- *)
(* Proofs/C07_Union.site_spec G (a, u) blk : blk has as many atoms as C02's exact expansion of the site has positions,
   lists exactly those positions in that order, every atom has the parent's element, occupancy and anisotropy flag,
   the first one the parent's label, and - for an anisotropic parent - the tensor R u R^T with R the rotation of the
   first operation generating its position (u = the parent's tensor), else the parent's isotropic tensor. *)
Theorem C07_cif_is_union_of_orbits : forall (T : Type) (E : env (T:=T)) find Tb b r, read_cif E find Tb b = Ok r ->
  exists blocks, r_atoms r = List.concat blocks /\ Forall2 (site_spec E (r_group r)) (r_parents r) blocks /\
                 List.length (r_atoms r) = list_sum (map (mult_of E (r_group r)) (r_parents r)).
Proof. exact @cif_is_union_of_orbits. Qed.
Print Assumptions C07_cif_is_union_of_orbits.

(* ... and each block is the orbit: for operations that form a group modulo lattice translations (C03: every tabulated
   setting) the positions are pairwise distinct, inside the cell, begin with the site itself, are exactly the images of
   the site under the operations, and multiplicity x |site symmetry| = |G|  (orbit_spec; C02's theorem) *)
Theorem C07_cif_orbits_exact : forall (T : Type) (E : env (T:=T)) find Tb b r, read_cif E find Tb b = Ok r ->
  IsGroup (r_group r) -> (0 < D E)%Z -> (12 | D E)%Z ->
  exists blocks, r_atoms r = List.concat blocks /\
                 Forall2 (fun au blk => site_spec E (r_group r) au blk /\ orbit_spec E (r_group r) au blk) (r_parents r) blocks.
Proof. exact @cif_orbits_exact. Qed.
Print Assumptions C07_cif_orbits_exact.

(* ---- labels ------------------------------------------------------------------------------------------------------ *)
(* clash_free LSPlain G ps : no site label equals the image label L_k (2 <= k <= multiplicity) of a site labelled L;
   clash_free LSFresh       : True.   the_label_scheme is read off _expandAsymmetricUnit by the translator. *)
Theorem C07_labels_unique : forall (T : Type) (E : env (T:=T)) find Tb b r, read_cif E find Tb b = Ok r ->
  NoDup (map (fun au => a_label (fst au)) (r_parents r)) -> clash_free E the_label_scheme (r_group r) (r_parents r) ->
  NoDup (map o_label (r_atoms r)).
Proof. exact @labels_unique. Qed.
Print Assumptions C07_labels_unique.

(* the hypothesis of the plain scheme is needed: sites C1 and C1_2 in P-1 give two atoms called C1_2;
   with the skipping scheme the same input gives distinct labels *)
Theorem C07_labels_plain_refuted_without_hypothesis :
  labels_of_scheme LSPlain = ["C1"; "C1_2"; "C1_2"; "C1_2_2"]%string /\ ~ NoDup (labels_of_scheme LSPlain).
Proof. exact plain_labels_clash. Qed.
Theorem C07_labels_fresh_example :
  labels_of_scheme LSFresh = ["C1"; "C1_3"; "C1_2"; "C1_2_2"]%string /\ NoDup (labels_of_scheme LSFresh).
Proof. exact fresh_labels_distinct. Qed.

(* ---- B versus U --------------------------------------------------------------------------------------------------- *)
(* as_B_loop k : every U column (isotropic and the six components) becomes the B column holding k times its values.
   For any k with BtoU * k = 1 (k = 8 pi^2) the reader returns the same result. *)
Theorem C07_B_vs_U : forall (E : env (T:=R)), cO (e_C E) = ROps -> forall k : R, (cif_BtoU ROps (cpi (e_C E)) * k = 1)%R ->
  forall find Tb cell site aniso b,
  read_typed E find Tb cell (as_B_loop k site) (option_map (as_B_loop k) aniso) b = read_typed E find Tb cell site aniso b.
Proof. exact B_vs_U. Qed.
Print Assumptions C07_B_vs_U.

(* ---- standard-uncertainty suffixes ------------------------------------------------------------------------------- *)
(* block_rel b b' : b' is b with "(d)" appended to any of its numeric values in numeric columns / cell items *)
Theorem C07_esd_suffix : forall (T : Type) (E : env (T:=T)) find Tb b b', block_rel b b' ->
  read_cif E find Tb b' = read_cif E find Tb b.
Proof. exact @esd_suffix. Qed.
Print Assumptions C07_esd_suffix.

(* ---- column order -------------------------------------------------------------------------------------------------- *)
(* Over the reals, for a lattice with cartesian(fractional c) = c and positive tolerance.
   site_ok_so so r : the targets of the row's translators are pairwise distinct (ignored columns apart), no anisotropic
                component column, type symbols give a non-empty element, and - unless so = SOTypeFirstCartnLast, i.e. unless the
                Cartesian translators are applied last - not both fractional and Cartesian columns;
                the_setter_order is read off _parse_atom_site_label by the translator;
   aniso_ok r : the same but instead of "no component column": no isotropic-value and no adp-type column;
   always_cond: every row of the aniso loop meets an atom whose anisotropy flag is on once settled (it is, unless the
                site loop declared that atom Uiso).
   Then any permutation of the columns of the site loop and of the aniso loop gives the same result. *)
Theorem C07_column_order : forall (eps : R) (lat : latdata R) (recbase : gmat R) (Dz : Z) (grid : R -> Z) (dcv : dec -> R),
  (0 < l_epsilon lat)%R ->
  (forall c, cartesian (Env (RC eps) lat recbase Dz grid dcv) (fractional (Env (RC eps) lat recbase Dz grid dcv) c) = c) ->
  forall find Tb cell n cols cols' m acols acols' b,
  Permutation cols cols' -> NoDup (map (tc_name (T:=R)) cols) -> (forall i, (i < n)%nat -> site_ok_so the_setter_order (row_of cols i)) ->
  Permutation acols acols' -> NoDup (map (tc_name (T:=R)) acols) -> (forall i, (i < m)%nat -> aniso_ok (row_of acols i)) ->
  (forall st0 lc, read_site_loop (Env (RC eps) lat recbase Dz grid dcv) (TLoop n cols) = Ok st0 ->
                  label_col "_atom_site_aniso_label" acols = Some lc -> always_cond eps lat recbase Dz grid dcv m acols lc st0) ->
  read_typed (Env (RC eps) lat recbase Dz grid dcv) find Tb cell (TLoop n cols') (Some (TLoop m acols')) b =
  read_typed (Env (RC eps) lat recbase Dz grid dcv) find Tb cell (TLoop n cols) (Some (TLoop m acols)) b.
Proof. exact column_order. Qed.
Print Assumptions C07_column_order.

(* one row, any starting atom for the aniso loop *)
Theorem C07_site_row_order : forall (eps : R) (lat : latdata R) (recbase : gmat R) (Dz : Z) (grid : R -> Z) (dcv : dec -> R),
  (0 < l_epsilon lat)%R ->
  (forall c, cartesian (Env (RC eps) lat recbase Dz grid dcv) (fractional (Env (RC eps) lat recbase Dz grid dcv) c) = c) ->
  forall so r r', Permutation r r' -> site_ok_so so r ->
  run_row (Env (RC eps) lat recbase Dz grid dcv) (init_atom (Env (RC eps) lat recbase Dz grid dcv)) (order_row so r') =
  run_row (Env (RC eps) lat recbase Dz grid dcv) (init_atom (Env (RC eps) lat recbase Dz grid dcv)) (order_row so r).
Proof. exact site_row_order_so. Qed.
Theorem C07_aniso_row_order : forall (eps : R) (lat : latdata R) (recbase : gmat R) (Dz : Z) (grid : R -> Z) (dcv : dec -> R),
  (forall c, cartesian (Env (RC eps) lat recbase Dz grid dcv) (fractional (Env (RC eps) lat recbase Dz grid dcv) c) = c) ->
  forall a r r', Permutation r r' -> aniso_ok r -> st_aniso (a_adp a) = true ->
  run_row (Env (RC eps) lat recbase Dz grid dcv) a r' = run_row (Env (RC eps) lat recbase Dz grid dcv) a r.
Proof. exact aniso_row_order. Qed.

(* exact-rational runs of the model for the three orders in which the translators of a row can be applied (the finder
   replays the same CIFs on the code):  (a) one merged loop with the adp type after the anisotropic components loses the
   tensor when translators run in column order, not when the type is applied first;  (b) fractional and Cartesian
   coordinates of the same point interleaved in an oblique cell move the atom unless the Cartesian ones are applied last *)
Theorem C07_column_order_refuted_outside_conditions : forall so : setter_order,
  (Permutation merged_type_first merged_type_last /\
   qlist_eqb (Urow E_cube (order_row so merged_type_first)) (Urow E_cube (order_row so merged_type_last)) =
   match so with SOColumn => false | _ => true end) /\
  (qlist_eqb (Xrow E_obl (order_row so both_blocked)) [1 # 10; 1 # 5; 3 # 10]%Q = true /\
   qlist_eqb (Xrow E_obl (order_row so both_interleaved)) [1 # 10; 1 # 5; 3 # 10]%Q =
   match so with SOTypeFirstCartnLast => true | _ => false end).
Proof. exact (fun so => conj (merged_loop_order_matters so) (fract_cartn_order_matters so)). Qed.

(* ---- fractional versus Cartesian coordinates (one row) ------------------------------------------------------------ *)
Theorem C07_fract_vs_cartn : forall (eps : R) (lat : latdata R) (recbase : gmat R) (Dz : Z) (grid : R -> Z) (dcv : dec -> R),
  (forall c, cartesian (Env (RC eps) lat recbase Dz grid dcv) (fractional (Env (RC eps) lat recbase Dz grid dcv) c) = c) ->
  forall p x, fractional (Env (RC eps) lat recbase Dz grid dcv) (cartesian (Env (RC eps) lat recbase Dz grid dcv) p) = p ->
  fold_left (xyz_step eps lat recbase Dz grid dcv) (cartn_cols (cartesian (Env (RC eps) lat recbase Dz grid dcv) p)) x = p /\
  fold_left (xyz_step eps lat recbase Dz grid dcv) (fract_cols p) x = p.
Proof. exact fract_vs_cartn. Qed.
Print Assumptions C07_fract_vs_cartn.

(* ... and for whole files: a site loop whose last three columns are the fractional coordinates of the points ps reads
   like the same loop with instead the three Cartesian columns holding cartesian(p) (fract3 / cartn3; the other columns O
   are arbitrary apart from holding no Cartesian column; C07_column_order moves the three columns anywhere) *)
Theorem C07_fract_vs_cartn_file : forall (eps : R) (lat : latdata R) (recbase : gmat R) (Dz : Z) (grid : R -> Z) (dcv : dec -> R),
  (forall c, cartesian (Env (RC eps) lat recbase Dz grid dcv) (fractional (Env (RC eps) lat recbase Dz grid dcv) c) = c) ->
  forall find Tb cell n (O : list (tcol (T:=R))) nx ny nz ps aniso b,
  (forall p, fractional (Env (RC eps) lat recbase Dz grid dcv) (cartesian (Env (RC eps) lat recbase Dz grid dcv) p) = p) ->
  no_cartn_cols O ->
  read_typed (Env (RC eps) lat recbase Dz grid dcv) find Tb cell (TLoop n (O ++ cartn3 eps lat recbase Dz grid dcv nx ny nz ps)) aniso b =
  read_typed (Env (RC eps) lat recbase Dz grid dcv) find Tb cell (TLoop n (O ++ fract3 nx ny nz ps)) aniso b.
Proof. exact fract_vs_cartn_file. Qed.
Print Assumptions C07_fract_vs_cartn_file.

(* ---- operators versus number versus symbol ------------------------------------------------------------------------- *)
(* for every tabulated setting s and every spelling st: a block giving the operator list and a block giving instead the
   table number, or a short/full Hermann-Mauguin symbol that only this setting carries (name_unique), with the same
   cell and loops, read to the same atoms, both expanded with the operations of s *)
Theorem C07_ops_vs_name_vs_number : forall (T : Type) (E : env (T:=T)) s st b_ops b_id,
  In s all_settings -> In st all_styles -> same_data b_ops b_id ->
  op_texts b_ops = map (render st) (sg_ops s) -> op_texts b_id = [] ->
  (sg_identifier b_id = py_str_of_Z (sg_number s) \/
   (sg_identifier b_id <> EmptyString /\ name_unique (sg_identifier b_id) = true /\
    (sg_identifier b_id = sg_short s \/ sg_identifier b_id = sg_pdb s))) ->
  match read_cif E (find_space_group all_settings) Tb_fast b_ops, read_cif E (find_space_group all_settings) Tb_fast b_id with
  | Ok r, Ok r' => r_atoms r' = r_atoms r /\ r_group r' = sg_ops s /\ r_group r = sg_ops s /\ r_parents r' = r_parents r /\ r_cell r' = r_cell r
  | Err e, Err e' => e = e'
  | _, _ => False
  end.
Proof. exact @ops_vs_name_vs_number. Qed.
Print Assumptions C07_ops_vs_name_vs_number.

(* Tb_fast is the table GetSpaceGroup's builder produces; more than 400 settings own their short / full symbol *)
Theorem C07_tables_are_the_lookup_tables : the_table = Some Tb_fast /\ (forall ops, find_fast ops = find_space_group all_settings ops) /\
  (400 <=? List.length (filter (fun s => name_unique (sg_short s)) all_settings))%nat = true /\
  (400 <=? List.length (filter (fun s => name_unique (sg_pdb s)) all_settings))%nat = true.
Proof. exact (conj Tb_fast_eq (conj find_fast_eq unique_names_count)). Qed.
