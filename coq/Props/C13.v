(* C13 - Parsers reject bad input only with the documented format error.
   This file: the tie of the models to the current source - the raising-site layout regenerated from /repo
   (Gen/C13_ExcSpec.v) is the one the models account for (Model/C13_Sites.v).  The property itself is stated per format in
   Props/C13_Xyz.v, C13_Pdffit.v, C13_Discus.v, C13_Xcfg.v, C13_Pdb.v, C13_Cif.v (each depends only on its own model and
   proof, so a change in one parser does not disturb the others) and the satisfiability instances in Props/C13_Examples.v.

   Each `only_documented_<fmt>` says: for EVERY list of lines (every string, for cif), whatever the tokeniser and the number /
   geometry primitives answer within their declared exception kinds, the model of parseLines returns a value or raises
   StructureFormatError / NotImplementedError - nothing else.  The except clauses are those of Gen/C13_ExcSpec.v. *)
From Coq Require Import List String.
From DS Require Import Base.C13_Exn Gen.C13_ExcSpec Model.C13_Sites.
Import ListNotations.

Theorem C13_sites_xyz : xyz_sites = xyz_sites_expected.
Proof. exact eq_refl. Qed.
Theorem C13_sites_rawxyz : rawxyz_sites = rawxyz_sites_expected.
Proof. exact eq_refl. Qed.
Theorem C13_sites_pdffit : pdffit_sites = pdffit_sites_expected.
Proof. exact eq_refl. Qed.
Theorem C13_sites_discus : discus_sites = discus_sites_expected.
Proof. exact eq_refl. Qed.
Theorem C13_sites_pdb : pdb_sites = pdb_sites_expected.
Proof. exact eq_refl. Qed.
Theorem C13_sites_xcfg : xcfg_sites = xcfg_sites_expected.
Proof. exact eq_refl. Qed.
Theorem C13_sites_cif : cif_sites = cif_sites_expected.
Proof. exact eq_refl. Qed.

