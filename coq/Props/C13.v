(* C13 - Parsers reject bad input only with the documented format error.
   Statements only; proofs live in Proofs/C13_*.v.  The except clauses (caught tuples, handler classes) and the layout of
   raising sites are regenerated from /repo on every run into Gen/C13_ExcSpec.v; the models take the clauses from there.

   Each `only_documented_<fmt>` says: for EVERY list of lines (every string, for cif), whatever the tokeniser and the number /
   geometry primitives answer within their declared exception kinds, the model of parseLines returns a value or raises
   StructureFormatError / NotImplementedError - nothing else. *)
From Coq Require Import List Bool Arith ZArith.
From DS Require Import Base.C13_Exn Gen.C13_ExcSpec Model.C13_Common Model.C13_Sites
                       Model.C13_Xyz Model.C13_Pdffit Model.C13_Discus Model.C13_Xcfg Model.C13_Pdb Model.C13_Cif.
From DS Require Import Proofs.C13_ExnLemmas Proofs.C13_Xyz Proofs.C13_Pdffit Proofs.C13_Xcfg Proofs.C13_Pdb Proofs.C13_Cif
                       Proofs.C13_Examples.
From Coq Require Import Ascii String.
Import ListNotations.

(* ---- the tie: the site layout of the current source is the one the models were written for ---- *)
Theorem C13_sites_xyz : xyz_sites = xyz_sites_expected.
Proof. exact eq_refl. Qed.
Theorem C13_sites_rawxyz : rawxyz_sites = rawxyz_sites_expected.
Proof. exact eq_refl. Qed.
Theorem C13_sites_pdffit : pdffit_sites = pdffit_sites_expected.
Proof. exact eq_refl. Qed.
Theorem C13_sites_discus : discus_sites = discus_sites_expected.
Proof. exact eq_refl. Qed.
Theorem C13_sites_pdb : pdb_sites = pdb_sites_expected.
Proof. exact eq_refl. Qed.
Theorem C13_sites_xcfg : xcfg_sites = xcfg_sites_expected.
Proof. exact eq_refl. Qed.
Theorem C13_sites_cif : cif_sites = cif_sites_expected.
Proof. exact eq_refl. Qed.

(* ---- the property, per format ----------------------------------------------------------------- *)
Theorem C13_only_documented_xyz :
  forall (V : Type) (split : string -> list string) (int_of : string -> res Z) (canon_int : string -> bool)
         (float_of : string -> res V),
    (forall s w, In w (split s) -> w <> EmptyString) ->
    (forall s, within [ValueError] (int_of s)) ->
    (forall s, within [ValueError] (float_of s)) ->
    forall lines, documented (parse_xyz V split int_of canon_int float_of lines).
Proof. exact only_documented_xyz. Qed.
Print Assumptions C13_only_documented_xyz.

Theorem C13_only_documented_rawxyz :
  forall (V : Type) (split : string -> list string) (float_of : string -> res V),
    (forall s, within [ValueError] (float_of s)) ->
    forall lines, documented (parse_rawxyz V split float_of lines).
Proof. exact (fun V split float_of H lines => only_documented_rawxyz V split (fun _ => Ok 0%Z) (fun _ => true) float_of H lines). Qed.
Print Assumptions C13_only_documented_rawxyz.

Theorem C13_only_documented_pdffit :
  forall (V : Type) (split split_commas : string -> list string) (isblank : string -> bool)
         (float_of : string -> res V) (int_of : string -> res Z) (lattice_of : list V -> res unit) (mulZ : V -> Z -> res V),
    (forall s, within [ValueError] (float_of s)) ->
    (forall s, within [ValueError] (int_of s)) ->
    (forall l, within [ValueError; ZeroDivisionError] (lattice_of l)) ->
    (forall v z, within [OverflowError] (mulZ v z)) ->
    forall lines, documented (parse_pdffit V split split_commas isblank float_of int_of lattice_of mulZ lines).
Proof. exact only_documented_pdffit. Qed.
Print Assumptions C13_only_documented_pdffit.

Theorem C13_only_documented_discus :
  forall (V : Type) (split split_commas : string -> list string) (isblank : string -> bool)
         (float_of : string -> res V) (int_of : string -> res Z)
         (set_lat_par : list (list V) -> list V -> res unit) (cell_pars : list (list V) -> list V)
         (lattice_of : list V -> res unit) (mulZ : V -> Z -> res V),
    (forall s, within [ValueError] (float_of s)) ->
    (forall s, within [ValueError] (int_of s)) ->
    (forall h l, within [ValueError; ZeroDivisionError] (set_lat_par h l)) ->
    (forall l, within [ValueError; ZeroDivisionError] (lattice_of l)) ->
    (forall v z, within [OverflowError] (mulZ v z)) ->
    forall lines, documented (parse_discus V split split_commas isblank float_of int_of set_lat_par cell_pars lattice_of mulZ lines).
Proof. exact only_documented_discus. Qed.
Print Assumptions C13_only_documented_discus.

Theorem C13_only_documented_xcfg :
  forall (V : Type) (split : string -> list string) (isblank : string -> bool)
         (float_of : string -> res V) (int_of : string -> res Z)
         (first_word_from : nat -> string -> option string) (aux_match : string -> option (string * nat))
         (lat_base_of : list (option V) -> res unit) (aux_assign : string -> res unit),
    (forall s, within [ValueError] (float_of s)) ->
    (forall s, within [ValueError] (int_of s)) ->
    (forall h, within [LatticeError; ValueError; ZeroDivisionError] (lat_base_of h)) ->
    (forall p, within [IndexError; FormatError] (aux_assign p)) ->
    forall lines, documented (parse_xcfg V split isblank float_of int_of first_word_from aux_match lat_base_of aux_assign lines).
Proof. exact only_documented_xcfg. Qed.
Print Assumptions C13_only_documented_xcfg.

Theorem C13_only_documented_pdb :
  forall (V : Type) (split : string -> list string) (isblank : string -> bool) (float_of : string -> res V)
         (set_lat_par : list V -> res unit)
         (scale3_finish : lat_state V -> list (option (list V)) -> list (option V) -> res (bool * bool))
         (set_xyz_cartn dot_scale : lat_state V -> list V -> res unit),
    (forall s, within [ValueError] (float_of s)) ->
    (forall l, within [ValueError; ZeroDivisionError] (set_lat_par l)) ->
    (forall a b c, within [LinAlgError; ValueError; LatticeError; ZeroDivisionError] (scale3_finish a b c)) ->
    (forall a l, within [ValueError] (set_xyz_cartn a l)) ->
    (forall a l, within [ValueError] (dot_scale a l)) ->
    forall lines, documented (parse_pdb V split isblank float_of set_lat_par scale3_finish set_xyz_cartn dot_scale lines).
Proof. exact only_documented_pdb. Qed.
Print Assumptions C13_only_documented_pdb.

(* cif, partial: the oracle hypotheses leave out (1) items that are lists where one value is expected and (2) the eval
   inside getSymOp; both classes are refuted below and recorded as known findings *)
Theorem C13_only_documented_cif_partial :
  forall (V CF B : Type) (read_cif : string -> res CF) (blocks : CF -> list B) (has_sites has_cell : B -> bool)
         (cell_item : B -> nat -> res string) (leading_float : string -> res V) (lattice_of : list V -> res unit)
         (atom_sites aniso_sites symops : B -> res unit),
    (forall s, within [StarError; YappsSyntaxError; ValueError] (read_cif s)) ->
    (forall b i, within [KeyError] (cell_item b i)) ->
    (forall s, within [ValueError] (leading_float s)) ->
    (forall l, within [ValueError; ZeroDivisionError] (lattice_of l)) ->
    (forall b, within [KeyError; ValueError; IndexError] (atom_sites b)) ->
    (forall b, within [KeyError; ValueError; IndexError] (aniso_sites b)) ->
    (forall b, within [KeyError; ValueError; IndexError; ZeroDivisionError; FormatError] (symops b)) ->
    forall text, documented (parse_cif V CF B read_cif blocks has_sites has_cell cell_item leading_float lattice_of
                                       atom_sites aniso_sites symops text).
Proof. exact only_documented_cif_partial. Qed.
Print Assumptions C13_only_documented_cif_partial.

Theorem C13_only_documented_cif_nonscalar_refuted :
  exists lf, (forall s, within [ValueError; AttributeError] (lf s)) /\ cif_with lf (fun _ => Ok tt) = Raise AttributeError.
Proof. exact cif_nonscalar_item_refuted. Qed.

Theorem C13_only_documented_cif_symop_eval_refuted :
  exists sy, (forall b, within [KeyError; ValueError; IndexError; FormatError; NameError; SyntaxError; TypeError] (sy b)) /\
             cif_with (fun _ => Ok tt) sy = Raise NameError.
Proof. exact cif_symop_eval_refuted. Qed.

(* the hypotheses are satisfiable: concrete oracles on which the models accept and reject *)
Theorem C13_hypotheses_satisfiable :
  (forall s w, In w (split_sp s) -> w <> EmptyString) /\ (forall s, within [ValueError] (ex_int s)) /\
  (forall s, within [ValueError] (ex_float s)) /\
  ex_xyz ["1"; "title"; "C 0 0 0"]%string = Ok 1 /\ ex_xyz ["1"; "title"; "C 0 0 x"]%string = Raise FormatError.
Proof. exact (conj ex_split_nonempty (conj ex_int_kinds (conj ex_float_kinds (conj xyz_accepts xyz_rejects_number)))). Qed.
