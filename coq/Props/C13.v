(* C13 - Parsers reject bad input only with the documented format error.
   The property is stated per format in Props/C13_Xyz.v, C13_Pdffit.v, C13_Discus.v, C13_Xcfg.v, C13_Pdb.v, C13_Cif.v
   (`only_documented_<fmt>`: for EVERY list of lines, whatever the tokeniser and the number / geometry primitives answer within their
   declared exception kinds, the model of parseLines returns a value or raises StructureFormatError / NotImplementedError), the ties of
   each model to the current source in Props/C13_Tie_<Fmt>.v (site layout, guards, callee raise inventory), the satisfiability
   instances in Props/C13_Examples.v.  Each file depends only on its own format, so a change in one parser does not disturb the
   others.  This file states the format-independent core of the argument. *)
From Coq Require Import List.
From DS Require Import Base.C13_Exn Proofs.C13_ExnLemmas.
Import ListNotations.

(* a body whose possible kinds are all either caught by a clause that re-raises the format error, or documented, is documented *)
Theorem C13_try_catch_documented : forall A ks caught (m : res A),
  within ks m -> handled ks caught documented_kinds = true -> documented (try_catch m caught (fun _ => Raise FormatError)).
Proof. exact try_catch_documented. Qed.
Print Assumptions C13_try_catch_documented.
