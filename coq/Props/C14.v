(* C14 - Re-expressing a structure in another lattice leaves the crystal unchanged.
   place_Tx / place_Tu / place_xyz / place_U are regenerated from Structure.placeInLattice (Gen/C14_Place.v);
   `lat_ok` holds of every lattice built from a valid cell and a proper rotation (first theorem), hence by C10 of every
   lattice object reachable by valid updates. *)
From Coq Require Import Reals List.
From DS Require Import Base.RMat Base.Trig Model.LatDefs Model.C01_Spec Model.C14_Place Gen.LatFormulas Gen.C14_Place.
From DS Require Import Proofs.C01_Lattice Proofs.C14_LatOk Proofs.C14_Place.
Import ListNotations.
Open Scope R_scope.

Theorem C14_every_built_lattice_ok : forall a b c al be ga r, valid_cell a b c al be ga -> proper_rot r -> lat_ok (build a b c al be ga r).
Proof. exact build_lat_ok. Qed.
Print Assumptions C14_every_built_lattice_ok.

Theorem C14_cart_preserved : forall L L', lat_ok L' -> forall nid a, cart L' (place_atom L L' nid a) = cart L a.
Proof. exact cart_preserved. Qed.
Print Assumptions C14_cart_preserved.
(* Cartesian displacement tensor, as read through Atom.U (isotropic atoms included), unchanged *)
Theorem C14_ucart_preserved : forall L L', lat_ok L -> lat_ok L' -> forall nid a,
  ucart L' (read_U L' (place_atom L L' nid a)) = ucart L (read_U L a).
Proof. exact read_ucart_preserved. Qed.
Print Assumptions C14_ucart_preserved.
(* equivalent isotropic value (third of the Cartesian trace; see C09 for the atom.py formula) unchanged *)
Theorem C14_uiso_preserved : forall L L', lat_ok L' -> forall nid a, uiso_cart L' (place_atom L L' nid a) = uiso_cart L a.
Proof. exact uiso_preserved. Qed.
Theorem C14_flags_occupancy_identity : forall L L' nid a, let a' := place_atom L L' nid a in
  at_aniso a' = at_aniso a /\ at_occ a' = at_occ a /\ at_id a' = at_id a /\ at_lat a' = nid /\ (at_aniso a = false -> at_U a' = at_U a).
Proof. exact flags_preserved. Qed.
Theorem C14_all_atoms_get_new_lattice : forall L L' nid atoms, let S' := place_in_lattice L L' nid atoms in
  List.length S' = List.length atoms /\ map at_id S' = map at_id atoms /\ Forall (fun a => at_lat a = nid) S'.
Proof. exact structure_placed. Qed.
(* through any chain of lattices and back: original fractional coordinates and tensors, exactly *)
Theorem C14_chain_returns : forall chain L0 a, lat_ok L0 -> Forall lat_ok chain ->
  let a' := place_chain L0 (chain ++ [L0]) a in
  at_xyz a' = at_xyz a /\ at_U a' = at_U a /\ at_aniso a' = at_aniso a /\ at_occ a' = at_occ a /\ at_id a' = at_id a.
Proof. exact chain_returns. Qed.
Print Assumptions C14_chain_returns.
Theorem C14_transfer_composes : forall L1 L2 L3, lat_ok L2 ->
  mmul (place_Tx L1 L2) (place_Tx L2 L3) = place_Tx L1 L3 /\ mmul (place_Tu L1 L2) (place_Tu L2 L3) = place_Tu L1 L3.
Proof. intros L1 L2 L3 H. exact (conj (tx_compose L1 L2 L3 H) (tu_compose L1 L2 L3 H)). Qed.
Theorem C14_structure_cart_and_tensors_preserved : forall L L' nid atoms, lat_ok L -> lat_ok L' ->
  map (cart L') (place_in_lattice L L' nid atoms) = map (cart L) atoms /\
  map (fun a => ucart L' (read_U L' a)) (place_in_lattice L L' nid atoms) = map (fun a => ucart L (read_U L a)) atoms.
Proof. exact structure_cart_preserved. Qed.
