(* C12 - Automatic format detection gives the same result as naming the format.
   Statements only; proofs in Proofs/C12_Auto.v.  The registry, the two except clauses of the loop and (by shape check) the
   ordering rule are regenerated from /repo on every run (Gen/C12_ParserIndex.v).  `p f` is the outcome of the parser of
   format f on the text under consideration, in the exception monad of C13. *)
From Coq Require Import List Bool Arith Permutation.
From DS Require Import Base.C13_Exn Gen.C12_ParserIndex Model.C12_Auto Proofs.C12_Auto.
From Coq Require Import Ascii String.
Import ListNotations.

(* what detection returns: the reported format is registered, ITS OWN parser returns exactly that structure on the text,
   and every format tried before it (in the file-name dependent order) rejected the text *)
Theorem C12_auto_is_first_accepting :
  forall (S : Type) (p : string -> res (option S)) fn f s, auto p fn = AOk f s ->
    In f base_formats /\ p f = Ok (Some s) /\
    exists pre post, ordered_formats fn = (pre ++ f :: post)%list /\ Forall (rejects p) pre.
Proof. exact auto_sound. Qed.
Print Assumptions C12_auto_is_first_accepting.

(* the order in which formats are tried is a permutation of the registered input formats, whatever the file name *)
Theorem C12_order_is_permutation : forall fn, Permutation (ordered_formats fn) base_formats.
Proof. exact ordered_formats_perm. Qed.
Print Assumptions C12_order_is_permutation.

(* when every parser rejects, detection fails with the format error listing, in the order tried, every format whose parser
   raised the format error (NotImplementedError is skipped without a complaint) *)
Theorem C12_auto_error_is_format_error :
  forall (S : Type) (p : string -> res (option S)) fn, (forall g, In g base_formats -> rejects p g) ->
    auto p fn = AFail (filter (complains p) (ordered_formats fn)).
Proof. exact auto_error_is_format_error. Qed.
Print Assumptions C12_auto_error_is_format_error.

(* never some parser's internal exception - GIVEN C13 for every registered parser (its theorem is this hypothesis) *)
Theorem C12_auto_never_propagates_given_C13 :
  forall (S : Type) (p : string -> res (option S)) fn, (forall g, In g base_formats -> documented (p g)) ->
    match auto p fn with APropagate _ => False | _ => True end.
Proof. exact auto_never_propagates. Qed.
Print Assumptions C12_auto_never_propagates_given_C13.

(* partial: for a text that its own format's parser accepts and every other registered parser rejects (the rejection
   table: a hypothesis here, measured by the correspondence run on the texts of the 7 writers x 7 parsers), detection
   returns that format and that structure for EVERY file name - matching, misleading or absent *)
Theorem C12_auto_on_written_text_partial :
  forall (S : Type) (p : string -> res (option S)) f s fn,
    In f base_formats -> p f = Ok (Some s) -> (forall g, In g base_formats -> g <> f -> rejects p g) ->
    auto p fn = AOk f s.
Proof. exact auto_on_written_text. Qed.
Print Assumptions C12_auto_on_written_text_partial.

(* the hypotheses are satisfiable on the generated registry; a foreign kind from one parser does propagate (defect D2) *)
Theorem C12_instances :
  auto (ex_parser "xyz") (Some "dir/Ni.stru"%string) = AOk "xyz"%string 7 /\
  auto (ex_parser "none") None = AFail ["cif"; "pdb"; "pdffit"; "rawxyz"; "xcfg"; "xyz"]%string /\
  auto (fun f => if String.eqb f "cif" then Raise YappsSyntaxError else Ok (Some 1)) None = APropagate YappsSyntaxError.
Proof. exact (conj ex_written_xyz_named_stru (conj ex_all_reject ex_foreign_kind_propagates)). Qed.
