(* C17 - File content is treated as data, never executed.
   Statements only.  gen_graph / gen_sinks / gen_entries are regenerated from the package source on every run
   (translate/c17_effects.py): an over-approximating call graph from the parse entry points and every
   call to an effectful operation with the provenance class of each argument (PText = derived from parsed
   content, and the default whenever the data-flow does not know).  `path` is any chain of call edges. *)
From Coq Require Import NArith List Bool String.
From DS Require Import Model.C17_Effects Model.C17_Names Proofs.C17_Reach Gen.C17_EffectGraph Proofs.C17_Gen.
From DS Require Import Model.C17_Regex Proofs.C17_RegexSound Gen.C17_SymopRegex Proofs.C17_GenRegex.
Import ListNotations.

(* no function that any chain of calls from a parse entry point can reach hands text-derived data to
   eval/exec/compile/import, the os, a process, a socket or a deserialiser, nor opens anything but the
   caller's file name read-only.  A statement about the program, hence about ALL input texts. *)
Theorem C17_no_text_reaches_code_sink : forall e n s,
  In e gen_entries -> path gen_graph e n -> In s gen_sinks -> s_node s = n -> bad_sink s = false.
Proof. exact gen_no_bad_sink. Qed.
Print Assumptions C17_no_text_reaches_code_sink.

(* the verified reachability behind it: a closed set containing the entries contains every path *)
Theorem C17_reach_complete : forall g entries, closed g (reach g entries) = true -> covers (reach g entries) entries = true ->
  forall e n, In e entries -> path g e n -> In n (reach g entries).
Proof. exact reach_complete. Qed.
Print Assumptions C17_reach_complete.

(* the only exec on the parse paths is the one in parsers.getParser; its string is built from registry
   constants only: the template below filled with a registered module name, each a plain identifier;
   there is no eval/compile at all and every import call takes registry/constant names *)
Theorem C17_import_cmd_closed :
  (forall e n s, In e gen_entries -> path gen_graph e n -> In s gen_sinks -> s_node s = n ->
     match s_kind s with
     | KEval | KCompile => False
     | KExec => s_node s = gen_getparser_node /\ forallb prov_le_registry (s_args s) = true
     | KImport => forallb prov_le_registry (s_args s) = true
     | _ => True
     end)
  /\ gen_import_template = expected_import_template
  /\ forallb ident_ok gen_registry_modules = true.
Proof. exact gen_import_cmd_closed. Qed.
Print Assumptions C17_import_cmd_closed.

Theorem C17_open_only_filename : forall e n s,
  In e gen_entries -> path gen_graph e n -> In s gen_sinks -> s_node s = n -> s_kind s = KOpen ->
  s_args s = [PFileName] /\ s_flag s = true.
Proof. exact gen_open_only_filename. Qed.
Print Assumptions C17_open_only_filename.

(* reflective use of text-derived NAMES (not code execution, classified separately): on the parse paths only
   p_xcfg._assign_auxiliaries (attribute names from the file, DESIGN D18: since the repair a getattr that tests
   that the name is not private and denotes a plain float or a new attribute, then the setattr) and a getattr
   over the instance dictionary in Structure.__emptySharedStructure; on the write paths additionally the format
   string assembled from auxiliary names in P_xcfg.toLines *)
Theorem C17_reflective_names_confined :
  reflective_confined gen_graph gen_entries gen_sinks gen_node_names parse_reflective_allow = true
  /\ reflective_confined gen_graph gen_write_entries gen_sinks gen_node_names write_reflective_allow = true.
Proof. exact (conj gen_reflective_parse gen_reflective_write). Qed.
Print Assumptions C17_reflective_names_confined.

Theorem C17_write_paths_no_code_sink :
  forallb (fun s => negb (code_or_effect (s_kind s) && has_text s)) (sinks_in (reach gen_graph gen_write_entries) gen_sinks) = true
  /\ closed gen_graph (reach gen_graph gen_write_entries) = true
  /\ covers (reach gen_graph gen_write_entries) gen_write_entries = true.
Proof. exact gen_write_no_code_sink. Qed.

(* numeric fields of CIF symmetry operators.  The translator checks that getSymOp changes the translation vector only
   through _parseSymOpTranslation(tpart), that the reader raises ValueError unless `_rx_symop_translation.match(tpart)`
   (pattern ending in \Z) and converts only float(<group>) of `_rx_symop_term.findall(tpart)`; the two patterns are
   regenerated as data (gen_rx_translation, gen_rx_term; ASCII model).
   For ALL strings: whatever the patterns accept consists of the characters 0-9 . / + - e E only
   (an unescaped `.` or any wider class breaks this) *)
Theorem C17_symop_translation_numeric_only : forall s, rmatch gen_rx_translation s = true -> forallb num_char s = true.
Proof. exact gen_translation_numeric. Qed.
Print Assumptions C17_symop_translation_numeric_only.

Theorem C17_symop_term_numeric_only : forall s, rmatch gen_rx_term s = true -> forallb num_char s = true.
Proof. exact gen_term_numeric. Qed.

(* bounded: on every string of length <= 6 over the probe alphabet (two digits . / + - e E and three non-numeric
   characters) the pattern accepts exactly the sums of signed numbers / fractions of the reference recogniser *)
Theorem C17_symop_translation_is_number_sum_bounded : forall s, (List.length s <= 6)%nat ->
  (forall c, In c s -> In c probe_alphabet) -> rmatch gen_rx_translation s = is_number_sum s.
Proof. exact gen_translation_is_number_sum_bounded. Qed.
Print Assumptions C17_symop_translation_is_number_sum_bounded.

(* the shape of the defect of the pinned tree (eval of operator text in getSymOp) is what the check rejects *)
Theorem C17_eval_of_text_refuted :
  no_bad_sink [(1, [2]); (2, [3]); (3, []); (4, [])]%N [1%N] [Sink 3 KEval 838 [PText] false] = false.
Proof. exact (proj1 tiny_graph_finds_it). Qed.
