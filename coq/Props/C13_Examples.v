(* C13 - the hypotheses of the theorems are satisfiable (closed instances; Proofs/C13_Examples.v also replays the except clauses of the pinned tree).  Statements only; proofs in Proofs/. *)
From Coq Require Import List Bool Arith ZArith.
From DS Require Import Base.C13_Exn Gen.C13_ExcSpec Model.C13_Common Model.C13_Xyz.
From DS Require Import Proofs.C13_ExnLemmas Proofs.C13_Examples.
From Coq Require Import Ascii String.
Import ListNotations.

(* the hypotheses are satisfiable: concrete oracles on which the models accept and reject *)
Theorem C13_hypotheses_satisfiable :
  (forall s w, In w (split_sp s) -> w <> EmptyString) /\ (forall s, within [ValueError] (ex_int s)) /\
  (forall s, within [ValueError] (ex_float s)) /\
  ex_xyz ["1"; "title"; "C 0 0 0"]%string = Ok 1 /\ ex_xyz ["1"; "title"; "C 0 0 x"]%string = Raise FormatError.
Proof. exact (conj ex_split_nonempty (conj ex_int_kinds (conj ex_float_kinds (conj xyz_accepts xyz_rejects_number)))). Qed.
