(* C03 - Every tabulated space-group setting is a group with consistent metadata.
   Statements only; proofs live in Proofs/.  `all_settings` is regenerated from /repo on every run. *)
From Coq Require Import ZArith List Bool String.
From DS Require Import Base.ZMat Base.SGDefs Model.GroupCheck Model.LatRuleDefs Model.LatRule Gen.SGTables Gen.LatRules.
From DS Require Import Proofs.LatRuleSound Proofs.C03All Proofs.C03Counts Proofs.C03LatPar Proofs.C03_Lower Proofs.C03_Type.
From DS Require Import Model.C03_Type.

(* identity first, listed once each, closed under composition and inversion modulo lattice
   translations, entries in {-1,0,1}, det +-1, translations k/12 in [0,1) *)
Theorem C03_all_settings_are_groups : forall s, In s all_settings -> IsGroup (sg_ops s).
Proof. exact all_groups. Qed.
Print Assumptions C03_all_settings_are_groups.

(* declared counts: |ops| = num_sym_equiv and num_primitive_sym_equiv * |centring| = num_sym_equiv *)
Theorem C03_counts_agree : forallb counts_ok all_settings = true.
Proof. exact all_counts_b. Qed.
Print Assumptions C03_counts_agree.

(* crystal system implied by the rotation types, centring letter implied by the pure translations,
   International-Tables number (number mod 1000) inside the range of the declared system *)
Theorem C03_metadata_agrees : forallb setting_meta_ok all_settings = true.
Proof. exact all_meta_b. Qed.
Print Assumptions C03_metadata_agrees.

Theorem C03_numbers : same_number_same_pg all_settings && numbers_unique all_settings = true.
Proof. exact table_wide_b. Qed.
Print Assumptions C03_numbers.

(* lattice compatibility, for ALL real cells (positive edges, angles in (0,180)): if every operation of a
   tabulated setting preserves the cell's metric tensor (R^T G R = G), the rule that
   isSpaceGroupLatPar applies for the setting's declared crystal system holds of the cell.
   `rule_table` is the translation of the current source of isSpaceGroupLatPar. *)
Theorem C03_latpar_accepts_invariant : forall st c,
  In st all_settings -> valid_cell c -> (forall o, In o (sg_ops st) -> invariant (fst o) c) ->
  exists r, lookup_rule rule_table (sg_system st) = Some r /\ interp r c.
Proof. exact latpar_accepts_invariant. Qed.
Print Assumptions C03_latpar_accepts_invariant.

(* partial: rejection is shown on one generic witness cell per lower system (not for every such cell) *)
Theorem C03_latpar_rejects_lower_partial : forall zc syss sys r, In (zc, syss) generic_cells -> In sys syss ->
  lookup_rule rule_table sys = Some r -> ~ interp r (cell_of_z zc).
Proof. exact rejects_lower. Qed.
Print Assumptions C03_latpar_rejects_lower_partial.

Theorem C03_latpar_accepts_own_generic : accepts_own_ok rule_table = true.
Proof. exact accepts_own_b. Qed.

(* rejection of cells that only a lower crystal system allows, for ALL real cells: every cell the translated rule of a system
   accepts has the full lattice symmetry (holohedry) of that system in one of its standard orientations (unique axis b, c or a
   for monoclinic; rhombohedral or hexagonal axes for trigonal), hence a cell left invariant by none of them is rejected *)
Theorem C03_latpar_accepted_cells_have_the_holohedry : forall sys r c,
  lookup_rule rule_table sys = Some r -> interp r c ->
  exists gens, In gens (holohedries sys) /\ forall R, In R gens -> invariant R c.
Proof. exact accepted_cells_have_the_holohedry. Qed.
Print Assumptions C03_latpar_accepted_cells_have_the_holohedry.
Theorem C03_latpar_rejects_lower : forall sys r c,
  lookup_rule rule_table sys = Some r ->
  (forall gens, In gens (holohedries sys) -> exists R, In R gens /\ ~ invariant R c) -> ~ interp r c.
Proof. exact lower_symmetry_cells_rejected. Qed.

(* International Tables number vs operations, partial (no reference table exists offline): all settings that share
   `number mod 1000` have the same affine-invariant type fingerprint - for every distinct rotation part its (trace, det) type and
   whether it is a pure rotation/mirror or necessarily a screw/glide (Model/C03_Type.v) - except the recorded setting #3004 *)
Theorem C03_same_number_same_type_partial : same_number_same_type known_misnumbered all_settings = true.
Proof. exact same_type_b. Qed.
Print Assumptions C03_same_number_same_type_partial.
Theorem C03_same_number_same_type_refuted_for_3004 : same_number_same_type nil all_settings = false.
Proof. exact same_type_all_refuted. Qed.
