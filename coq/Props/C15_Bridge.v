(* C15 / C18 - discharge of the lattice hypotheses: what `newS.lattice.setLatPar(a=l*a, b=m*b, c=n*c)` does, proved on the setLatPar
   regenerated from lattice.py: base' = diag(l,m,n) base (so C15_image_positions applies with B = base), unchanged angles and
   orientation, multiplied edges, reciprocal lengths divided, normbase unchanged (so C15_tensor_unchanged_cart applies). *)
From Coq Require Import Reals List.
From DS Require Import Base.RMat Base.Trig Model.LatDefs Model.C01_Spec Gen.LatFormulas Proofs.C01_Lattice Proofs.C15_Bridge.
Open Scope R_scope.

Theorem C15_scaled_lattice : forall a b c al be ga r l m n, valid_cell a b c al be ga -> proper_rot r -> 0 < l -> 0 < m -> 0 < n ->
  let L := build a b c al be ga r in let L' := scaled L l m n in
  l_base L' = mmul (dg3 l m n) (l_base L) /\
  l_ar L' = l_ar L / l /\ l_br L' = l_br L / m /\ l_cr L' = l_cr L / n /\
  l_normbase L' = l_normbase L /\
  l_alpha L' = l_alpha L /\ l_beta L' = l_beta L /\ l_gamma L' = l_gamma L /\ l_baserot L' = l_baserot L /\
  l_a L' = l * l_a L /\ l_b L' = m * l_b L /\ l_c L' = n * l_c L.
Proof. exact scaled_lattice. Qed.
Print Assumptions C15_scaled_lattice.
