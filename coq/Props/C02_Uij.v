(* C02 (tensor part) - displacement tensors at the equivalent positions: second loop of GeneratorSite._findeqUij,
   ExpandAsymmetricUnit.expandedUijs.  Uses the tensor action of Model/C06_UCert.v (`conj R U` = R U R^T over Q). *)
From Coq Require Import ZArith QArith List Bool.
From DS Require Import Base.ZMat Base.SGDefs Model.GroupCheck Model.C02_Orbit Model.C02_Eps Model.C02_Gen Model.C02_Uij
  Model.C05_QBase Model.C06_UCert.
From DS Require Import Proofs.C02_UijSound.
Open Scope Z_scope.

(* For any group list, any site y and any tensor U that is invariant under the site symmetry of y (C06's `Inv`):
   the tensor reported at each equivalent position (computed with the FIRST operation attributed to the position)
   equals R U R^T for EVERY operation (R,t) of the group that generates that position. *)
Theorem C02_eq_uijs_any_generating_operation : forall D G off y, IsGroup G -> 0 < D -> (12 | D) -> forall U : s6,
  C06_UCert.Inv (C02_Orbit.stab D G off y) U ->
  let '(pos, ops, _) := expand_exact D G off y in
  Forall2 (fun p U' => forall g, In g G -> img D g off y = p -> s6eq U' (C06_UCert.conj (fst g) U)) pos (eq_uijs ops U).
Proof. exact eq_uijs_any_generating_operation. Qed.
Print Assumptions C02_eq_uijs_any_generating_operation.
