(* C05 - positional symmetry constraints are sound and complete.
   Statements only; proofs live in Proofs/C05_*.v.  `pos_cert_ok G c` is the executable checker (Model/C05_PosCert.v)
   that ./check C05 runs, extracted, on what GeneratorSite reports for every tabulated setting G (Gen/SGTables.v,
   regenerated from /repo on every run) and every site-symmetry stratum:  x = pc_x c is the exact site,
   pc_N c the reported null_space rows, pc_p0 c the reported parameter values, pc_forms c the affine maps read off
   the positionFormula() strings together with the operation the code attributes to each equivalent position.
   moved c p = x + N^T (p - p0) is the generator after the parameters are changed from p0 to p. *)
From Coq Require Import ZArith QArith List Bool.
From DS Require Import Base.ZMat Base.SGDefs Model.GroupCheck Model.C05_QBase Model.C05_PosCert Model.C05_Partition.
From DS Require Gen.SGTables Proofs.C03All.
From DS Require Import Proofs.C05_RunSpec Proofs.C05_QLemmas Proofs.C05_PosSound Proofs.C05_Example Proofs.C05_Orbit.
From DS Require Import Model.C06_Query Gen.C06_QueryGuards Model.C06_QueryMethods Proofs.C06_QuerySound Proofs.C06_QueryGuards.
From DS Require Import Proofs.C05_DimensionInst.
From DS Require Import Model.C05_SymTrans Proofs.C05_SymTransSound.
Import ListNotations.
Open Scope Q_scope.

(* (a) For ALL parameter values p, every formula triple equals its operation applied to the moved generator,
   up to the same lattice vector + rounding residue (|.| <= tol, tol = 1e-5) that it has at the reported values;
   at the reported values the formulas reproduce the exact image g_i(x) and the reported position. *)
Theorem C05_formulas_follow_generator : forall G c, pos_cert_ok G c = true ->
  forall f, In f (pc_forms c) -> exists g, nth_error G (pf_rep f) = Some g /\
    NearInt3 (pc_tol c) (q3sub (feval f (pc_p0 c)) (opq g (pc_x c))) /\
    NearInt3 (pc_tol c) (q3sub (pf_pos f) (opq g (pc_x c))) /\
    forall p, q3eq (q3sub (feval f p) (opq g (moved c p))) (q3sub (feval f (pc_p0 c)) (opq g (pc_x c))).
Proof. exact pos_formulas. Qed.
Print Assumptions C05_formulas_follow_generator.

(* (b) Refining can never move the atom off its special position: every operation of the exact site-symmetry
   group of x fixes the moved generator with the very same lattice vector, for ALL p. *)
Theorem C05_site_symmetry_kept : forall G c, pos_cert_ok G c = true ->
  forall g, In g (stab G (pc_x c)) ->
    IsInt3 (q3sub (opq g (pc_x c)) (pc_x c)) /\
    forall p, q3eq (q3sub (opq g (moved c p)) (moved c p)) (q3sub (opq g (pc_x c)) (pc_x c)).
Proof. exact pos_stabiliser. Qed.
Print Assumptions C05_site_symmetry_kept.

Theorem C05_moved_generator_keeps_stabiliser : forall G c, pos_cert_ok G c = true ->
  forall g p, In g (stab G (pc_x c)) -> In g (stab G (moved c p)).
Proof. exact pos_moved_in_stabiliser. Qed.
Print Assumptions C05_moved_generator_keeps_stabiliser.

(* (c) The number of parameters is the dimension of the subspace the site symmetry leaves free: the reported rows
   are fixed by every site rotation, every fixed vector is a combination of them, and they are independent. *)
Theorem C05_parameters_are_a_basis_of_the_free_space : forall G c, pos_cert_ok G c = true ->
  let S := stab G (pc_x c) in let N := pc_N c in
  List.length (pc_p0 c) = List.length N /\
  (forall n, In n N -> Fixed S n) /\
  (forall v, Fixed S v -> exists a, List.length a = List.length N /\ q3eq v (lin N a)) /\
  (forall a, List.length a = List.length N -> q3eq (lin N a) q3zero -> Forall (fun q => q == 0) a).
Proof. exact pos_basis. Qed.
Print Assumptions C05_parameters_are_a_basis_of_the_free_space.

(* (d) The listed positions are the whole orbit, before and after moving: every operation of the group sends the
   moved generator to the image under one of the listed representatives, modulo a lattice vector, for ALL p ... *)
Theorem C05_images_are_the_whole_orbit : forall G c, pos_cert_ok G c = true ->
  forall g, In g G -> exists f gi, In f (pc_forms c) /\ nth_error G (pf_rep f) = Some gi /\
    IsInt3 (q3sub (opq g (pc_x c)) (opq gi (pc_x c))) /\
    forall p, q3eq (q3sub (opq g (moved c p)) (opq gi (moved c p))) (q3sub (opq g (pc_x c)) (opq gi (pc_x c))).
Proof. exact pos_orbit. Qed.
Print Assumptions C05_images_are_the_whole_orbit.

(* ... and different listed positions are different points of the orbit of x (so its multiplicity is their number). *)
Theorem C05_listed_images_differ : forall G c, pos_cert_ok G c = true ->
  forall i j fi fj, (i < j)%nat -> nth_error (pc_forms c) i = Some fi -> nth_error (pc_forms c) j = Some fj ->
    ~ IsInt3 (q3sub (rep_img G (pc_x c) fi) (rep_img G (pc_x c) fj)).
Proof. exact pos_distinct. Qed.
Print Assumptions C05_listed_images_differ.

(* (e) Same multiplicity for generic parameters: if G is a group (C03 proves it for every tabulated setting) and the
   moved generator has no site symmetry beyond that of x, the listed images of the moved generator stay pairwise different. *)
Theorem C05_same_multiplicity_when_no_new_symmetry : forall G c, GroupCheck.IsGroup G -> pos_cert_ok G c = true ->
  forall p, (forall h, In h (stab G (moved c p)) -> In h (stab G (pc_x c))) ->
  forall i j fi fj gi gj, (i < j)%nat -> nth_error (pc_forms c) i = Some fi -> nth_error (pc_forms c) j = Some fj ->
    nth_error G (pf_rep fi) = Some gi -> nth_error G (pf_rep fj) = Some gj ->
    ~ IsInt3 (q3sub (opq gi (moved c p)) (opq gj (moved c p))).
Proof. exact pos_generic_multiplicity. Qed.
Print Assumptions C05_same_multiplicity_when_no_new_symmetry.

(* Exact orbit partition (model of SymmetryConstraints._findConstraints on exact positions; compared with the real
   coremap on shuffled, cell-shifted, noisy unions of orbits by ./check C05): every listed position lies in a class,
   the class of a generator is exactly the set of listed positions in its orbit (modulo lattice translations),
   the generator belongs to its class, and no position is claimed twice. *)
Theorem C05_orbits_partition : forall G xs, GroupCheck.IsGroup G ->
  let cm := core_map G xs in
  (forall k, (k < List.length xs)%nat -> exists c, In c cm /\ In k (snd c)) /\
  (forall c, In c cm -> In (fst c) (snd c) /\
     forall k, In k (snd c) <-> ((k < List.length xs)%nat /\ equivalent G (pos_at xs (fst c)) (pos_at xs k))) /\
  NoDup (concat (map snd cm)).
Proof. exact core_map_partition. Qed.
Print Assumptions C05_orbits_partition.

(* the group hypothesis of the two theorems above holds for every tabulated setting (proved for C03 by complete decision) *)
Theorem C05_tabulated_settings_are_groups : forall s, In s Gen.SGTables.all_settings -> GroupCheck.IsGroup (sg_ops s).
Proof. exact Proofs.C03All.all_groups. Qed.
Print Assumptions C05_tabulated_settings_are_groups.

(* the hypotheses are satisfiable *)
Theorem C05_checker_accepts_an_instance : pos_cert_ok ex_G ex_pcert = true /\ List.length (pc_N ex_pcert) = 2%nat /\
  List.length (stab ex_G (pc_x ex_pcert)) = 2%nat.
Proof. exact pos_cert_nonvacuous. Qed.

(* what the extracted driver prints (the list of failed clauses) is empty exactly when the certificate is accepted *)
Theorem C05_empty_answer_iff_accepted : forall G c, pos_cert_failed G c = [] <-> pos_cert_ok G c = true.
Proof. exact pos_failed_nil. Qed.
Print Assumptions C05_empty_answer_iff_accepted.

Theorem C05_group_hypotheses_satisfiable : GroupCheck.IsGroup ex_G /\
  (forall p h, In h (stab ex_G (moved ex_pcert p)) -> In h (stab ex_G (pc_x ex_pcert))) /\
  core_map ex_G [Q3 (1 # 7) (1 # 5) (1 # 3); ex_x; Q3 (1 # 7) (9 # 5) (1 # 3)] = [(0, [0; 2]); (1, [1])]%nat.
Proof. exact (conj ex_G_is_group (conj no_new_symmetry_satisfiable core_map_example)). Qed.

(* ---- the position query that opens GeneratorSite.positionFormula (model: Model/C06_Query.v; the tolerance handed to equalPositions is read from the
   current source into Gen/C06_QueryGuards.v on every run).  e = the eps the site was built with, sites = eqxyz.
   Answered (Some i)  -> i is a listed position within e of pos modulo lattice translations, none is nearer, eqIndex agrees;
   every pos within e of SOME listed position is answered; the empty answer means none is within e; a wider eps keeps answers. *)
Theorem C05_formula_query_honours_site_eps : forall e sites q,
  (forall i, position_formula_query e sites q = Some i ->
     (i < List.length sites)%nat /\ NearInt3 e (q3sub (nth i sites q3zero) q) /\
     (forall j, (j < List.length sites)%nat -> boxd (nth i sites q3zero) q <= boxd (nth j sites q3zero) q) /\
     eq_index_query sites q = Some i) /\
  (forall j, (j < List.length sites)%nat -> NearInt3 e (q3sub (nth j sites q3zero) q) ->
     exists i, position_formula_query e sites q = Some i) /\
  (position_formula_query e sites q = None ->
     forall j, (j < List.length sites)%nat -> ~ NearInt3 e (q3sub (nth j sites q3zero) q)) /\
  (forall e' i, e <= e' -> position_formula_query e sites q = Some i -> position_formula_query e' sites q = Some i).
Proof. exact position_query_spec. Qed.
Print Assumptions C05_formula_query_honours_site_eps.

(* positionFormula and UFormula accept exactly the same points; SymmetryConstraints / ExpandAsymmetricUnit build their sites with their own eps *)
Theorem C05_queries_agree_and_eps_is_passed_on : (forall e sites q, u_formula_query e sites q = position_formula_query e sites q) /\
  (forall e, site_eps_in_SymmetryConstraints e = e /\ site_eps_in_ExpandAsymmetricUnit e = e).
Proof. exact (Logic.conj queries_agree constructors_pass_eps). Qed.
Print Assumptions C05_queries_agree_and_eps_is_passed_on.

Theorem C05_query_example :
  let sites := [Q3 0 0 0; Q3 (1 # 2) (1 # 2) 0] in let q := Q3 (15003 # 10000) (-4998 # 10000) (1 # 10000) in
  site_query (1 # 1000) sites q = Some 1%nat /\ site_query (1 # 100000) sites q = None /\ eq_index sites q = Some 1%nat.
Proof. exact site_query_example. Qed.

(* ---- the number of parameters is THE dimension of the free space: any independent family of vectors fixed by the
   site symmetry has at most that many members, and any basis of the fixed space has exactly that many
   (Proofs/C05_Dimension.v: more vectors than coordinates are linearly dependent) ---- *)
Theorem C05_parameter_count_is_the_dimension : forall G c, pos_cert_ok G c = true ->
  let S := stab G (pc_x c) in
  forall M : list q3, (forall m, In m M -> Fixed S m) ->
    (forall a, List.length a = List.length M -> q3eq (lin M a) q3zero -> Forall (fun x => x == 0) a) ->
    (List.length M <= List.length (pc_p0 c))%nat /\
    ((forall v, Fixed S v -> exists a, List.length a = List.length M /\ q3eq v (lin M a)) -> List.length M = List.length (pc_p0 c)).
Proof. exact pos_dimension. Qed.
Print Assumptions C05_parameter_count_is_the_dimension.

(* ---- custom symbols, positionFormulas(xyzsymbols):  re.sub(r"\b[xyz]\d+", ...)
   (scanner model Model/C05_SymTrans.v, compared with the real method on every formula of the long listings).
   A formula that consists of text without start letters and of parameter symbols (start letter + at least 1 digits, preceded
   by a non-word character and followed by a non-digit) is translated by replacing exactly its parameter symbols, for ANY
   user dictionary - in particular when one standard symbol is a prefix of another (x1 / x10). ---- *)
Theorem C05_custom_symbol_translation : forall tr l, wf is_xyz 1 false l ->
  translate_xyz tr (render l) = render (map (rename1 tr) l).
Proof. exact (translate_render is_xyz 1). Qed.
Print Assumptions C05_custom_symbol_translation.

Theorem C05_custom_symbol_example :
  wf is_xyz 1 false ex_chunks /\ render ex_chunks = ex_formula /\ translate_xyz ex_dict ex_formula = ex_translated.
(* ex_formula = "+2*x10 -x1 +0.5", dictionary x1 -> sab, x10 -> sak, ex_translated = "+2*sak -sab +0.5" *)
Proof. exact translate_example. Qed.
