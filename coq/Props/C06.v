(* C06 - displacement-parameter symmetry constraints are sound and complete.
   Statements only; proofs live in Proofs/C06_USound.v.  `u_cert_ok G c` is the executable checker (Model/C06_UCert.v)
   that ./check C06 runs, extracted, on what GeneratorSite reports for every tabulated setting G and every
   site-symmetry stratum.  Convention modelled (the one of _findUSpace, _findeqUij and UFormula):
   a rotation R acts on a tensor as  conj R U = R U R^T ;  a tensor is allowed at a site when conj R U = U for the
   rotation part R of every operation of the exact site-symmetry group  stab G x  (Inv).
   uc_B c = reported Uspace (exact two-decimal rationals), lin6 B u = sum_j u_j B_j,
   proj B U = sum_j <U,B_j>/<B_j,B_j> B_j  is the code's projection (_findUParameters + _findeqUij). *)
From Coq Require Import ZArith QArith List Bool.
From DS Require Import Base.ZMat Base.SGDefs Model.C05_QBase Model.C06_UCert.
From DS Require Import Proofs.C05_RunSpec Proofs.C05_QLemmas Proofs.C06_USound Proofs.C05_Example.
From DS Require Import Model.C06_Query Gen.C06_QueryGuards Model.C06_QueryMethods Proofs.C06_QuerySound Proofs.C06_QueryGuards.
From DS Require Import Proofs.C05_DimensionInst.
From DS Require Import Model.C05_SymTrans Proofs.C05_SymTransSound.
Import ListNotations.
Open Scope Q_scope.

(* every member of the reported space is invariant under the whole site point group *)
Theorem C06_reported_space_is_allowed : forall G c, u_cert_ok G c = true ->
  forall u, Inv (stab G (uc_x c)) (lin6 (uc_B c) u).
Proof. exact u_span_invariant. Qed.
Print Assumptions C06_reported_space_is_allowed.

(* ... and it is the WHOLE invariant space, with independent members: same dimension *)
Theorem C06_reported_space_is_the_invariant_space : forall G c, u_cert_ok G c = true ->
  let S := stab G (uc_x c) in let B := uc_B c in
  (forall U, Inv S U -> exists u, List.length u = List.length B /\ s6eq U (lin6 B u)) /\
  (forall u, List.length u = List.length B -> s6eq (lin6 B u) s6zero -> Forall (fun q => q == 0) u).
Proof. exact u_span_complete. Qed.
Print Assumptions C06_reported_space_is_the_invariant_space.

(* the stored tensor computed by the code's projection is allowed for ANY input, and an already allowed input is
   returned unchanged *)
Theorem C06_projection_onto_allowed_tensors : forall G c, u_cert_ok G c = true ->
  let S := stab G (uc_x c) in let B := uc_B c in
  (forall U, Inv S (proj B U)) /\ (forall U, Inv S U -> s6eq (proj B U) U).
Proof. exact u_projection. Qed.
Print Assumptions C06_projection_onto_allowed_tensors.

(* for ALL parameter values the U formulas of an equivalent position give the member of the space rotated by the
   operation that produces the position; at the reported values they reproduce the reported eqUij, which is the
   rotated stored tensor (doubles compared with tolerance uc_tol) *)
Theorem C06_formulas_give_rotated_tensors : forall G c, u_cert_ok G c = true ->
  forall f, In f (uc_forms c) -> exists g, nth_error G (uf_rep f) = Some g /\
    (forall u, s6eq (lin6 (uf_cols f) u) (conj (fst g) (lin6 (uc_B c) u))) /\
    S6Close (uc_tol c) (uf_eqU f) (conj (fst g) (uc_Uij c)) /\
    S6Close (uc_tol c) (lin6 (uf_cols f) (uc_par c)) (uf_eqU f).
Proof. exact u_formulas. Qed.
Print Assumptions C06_formulas_give_rotated_tensors.

(* the reported parameter values and stored tensor are the model projection of the input (doubles, tolerance uc_tol) *)
Theorem C06_reported_values_are_the_projection : forall G c, u_cert_ok G c = true ->
  Forall2 (QClose (uc_tol c)) (uc_par c) (coefs (uc_B c) (uc_Uin c)) /\
  S6Close (uc_tol c) (uc_Uij c) (proj (uc_B c) (uc_Uin c)).
Proof. exact u_reported_values. Qed.
Print Assumptions C06_reported_values_are_the_projection.

Theorem C06_isotropy_flag : forall G c, u_cert_ok G c = true -> (uc_iso c = true <-> List.length (uc_B c) = 1%nat).
Proof. exact u_isotropy. Qed.
Print Assumptions C06_isotropy_flag.

(* tensors at equivalent positions are themselves allowed there: if U is invariant under H then R U R^T is invariant
   under the conjugated rotation R H R^-1 (R unimodular, as every tabulated rotation is) *)
Theorem C06_rot_conj_invariant : forall R H U, (det R = 1 \/ det R = -1)%Z ->
  s6eq (conj H U) U -> s6eq (conj (mmul (mmul R H) (minv R)) (conj R U)) (conj R U).
Proof. exact rot_conj_invariant_lemma. Qed.
Print Assumptions C06_rot_conj_invariant.

Theorem C06_checker_accepts_an_instance : u_cert_ok ex_G ex_ucert = true /\ List.length (uc_B ex_ucert) = 4%nat.
Proof. exact u_cert_nonvacuous. Qed.

(* what the extracted driver prints (the list of failed clauses) is empty exactly when the certificate is accepted *)
Theorem C06_empty_answer_iff_accepted : forall G c, u_cert_failed G c = [] <-> u_cert_ok G c = true.
Proof. exact u_failed_nil. Qed.
Print Assumptions C06_empty_answer_iff_accepted.

(* ---- the position query that opens GeneratorSite.UFormula (model: Model/C06_Query.v; the tolerance handed to equalPositions is read from the
   current source into Gen/C06_QueryGuards.v on every run).  e = the eps the site was built with, sites = eqxyz.
   Answered (Some i)  -> i is a listed position within e of pos modulo lattice translations, none is nearer, eqIndex agrees;
   every pos within e of SOME listed position is answered; the empty answer means none is within e; a wider eps keeps answers. *)
Theorem C06_formula_query_honours_site_eps : forall e sites q,
  (forall i, u_formula_query e sites q = Some i ->
     (i < List.length sites)%nat /\ NearInt3 e (q3sub (nth i sites q3zero) q) /\
     (forall j, (j < List.length sites)%nat -> boxd (nth i sites q3zero) q <= boxd (nth j sites q3zero) q) /\
     eq_index_query sites q = Some i) /\
  (forall j, (j < List.length sites)%nat -> NearInt3 e (q3sub (nth j sites q3zero) q) ->
     exists i, u_formula_query e sites q = Some i) /\
  (u_formula_query e sites q = None ->
     forall j, (j < List.length sites)%nat -> ~ NearInt3 e (q3sub (nth j sites q3zero) q)) /\
  (forall e' i, e <= e' -> u_formula_query e sites q = Some i -> u_formula_query e' sites q = Some i).
Proof. exact u_query_spec. Qed.
Print Assumptions C06_formula_query_honours_site_eps.

(* positionFormula and UFormula accept exactly the same points; SymmetryConstraints / ExpandAsymmetricUnit build their sites with their own eps *)
Theorem C06_queries_agree_and_eps_is_passed_on : (forall e sites q, u_formula_query e sites q = position_formula_query e sites q) /\
  (forall e, site_eps_in_SymmetryConstraints e = e /\ site_eps_in_ExpandAsymmetricUnit e = e).
Proof. exact (Logic.conj queries_agree constructors_pass_eps). Qed.
Print Assumptions C06_queries_agree_and_eps_is_passed_on.

Theorem C06_query_example :
  let sites := [Q3 0 0 0; Q3 (1 # 2) (1 # 2) 0] in let q := Q3 (15003 # 10000) (-4998 # 10000) (1 # 10000) in
  site_query (1 # 1000) sites q = Some 1%nat /\ site_query (1 # 100000) sites q = None /\ eq_index sites q = Some 1%nat.
Proof. exact site_query_example. Qed.

(* ---- the number of tensor parameters is THE dimension of the invariant space: any independent family of allowed
   tensors has at most len(Uspace) members, any basis of the allowed tensors exactly that many ---- *)
Theorem C06_parameter_count_is_the_dimension : forall G c, u_cert_ok G c = true ->
  let S := stab G (uc_x c) in
  forall M : list s6, (forall m, In m M -> Inv S m) ->
    (forall a, List.length a = List.length M -> s6eq (lin6 M a) s6zero -> Forall (fun x => x == 0) a) ->
    (List.length M <= List.length (uc_B c))%nat /\
    ((forall U, Inv S U -> exists a, List.length a = List.length M /\ s6eq U (lin6 M a)) -> List.length M = List.length (uc_B c)).
Proof. exact u_dimension. Qed.
Print Assumptions C06_parameter_count_is_the_dimension.

(* ---- custom symbols, UFormulas(Usymbols):  re.sub(r"\bU\d\d\d+", ...)
   (scanner model Model/C05_SymTrans.v, compared with the real method on every formula of the long listings).
   A formula that consists of text without start letters and of parameter symbols (start letter + at least 3 digits, preceded
   by a non-word character and followed by a non-digit) is translated by replacing exactly its parameter symbols, for ANY
   user dictionary - in particular when one standard symbol is a prefix of another (x1 / x10). ---- *)
Theorem C06_custom_symbol_translation : forall tr l, wf is_U 3 false l ->
  translate_U tr (render l) = render (map (rename1 tr) l).
Proof. exact (translate_render is_U 3). Qed.
Print Assumptions C06_custom_symbol_translation.

Theorem C06_custom_symbol_example :
  wf is_xyz 1 false ex_chunks /\ render ex_chunks = ex_formula /\ translate_xyz ex_dict ex_formula = ex_translated.
(* ex_formula = "+2*x10 -x1 +0.5", dictionary x1 -> sab, x10 -> sak, ex_translated = "+2*sak -sab +0.5" *)
Proof. exact translate_example. Qed.
