(* C13 - the wrapper of P_cif around PyCifRW.  Statements only; proofs in Proofs/. *)
From Coq Require Import List Bool Arith ZArith.
From DS Require Import Base.C13_Exn Gen.C13_ExcSpec Model.C13_Common Model.C13_Cif.
From DS Require Import Proofs.C13_ExnLemmas Proofs.C13_Cif.
From Coq Require Import Ascii String.
Import ListNotations.

(* cif, partial: the oracle hypotheses leave out items that are lists where one value is expected; that class is refuted
   below and recorded as a known finding *)
Theorem C13_only_documented_cif_partial :
  forall (V CF B : Type) (read_cif : string -> res CF) (blocks : CF -> list B) (has_sites has_cell : B -> bool)
         (cell_item : B -> nat -> res string) (leading_float : string -> res V) (lattice_of : list V -> res unit)
         (atom_sites aniso_sites symops : B -> res unit),
    (forall s, within [StarError; YappsSyntaxError; ValueError] (read_cif s)) ->
    (forall b i, within [KeyError] (cell_item b i)) ->
    (forall s, within [ValueError] (leading_float s)) ->
    (forall l, within [ValueError; ZeroDivisionError] (lattice_of l)) ->
    (forall b, within [KeyError; ValueError; IndexError] (atom_sites b)) ->
    (forall b, within [KeyError; ValueError; IndexError] (aniso_sites b)) ->
    (forall b, within [KeyError; ValueError; IndexError; ZeroDivisionError; FormatError] (symops b)) ->
    forall text, documented (parse_cif V CF B read_cif blocks has_sites has_cell cell_item leading_float lattice_of
                                       atom_sites aniso_sites symops text).
Proof. exact only_documented_cif_partial. Qed.
Print Assumptions C13_only_documented_cif_partial.

Theorem C13_only_documented_cif_nonscalar_refuted :
  exists lf, (forall s, within [ValueError; AttributeError] (lf s)) /\ cif_with lf (fun _ => Ok tt) = Raise AttributeError.
Proof. exact cif_nonscalar_item_refuted. Qed.

