(* C01 - Fractional and Cartesian descriptions of a lattice are the same geometry.
   Every statement is about setLatPar / setLatBase / cartesian / fractional / dot / norm / dist / angle / rnorm / volume
   as REGENERATED from /repo/src/diffpy/structure/lattice.py (Gen/LatFormulas.v) on every run.
   `build a b c alpha beta gamma r` = Lattice(a, b, c, alpha, beta, gamma, baserot=r). *)
From Coq Require Import Reals Lra List.
From DS Require Import Base.RMat Base.Trig Model.LatDefs Model.C01_Spec Gen.LatFormulas Proofs.C01_Lattice Proofs.C10_Base.
Open Scope R_scope.

(* converting to Cartesian and back is the identity, both ways, for every valid cell in any orientation *)
Theorem C01_frac_cart_id : forall a b c alpha beta gamma r u, valid_cell a b c alpha beta gamma -> proper_rot r ->
  let L := build a b c alpha beta gamma r in L_fractional L (L_cartesian L u) = u.
Proof. exact frac_cart_id. Qed.
Print Assumptions C01_frac_cart_id.
Theorem C01_cart_frac_id : forall a b c alpha beta gamma r x, valid_cell a b c alpha beta gamma -> proper_rot r ->
  let L := build a b c alpha beta gamma r in L_cartesian L (L_fractional L x) = x.
Proof. exact cart_frac_id. Qed.

(* the base vectors have exactly the lengths and mutual angles given by the six cell parameters *)
Theorem C01_base_lengths_angles : forall a b c alpha beta gamma r, valid_cell a b c alpha beta gamma -> proper_rot r ->
  let L := build a b c alpha beta gamma r in
  enorm (row1 (l_base L)) = a /\ enorm (row2 (l_base L)) = b /\ enorm (row3 (l_base L)) = c /\
  vdot (row2 (l_base L)) (row3 (l_base L)) = b * c * cosd alpha /\
  vdot (row1 (l_base L)) (row3 (l_base L)) = a * c * cosd beta /\
  vdot (row1 (l_base L)) (row2 (l_base L)) = a * b * cosd gamma.
Proof. exact base_lengths_angles. Qed.
Print Assumptions C01_base_lengths_angles.

(* metric tensor = Gram matrix of the base; it is symmetric *)
Theorem C01_metrics_is_gram : forall a b c alpha beta gamma r, valid_cell a b c alpha beta gamma -> proper_rot r ->
  let L := build a b c alpha beta gamma r in mmul (l_base L) (mT (l_base L)) = l_metrics L.
Proof. exact base_gram. Qed.
Theorem C01_metrics_sym : forall a b c alpha beta gamma r, let L := build a b c alpha beta gamma r in mT (l_metrics L) = l_metrics L.
Proof. exact metrics_sym. Qed.

(* lattice-coordinate quantities equal plain Euclidean geometry on the Cartesian images *)
Theorem C01_dot_is_euclid : forall a b c alpha beta gamma r u v, valid_cell a b c alpha beta gamma -> proper_rot r ->
  let L := build a b c alpha beta gamma r in L_dot L u v = vdot (L_cartesian L u) (L_cartesian L v).
Proof. exact dot_is_euclid. Qed.
Print Assumptions C01_dot_is_euclid.
Theorem C01_norm_is_euclid : forall (L : lat) x, L_norm L x = enorm (L_cartesian L x).
Proof. exact norm_is_euclid. Qed.
Theorem C01_dist_is_euclid : forall (L : lat) u v, L_dist L u v = edist (L_cartesian L u) (L_cartesian L v).
Proof. exact dist_is_euclid. Qed.
Theorem C01_angle_cos_is_euclid : forall a b c alpha beta gamma r u v, valid_cell a b c alpha beta gamma -> proper_rot r ->
  let L := build a b c alpha beta gamma r in
  L_angle_cos L u v = vdot (L_cartesian L u) (L_cartesian L v) / (enorm (L_cartesian L u) * enorm (L_cartesian L v)).
Proof. exact angle_cos_is_euclid. Qed.
(* reciprocal-vector norm: hkl is mapped to h a* + k b* + l c* where a*, b*, c* (columns of recbase) are dual to the base *)
Theorem C01_rnorm_is_euclid : forall (L : lat) hkl, L_rnorm L hkl = enorm (mvmul (l_recbase L) hkl).
Proof. exact rnorm_is_euclid. Qed.
Theorem C01_recbase_dual : forall a b c alpha beta gamma r, valid_cell a b c alpha beta gamma -> proper_rot r ->
  let L := build a b c alpha beta gamma r in
  vdot (row1 (l_base L)) (col1 (l_recbase L)) = 1 /\ vdot (row1 (l_base L)) (col2 (l_recbase L)) = 0 /\ vdot (row1 (l_base L)) (col3 (l_recbase L)) = 0 /\
  vdot (row2 (l_base L)) (col1 (l_recbase L)) = 0 /\ vdot (row2 (l_base L)) (col2 (l_recbase L)) = 1 /\ vdot (row2 (l_base L)) (col3 (l_recbase L)) = 0 /\
  vdot (row3 (l_base L)) (col1 (l_recbase L)) = 0 /\ vdot (row3 (l_base L)) (col2 (l_recbase L)) = 0 /\ vdot (row3 (l_base L)) (col3 (l_recbase L)) = 1.
Proof. exact recbase_dual. Qed.

(* cell volume = determinant of the base = a b c sqrt(1 + 2 ca cb cg - ca^2 - cb^2 - cg^2) > 0 *)
Theorem C01_volume : forall a b c alpha beta gamma r, valid_cell a b c alpha beta gamma -> proper_rot r ->
  let L := build a b c alpha beta gamma r in
  L_volume L = det (l_base L) /\ L_unitvolume L = sqrt (vol2 alpha beta gamma) /\
  det (l_base L) = a * b * c * sqrt (vol2 alpha beta gamma) /\ 0 < det (l_base L).
Proof.
  intros a b c alpha beta gamma r HC HR. cbv zeta.
  destruct (volume_is_det a b c alpha beta gamma r HC HR) as [V1 V2]. destruct (det_base a b c alpha beta gamma r HC HR) as [D1 D2].
  exact (conj V1 (conj V2 (conj D1 D2))).
Qed.
Print Assumptions C01_volume.

(* all base matrices with positive determinant: the object setLatBase produces IS the object built from the recovered
   cell parameters and rotation, those parameters form a valid cell, the recovered rotation is proper, the metric tensor is
   B B^T and the base is B - so every theorem above applies to Lattice(base=B) as well *)
Theorem C01_base_matrix_path : forall old B, 0 < det B ->
  let L := setLatBase old B in
  valid_cell (l_a L) (l_b L) (l_c L) (l_alpha L) (l_beta L) (l_gamma L) /\ proper_rot (l_baserot L) /\
  L = build (l_a L) (l_b L) (l_c L) (l_alpha L) (l_beta L) (l_gamma L) (l_baserot L) /\
  l_base L = B /\ l_metrics L = mmul B (mT B).
Proof.
  intros old B H. cbv zeta.
  exact (conj (recovered_valid old B H) (conj (baserot_proper old B H) (conj (setLatBase_eq_build old B H)
        (conj (setLatBase_base old B) (setLatBase_metrics old B H))))).
Qed.
Print Assumptions C01_base_matrix_path.

(* the table of exact cosines holds exact values, and reduction of the angle modulo 360 does not change the cosine *)
Theorem C01_cosd_table_exact : forall p, List.In p exact_cosd_table -> cosd (fst p) = snd p.
Proof. exact cosd_table_exact. Qed.
Theorem C01_cosd_period : forall x k, cosd (x + 360 * IZR k) = cosd x.
Proof. exact cosd_period. Qed.
Theorem C01_sind_is_sine : forall x, sind x = sin (x * PI / 180).
Proof. exact sind_is_sin. Qed.

(* non-vacuity: a concrete oblique cell satisfies the hypotheses *)
Example C01_valid_cell_exists : valid_cell 3 4 5 90 90 120 /\ proper_rot I.
Proof.
  split.
  - constructor; try lra. unfold vol2. rewrite cosd_90, cosd_120. lra.
  - split; [apply mat_eq; rm_simpl; ring | rm_simpl; ring].
Qed.

(* Nx3 arrays and the broadcast of one vector against many are row-wise applications of the same definitions *)
Theorem C01_arrays_frac_cart_id : forall a b c alpha beta gamma r (us : list vec), valid_cell a b c alpha beta gamma -> proper_rot r ->
  let L := build a b c alpha beta gamma r in List.map (L_fractional L) (List.map (L_cartesian L) us) = us.
Proof. exact frac_cart_id_rows. Qed.
Theorem C01_broadcast_dot_is_euclid : forall a b c alpha beta gamma r (u : vec) (vs : list vec), valid_cell a b c alpha beta gamma -> proper_rot r ->
  let L := build a b c alpha beta gamma r in
  List.map (L_dot L u) vs = List.map (fun v => vdot (L_cartesian L u) (L_cartesian L v)) vs.
Proof. exact dot_rows_is_euclid. Qed.
Theorem C01_broadcast_dist_is_euclid : forall (L : lat) (u : vec) (vs : list vec),
  List.map (L_dist L u) vs = List.map (fun v => edist (L_cartesian L u) (L_cartesian L v)) vs.
Proof. exact dist_rows_is_euclid. Qed.
Theorem C01_arrays_norm_is_euclid : forall (L : lat) (xs : list vec), List.map (L_norm L) xs = List.map (fun x => enorm (L_cartesian L x)) xs.
Proof. exact norm_rows_is_euclid. Qed.
