(* C09 - discharge of the lattice hypotheses: `lat_ok`, which every C09 theorem assumes of the atom's lattice, is a THEOREM about the
   lattice objects that the generated lattice.py code builds (C01/C10/C14), for all valid cells, proper rotations and all base
   matrices with positive determinant; with C10's history theorem it holds after any valid update history of the lattice. *)
From Coq Require Import Reals List.
From DS Require Import Base.RMat Base.Trig Base.C09_GNum Model.LatDefs Model.C01_Spec Model.C09_Prims Gen.LatFormulas.
From DS Require Import Proofs.C01_Lattice Proofs.C09_Algebra Proofs.C09_Bridge.
Open Scope R_scope.

Theorem C09_lat_ok_of_built_lattice : forall a b c al be ga r, valid_cell a b c al be ga -> proper_rot r ->
  C09_Algebra.lat_ok (latdata_of (build a b c al be ga r)).
Proof. exact built_lattice_is_lat_ok. Qed.
Print Assumptions C09_lat_ok_of_built_lattice.

Theorem C09_lat_ok_of_base_lattice : forall old B, 0 < det B -> C09_Algebra.lat_ok (latdata_of (setLatBase old B)).
Proof. exact base_lattice_is_lat_ok. Qed.
Print Assumptions C09_lat_ok_of_base_lattice.
