(* C17 - "numeric fields such as the translation parts of CIF symmetry operators are read as numbers and anything
   else in their place is a format error": the validator pattern `_rx_symop_translation`, regenerated from p_cif.py
   as data on every run (Gen/C17_SymopRegex.v), accepts EXACTLY the sums of signed numbers / fractions of the
   reference recogniser `is_number_sum` (Model/C17_Regex.v) - for every string, with no bound on its length.
   Proof: a bisimulation between the pattern's derivatives and the recogniser's states, computed and checked by the
   kernel (13 pairs on the current tree), lifted to all strings through the character classes. *)
From Coq Require Import NArith List.
From DS Require Import Model.C17_Regex Gen.C17_SymopRegex Proofs.C17_RegexEq.

Theorem C17_symop_translation_is_number_sum : forall s, rmatch gen_rx_translation s = is_number_sum s.
Proof. exact gen_translation_is_number_sum. Qed.
Print Assumptions C17_symop_translation_is_number_sum.

(* the lifting lemma itself, for any pattern and any checked finite relation *)
Theorem C17_bisimulation_sound : forall B, bisim_ok B = true -> forall s r q, In (r, q) B -> rmatch r s = naccept (nrun q s).
Proof. exact bisim_sound. Qed.
