(* C15 - Supercell expansion reproduces the same crystal on a larger cell.
   Statements only; proofs in Proofs/C15_*.v.  `supercell`, `images`, `image`, `validate`, `scale_cell` are
   Model/C15_Supercell.v over Gen/C15_Spec.v (loop nest, coordinate formula, checks, shortcut and setLatPar call shape
   translated from the CURRENT supercell_mod.py).  P is the per-atom payload that Atom(a) copies (element, label,
   occupancy, tensor components, flag, extra attributes).  mno is a list of rationals (Python ints or finite floats).
   Freshness ("input not modified, nothing shared") is not a statement about values: it is checked on object identities
   by the correspondence run. *)
From Coq Require Import Reals ZArith QArith List Bool Permutation.
From DS Require Import Base.RMat Base.C09_GNum Gen.C15_Spec Model.C15_Supercell Proofs.C15_Lists Proofs.C15_Supercell.
Import ListNotations.

(* accepted exactly for three numbers >= 1 (then truncated by int()); everything else is ValueError *)
Theorem C15_rejects_others : forall (P : Type) (S : structure R P) mno,
  (supercell ROps S mno = ValueError <-> ~ exists x y z, mno = [x; y; z] /\ (1 <= x)%Q /\ (1 <= y)%Q /\ (1 <= z)%Q) /\
  (forall x y z, (1 <= x)%Q -> (1 <= y)%Q -> (1 <= z)%Q ->
     validate [x; y; z] = Ok (py_int x, py_int y, py_int z) /\ (1 <= py_int x /\ 1 <= py_int y /\ 1 <= py_int z)%Z) /\
  (forall k, py_int (inject_Z k) = k).
Proof.
  intros P S mno. split; [|split].
  - unfold supercell. rewrite <- validate_error. destruct (validate mno) as [[[l m] n]|]; [|tauto].
    destruct (triple_eqb (l, m, n) c15_shortcut); split; intros H; discriminate.
  - intros x y z Hx Hy Hz. split; [apply validate_ok; exists x, y, z; repeat split; assumption | repeat split; apply py_int_ge1; assumption].
  - exact py_int_inject.
Qed.
Print Assumptions C15_rejects_others.

(* a successful call: l m n >= 1 with the atoms grouped by parent in original order, every image carrying its parent's
   payload, and the cell with multiplied edges, unchanged angles and unchanged orientation matrix *)
Theorem C15_grouped_in_order : forall (P : Type) (S S' : structure R P) mno, supercell ROps S mno = Ok S' ->
  exists l m n, validate mno = Ok (Z.of_nat l, Z.of_nat m, Z.of_nat n) /\ (0 < l)%nat /\ (0 < m)%nat /\ (0 < n)%nat /\
    s_atoms S' = flat_map (images ROps l m n) (s_atoms S) /\ s_cell S' = scale_cell ROps l m n (s_cell S).
Proof. exact @supercell_ok. Qed.
Print Assumptions C15_grouped_in_order.

Theorem C15_images_carry_payload : forall (P : Type) l m n (a : atom R P),
  Forall (fun a' => at_pay a' = at_pay a) (images ROps l m n a) /\ images ROps l m n a = map (image ROps l m n a) (c15_ijklist l m n).
Proof. intros. split; [apply images_payload | reflexivity]. Qed.
Print Assumptions C15_images_carry_payload.

(* the images of the p-th input atom are the p-th block of l*m*n CONSECUTIVE atoms of the result (`expand` follows the
   loop nesting translated from the source: with `for ijk ..: for a in S` this statement fails) *)
Theorem C15_parent_images_consecutive : forall (P : Type) l m n (atoms : list (atom R P)) p d, (p < length atoms)%nat ->
  firstn (l * m * n) (skipn (p * (l * m * n)) (expand ROps l m n atoms)) = images ROps l m n (nth p atoms d).
Proof. intros P. exact (@parent_images_consecutive R ROps P). Qed.
Print Assumptions C15_parent_images_consecutive.

Theorem C15_count : forall (P : Type) l m n (atoms : list (atom R P)),
  length (flat_map (images ROps l m n) atoms) = (length atoms * (l * m * n))%nat.
Proof. intros. rewrite <- expand_grouped. apply expand_length. Qed.
Print Assumptions C15_count.

(* the shifts of one parent are exactly [0,l) x [0,m) x [0,n), each once *)
Theorem C15_images_complete_nodup : forall l m n,
  NoDup (c15_ijklist l m n) /\ (forall i j k, In (i, j, k) (c15_ijklist l m n) <-> (i < l /\ j < m /\ k < n)%nat) /\
  length (c15_ijklist l m n) = (l * m * n)%nat.
Proof. intros. split; [apply ijk_nodup | split; [intros; apply ijk_in | apply ijk_length]]. Qed.
Print Assumptions C15_images_complete_nodup.

(* with base' = diag(l,m,n) base (what multiplied edges with unchanged angles and orientation mean for the base):
   Cartesian position of image (i,j,k) = parent position + i a1 + j a2 + k a3 *)
Theorem C15_image_positions : forall (P : Type) l m n (a : atom R P) i j k (B : mat), (0 < l)%nat -> (0 < m)%nat -> (0 < n)%nat ->
  vmul (toV (at_xyz (image ROps l m n a (i, j, k)))) (mmul (dg3 (nR l) (nR m) (nR n)) B) =
  vadd (vmul (toV (at_xyz a)) B) (vadd (vscale (nR i) (row1 B)) (vadd (vscale (nR j) (row2 B)) (vscale (nR k) (row3 B)))).
Proof. exact @image_position. Qed.
Print Assumptions C15_image_positions.

Theorem C15_cell_scaled : forall l m n (c : cell R),
  let c' := scale_cell ROps l m n c in
  (c_a c' = nR l * c_a c /\ c_b c' = nR m * c_b c /\ c_c c' = nR n * c_c c /\
   c_alpha c' = c_alpha c /\ c_beta c' = c_beta c /\ c_gamma c' = c_gamma c /\ c_rot c' = c_rot c)%R.
Proof. exact scale_cell_spec. Qed.
Print Assumptions C15_cell_scaled.

(* expanding by (l1,m1,n1) and then by (l2,m2,n2) gives the cell of the one-step expansion by the products and, for every
   parent atom, the same images up to their order inside the parent's group: the image ((i1,j1,k1),(i2,j2,k2)) of the
   two-step result is the image (i1 + l1 i2, j1 + m1 j2, k1 + n1 k2) of the one-step result (Proofs.C15_Lists.reindex) *)
Theorem C15_two_steps_eq_product : forall (P : Type) (S S1 S2 : structure R P) mno1 mno2 l1 m1 n1 l2 m2 n2,
  validate mno1 = Ok (l1, m1, n1) -> validate mno2 = Ok (l2, m2, n2) ->
  supercell ROps S mno1 = Ok S1 -> supercell ROps S1 mno2 = Ok S2 ->
  exists S12, supercell ROps S [inject_Z (l1 * l2); inject_Z (m1 * m2); inject_Z (n1 * n2)] = Ok S12 /\
    s_cell S2 = s_cell S12 /\
    exists G2 G1, s_atoms S2 = flat_map G2 (s_atoms S) /\ s_atoms S12 = flat_map G1 (s_atoms S) /\
                  forall a, Permutation (G2 a) (G1 a).
Proof. exact @two_steps. Qed.
Print Assumptions C15_two_steps_eq_product.

(* images keep the parent's tensor components; since the scaled cell has reciprocal lengths ar/l, br/m, cr/n and base rows
   l a1, m a2, n a3, its normbase N' equals N and the tensor in Cartesian axes N^T U N is the same *)
Theorem C15_tensor_unchanged_cart : forall (U B N N' : mat) ar br cr l m n, (l <> 0 -> m <> 0 -> n <> 0 ->
  N = mmul (dg3 ar br cr) B -> N' = mmul (dg3 (ar / l) (br / m) (cr / n)) (mmul (dg3 l m n) B) ->
  mmul (mT N') (mmul U N') = mmul (mT N) (mmul U N))%R.
Proof. exact tensor_cart_unchanged. Qed.
Print Assumptions C15_tensor_unchanged_cart.

(* hypotheses are satisfiable: a concrete accepted call with a float multiplier, executed by the kernel *)
Local Open Scope Q_scope.
Example C15_example :
  exists S', supercell QOps (Struct [Atom (GV (1 # 2) 0 (1 # 3)) 7%nat] (Cell 2 3 4 90 90 120 (gI QOps))) [2; 1; 5 # 2] = Ok S' /\
             length (s_atoms S') = 4%nat.
Proof. eexists. split; [vm_compute; reflexivity | reflexivity]. Qed.
