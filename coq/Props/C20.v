(* C20 - The transtru command converts exactly as the library does and reports failures.
   Statements only; proofs live in Proofs/C20_*.v.  Every theorem is about `main cli_spec`, where
   `cli_spec` (Gen/C20_CliSpec.v) is regenerated from apps/transtru.py:main and the parser registry
   on every run.  Vocabulary (Model/C20_Cli.v):
     main sp argv W L      = what the process shows: r_out, r_err, r_status, r_tb (Some exception name
                             when it died with a traceback); argv is sys.argv[1:]
     W                     = standard input, the file system seen by Structure.read, usage/version texts
     L                     = the library: parseFile / readStr / writeStr, each giving what it printed
                             on stdout and its result or exception
     lib_convert W L f i o = the library's own read-then-write of f (or of stdin when f is "-")
     GO                    = getopt.getopt with "hV", ["help", "version"]
     reports r out code    = stdout is `out`, stderr is exactly one non-empty line, status `code`, no traceback *)
From Coq Require Import List ZArith Bool Ascii String.
From DS Require Import Model.C20_Cli Gen.C20_CliSpec Proofs.C20_Strings Proofs.C20_Table Proofs.C20_Theorems Proofs.C20_Witness.
Import ListNotations.
Open Scope string_scope.

(* the complete decision table of the current source *)
Theorem C20_decision_table : forall argv W L, table_prop argv W L (main cli_spec argv W L).
Proof. exact main_table. Qed.
Print Assumptions C20_decision_table.

(* every pair of registered formats, every file or stdin: stdout is what the library's read-then-write
   produced (its own prints first, then the text), stderr empty, status 0 *)
Theorem C20_ok_prints_library_text : forall i o file rest W L n text,
  In i input_formats -> In o output_formats -> lib_convert W L file i o = (n, Ok text) ->
  main cli_spec ((i ++ ".." ++ o) :: file :: rest) W L = mkres (n ++ text) "" 0%Z None.
Proof. exact ok_prints_library_text_argv. Qed.
Print Assumptions C20_ok_prints_library_text.

(* the same behind any accepted option prefix (e.g. `--`) *)
Theorem C20_ok_prints_library_text_general : forall argv W L opts a0 file rest i o n text,
  GO argv = GOk opts (a0 :: file :: rest) -> first_info opts = None ->
  split_first ".." a0 = Some (i, o) -> In i input_formats -> In o output_formats ->
  lib_convert W L file i o = (n, Ok text) ->
  main cli_spec argv W L = mkres (n ++ text) "" 0%Z None.
Proof. exact ok_prints_library_text. Qed.
Print Assumptions C20_ok_prints_library_text_general.

(* conversely, status 0 on a conversion request means the library converted and its text was printed *)
Theorem C20_status0_means_library_text : forall argv W L opts a0 rest,
  GO argv = GOk opts (a0 :: rest) -> first_info opts = None ->
  r_status (main cli_spec argv W L) = 0%Z ->
  exists i o file rest' n text,
    split_first ".." a0 = Some (i, o) /\ In i input_formats /\ In o output_formats /\ rest = file :: rest' /\
    lib_convert W L file i o = (n, Ok text) /\ main cli_spec argv W L = mkres (n ++ text) "" 0%Z None.
Proof. exact status0_means_library_text. Qed.
Print Assumptions C20_status0_means_library_text.

(* no `..`, an unregistered input format or an unregistered output format (`auto` included) *)
Theorem C20_bad_spec_is_2 : forall argv W L opts a0 rest,
  GO argv = GOk opts (a0 :: rest) -> first_info opts = None ->
  spec_ok cli_spec a0 = false -> no_nl a0 = true ->
  reports (main cli_spec argv W L) "" 2%Z.
Proof. exact bad_spec_is_2. Qed.
Print Assumptions C20_bad_spec_is_2.

Theorem C20_missing_file_arg_is_2 : forall argv W L opts a0,
  GO argv = GOk opts [a0] -> first_info opts = None -> spec_ok cli_spec a0 = true ->
  reports (main cli_spec argv W L) "" 2%Z.
Proof. exact missing_file_arg_is_2. Qed.
Print Assumptions C20_missing_file_arg_is_2.

Theorem C20_unknown_option_is_2 : forall argv W L m, GO argv = GErr m ->
  main cli_spec argv W L = mkres "" (m ++ nl) 2%Z None.
Proof. exact getopt_error_is_2. Qed.
Print Assumptions C20_unknown_option_is_2.

(* a file the operating system will not open (missing, directory, permission, ...) *)
Theorem C20_unreadable_is_1 : forall argv W L opts a0 file rest i o s se,
  GO argv = GOk opts (a0 :: file :: rest) -> first_info opts = None ->
  split_first ".." a0 = Some (i, o) -> In i input_formats -> In o output_formats ->
  String.eqb file "-" = false -> w_fs W file = FsError s se ->
  no_nl file = true -> no_nl se = true ->
  reports (main cli_spec argv W L) "" 1%Z.
Proof. exact unreadable_is_1. Qed.
Print Assumptions C20_unreadable_is_1.

(* content the library refuses while reading or writing: format error, unsupported record, undecodable bytes;
   stdout holds only what the library itself printed (nothing for a quiet library) *)
Theorem C20_bad_content_is_1 : forall argv W L opts a0 file rest i o n e,
  GO argv = GOk opts (a0 :: file :: rest) -> first_info opts = None ->
  split_first ".." a0 = Some (i, o) -> In i input_formats -> In o output_formats ->
  lib_convert W L file i o = (n, Raise e) -> content_kind (e_kind e) = true ->
  no_nl file = true -> no_nl (e_str e) = true ->
  reports (main cli_spec argv W L) n 1%Z.
Proof. exact bad_content_is_1. Qed.
Print Assumptions C20_bad_content_is_1.

Theorem C20_quiet_library_prints_nothing_else : forall W L file i o, quiet L -> fst (lib_convert W L file i o) = "".
Proof. exact quiet_convert. Qed.
Print Assumptions C20_quiet_library_prints_nothing_else.

(* given that the library raises only the documented kinds (IOError, StructureFormatError,
   NotImplementedError, UnicodeDecodeError), no command line whatsoever ends in a traceback *)
Theorem C20_no_traceback : forall argv W L, raises_only documented_kind L -> r_tb (main cli_spec argv W L) = None.
Proof. exact no_traceback. Qed.
Print Assumptions C20_no_traceback.

(* for EVERY library (also one raising IndexError): status 2 is given only for a faulty command line,
   status 1 only after the library refused a file that was named *)
Theorem C20_status2_only_for_command_line_errors : forall argv W L,
  r_status (main cli_spec argv W L) = 2%Z -> cmdline_error argv = true.
Proof. exact status2_only_for_command_line_errors. Qed.
Print Assumptions C20_status2_only_for_command_line_errors.

Theorem C20_status1_only_for_input_errors : forall argv W L,
  r_status (main cli_spec argv W L) = 1%Z ->
  exists opts a0 file rest i o n e,
    GO argv = GOk opts (a0 :: file :: rest) /\ split_first ".." a0 = Some (i, o) /\
    lib_convert W L file i o = (n, Raise e).
Proof. exact status1_only_for_input_errors. Qed.
Print Assumptions C20_status1_only_for_input_errors.

(* `transtru` without any argument is the usage case: brief usage on stdout, status 0 *)
Theorem C20_no_arguments_is_usage_0 : forall argv W L opts, GO argv = GOk opts [] -> first_info opts = None ->
  main cli_spec argv W L = mkres (w_brief W) "" 0%Z None.
Proof. exact no_arguments_is_usage_0. Qed.
Print Assumptions C20_no_arguments_is_usage_0.

Theorem C20_help_is_0 : forall argv W L opts args, GO argv = GOk opts args -> first_info opts = Some true ->
  main cli_spec argv W L = mkres (w_usage W) "" 0%Z None.
Proof. exact help_is_0. Qed.
Print Assumptions C20_help_is_0.

(* ---- the unconditional reading of the property text is refuted by the faithful model; the hypotheses above are needed *)
(* "no traceback" for a library that lets another exception kind escape (C13's subject) *)
Theorem C20_no_traceback_for_any_library_refuted : exists argv W L,
  r_tb (main cli_spec argv W L) = Some "TypeError" /\ r_status (main cli_spec argv W L) = 1%Z.
Proof. exact traceback_when_library_escapes. Qed.
Print Assumptions C20_no_traceback_for_any_library_refuted.

(* "one-line message" when the library's message has several lines (format `auto`) *)
Theorem C20_one_line_for_any_message_refuted : exists argv W L,
  raises_only documented_kind L /\ quiet L /\ r_status (main cli_spec argv W L) = 1%Z /\
  ~ one_line (r_err (main cli_spec argv W L)).
Proof. exact multiline_message_not_one_line. Qed.
Print Assumptions C20_one_line_for_any_message_refuted.

(* "nothing on standard output" when the library prints while failing (PyCifRW's banner) *)
Theorem C20_empty_stdout_for_any_library_refuted : exists argv W L,
  raises_only documented_kind L /\ r_status (main cli_spec argv W L) = 1%Z /\ r_out (main cli_spec argv W L) <> "".
Proof. exact noisy_library_pollutes_stdout. Qed.
Print Assumptions C20_empty_stdout_for_any_library_refuted.

(* "one-line message" when an argument itself contains a newline *)
Theorem C20_one_line_for_any_argument_refuted : exists argv W L,
  r_status (main cli_spec argv W L) = 2%Z /\ ~ one_line (r_err (main cli_spec argv W L)).
Proof. exact newline_in_argument_not_one_line. Qed.
Print Assumptions C20_one_line_for_any_argument_refuted.
