(* Extraction of the executable C08 model for the correspondence driver.
   In effect: ExtrOcamlBasic (bool, option, list, prod, unit, sumbool -> OCaml types);
   nat, Z, positive stay as the extracted inductive types. *)
From Coq Require Import Extraction ExtrOcamlBasic ZArith.
From DS Require Import Model.C08_StructHeap.
Extraction Language OCaml.
Extraction "c08_model.ml" step current pinned empty_world.
