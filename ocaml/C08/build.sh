#!/bin/bash
# builds ocaml/C08/c08_driver from coq/Model/C08_StructHeap.v (extraction) + c08_driver.ml
set -e
cd "$(dirname "$0")"
COQ=../../coq
if [ ! -f $COQ/Model/C08_StructHeap.vo ] || [ $COQ/Model/C08_StructHeap.v -nt $COQ/Model/C08_StructHeap.vo ]; then
  (cd $COQ && timeout 600 coqc -R . DS Model/C08_StructHeap.v)
fi
mkdir -p _build
cp c08_extract.v c08_driver.ml _build/
cd _build
timeout 600 coqc -R ../$COQ DS c08_extract.v >/dev/null
timeout 600 ocamlfind ocamlopt -w -a -O2 c08_model.mli c08_model.ml c08_driver.ml -o ../c08_driver 2>/dev/null || \
timeout 600 ocamlfind ocamlopt -w -a c08_model.mli c08_model.ml c08_driver.ml -o ../c08_driver
echo built c08_driver
