(* Trusted glue: reads one operation sequence per line, runs the extracted C08 model from the empty
   world and prints the outcome and the whole world after EVERY step.
   usage: c08_driver current|pinned  < cases > states
   line   : op ; op ; ...          op = Name int int ...   (N = None)
   output : one line per step  "R <outcome>;G <repoint> <dup>;O <obj>|<obj>...;H tag:lat ..." and "END" after each sequence *)
open C08_model

let rec nat_of_int n = if n <= 0 then O else S (nat_of_int (n - 1))
let rec int_of_nat = function O -> 0 | S k -> 1 + int_of_nat k
let rec pos_of_int n = if n = 1 then XH else if n land 1 = 1 then XI (pos_of_int (n lsr 1)) else XO (pos_of_int (n lsr 1))
let z_of_int n = if n = 0 then Z0 else if n > 0 then Zpos (pos_of_int n) else Zneg (pos_of_int (-n))
let rec int_of_pos = function XH -> 1 | XO p -> 2 * int_of_pos p | XI p -> 2 * int_of_pos p + 1
let int_of_z = function Z0 -> 0 | Zpos p -> int_of_pos p | Zneg p -> - (int_of_pos p)

exception Bad of string

let parse_op (s : string) : op =
  let toks = List.filter (fun t -> t <> "") (String.split_on_char ' ' (String.trim s)) in
  match toks with
  | [] -> raise (Bad "empty op")
  | name :: args ->
    let a = Array.of_list args in
    let pos = ref 0 in
    let next () = if !pos >= Array.length a then raise (Bad ("too few arguments: " ^ s)) else (let t = a.(!pos) in incr pos; t) in
    let int () = int_of_string (next ()) in
    let nat () = nat_of_int (int ()) in
    let z () = z_of_int (int ()) in
    let zopt () = let t = next () in if t = "N" then None else Some (z_of_int (int_of_string t)) in
    let bool () = int () <> 0 in
    let many f = let k = int () in List.init k (fun _ -> f ()) in
    let aref () = let o = nat () in let i = z () in { r_obj = o; r_idx = i } in
    let slice () = let x = zopt () in let y = zopt () in let t = zopt () in { s_start = x; s_stop = y; s_step = t } in
    let latarg () = let k = int () in if k = -2 then LatNew else LatOf (nat_of_int k) in
    let latopt () = let k = int () in if k = -1 then None else if k = -2 then Some LatNew else Some (LatOf (nat_of_int k)) in
    let cflag () = match int () with 0 -> CNone | 1 -> CTrue | _ -> CFalse in
    let pay () = let e = z () in let l = z () in let x = z () in let o = z () in { p_elem = e; p_label = l; p_xyz = x; p_occ = o } in
    let col () = match int () with 0 -> ColElem | 1 -> ColLabel | 2 -> ColXyz | _ -> ColOcc in
    let colopt () = let k = int () in if k < 0 then None else Some (match k with 0 -> ColElem | 1 -> ColLabel | 2 -> ColXyz | _ -> ColOcc) in
    let r =
      match name with
      | "NewStruct" -> NewStruct
      | "NewList" -> NewList (many pay)
      | "ListOf" -> ListOf (many aref)
      | "AddNewAtom" -> let h = nat () in let t = pay () in AddNewAtom (h, t)
      | "Construct" -> let h = nat () in let l = latopt () in Construct (h, l)
      | "Append" -> let h = nat () in let r = aref () in let c = bool () in Append (h, r, c)
      | "Insert" -> let h = nat () in let i = z () in let r = aref () in let c = bool () in Insert (h, i, r, c)
      | "Extend" -> let h = nat () in let s = nat () in let c = cflag () in Extend (h, s, c)
      | "GetInt" -> let h = nat () in let i = z () in GetInt (h, i)
      | "GetSlice" -> let h = nat () in let sl = slice () in GetSlice (h, sl)
      | "GetIdx" -> let h = nat () in let tup = bool () in
          let l = many (fun () -> let k = int () in let v = z () in if k = 0 then LInt v else LLab v) in GetIdx (h, l, tup)
      | "GetMask" -> let h = nat () in let m = many bool in GetMask (h, m)
      | "GetLabel" -> let h = nat () in let t = z () in GetLabel (h, t)
      | "SetInt" -> let h = nat () in let i = z () in let r = aref () in let c = bool () in SetInt (h, i, r, c)
      | "SetSlice" -> let h = nat () in let sl = slice () in let v = nat () in let c = bool () in SetSlice (h, sl, v, c)
      | "DelInt" -> let h = nat () in let i = z () in DelInt (h, i)
      | "DelSlice" -> let h = nat () in let sl = slice () in DelSlice (h, sl)
      | "Pop" -> let h = nat () in let i = zopt () in Pop (h, i)
      | "Remove" -> let h = nat () in let r = aref () in Remove (h, r)
      | "Reverse" -> Reverse (nat ())
      | "Clear" -> Clear (nat ())
      | "Add" -> let h = nat () in let s = nat () in Add (h, s)
      | "Sub" -> let h = nat () in let s = nat () in Sub (h, s)
      | "Mul" -> let h = nat () in let n = z () in Mul (h, n)
      | "IAdd" -> let h = nat () in let s = nat () in IAdd (h, s)
      | "ISub" -> let h = nat () in let s = nat () in ISub (h, s)
      | "IMul" -> let h = nat () in let n = z () in IMul (h, n)
      | "Copy" -> Copy (nat ())
      | "CopyInto" -> let h = nat () in let t = nat () in CopyInto (h, t)
      | "SetLattice" -> let h = nat () in let l = latarg () in let p = bool () in SetLattice (h, l, p)
      | "Pickle" -> let h = nat () in let hi = bool () in Pickle (h, hi)
      | "DeepCopy" -> DeepCopy (nat ())
      | "Tolist" -> Tolist (nat ())
      | "SetCol" -> let h = nat () in let c = col () in let t = many z in SetCol (h, c, t)
      | "Sort" -> let h = nat () in let k = colopt () in let r = bool () in Sort (h, k, r)
      | "AssignUniqueLabels" -> AssignUniqueLabels (nat ())
      | "GetLast" -> GetLast (nat ())
      | "GetCol" -> let h = nat () in let c = col () in GetCol (h, c)
      | "Composition" -> Composition (nat ())
      | _ -> raise (Bad ("unknown op " ^ name)) in
    if !pos <> Array.length a then raise (Bad ("too many arguments: " ^ s));
    r

let show_outcome = function
  | Done RNone -> "done none"
  | Done (RAtom a) -> Printf.sprintf "done atom %d" (int_of_nat a)
  | Done (RObj h) -> Printf.sprintf "done obj %d" (int_of_nat h)
  | Done (RVals l) -> "done vals " ^ String.concat " " (List.map (fun v -> string_of_int (int_of_z v)) l)
  | Raised EIndex -> "raise IndexError"
  | Raised EValue -> "raise ValueError"
  | Raised EType -> "raise TypeError"
  | Raised EBadObj -> "raise BadObj"
  | Diverges -> "div"

let show_items its = String.concat " " (List.map (fun a -> string_of_int (int_of_nat a)) its)

let show_world (w : world) =
  let o = String.concat "|" (List.map (function
      | OStruct (its, l) -> Printf.sprintf "S %d %s" (int_of_nat l) (show_items its)
      | OList its -> Printf.sprintf "L %s" (show_items its)) w.objs) in
  let h = String.concat " " (List.map (fun c ->
      Printf.sprintf "%d,%d,%d,%d:%s" (int_of_z c.c_tag.p_elem) (int_of_z c.c_tag.p_label) (int_of_z c.c_tag.p_xyz) (int_of_z c.c_tag.p_occ) (match c.c_lat with None -> "N" | Some l -> string_of_int (int_of_nat l))) w.heap) in
  Printf.sprintf "G %d %d;O %s;H %s" (if w.g_repoint then 1 else 0) (if w.g_dup then 1 else 0) o h

let () =
  let v = if Array.length Sys.argv > 1 && Sys.argv.(1) = "pinned" then pinned (nat_of_int 64) else current in
  try
    while true do
      let line = input_line stdin in
      let ops = List.filter (fun s -> String.trim s <> "") (String.split_on_char ';' line) in
      let w = ref empty_world in
      (try
        List.iter (fun s ->
          let o = parse_op s in
          let (w', out) = step v o !w in
          w := w';
          print_string ("R " ^ show_outcome out ^ ";" ^ show_world w' ^ "\n")) ops
      with Bad m -> print_string ("BAD " ^ m ^ "\n"));
      print_string "END\n"
    done
  with End_of_file -> ()
