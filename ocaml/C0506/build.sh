#!/bin/bash
# Extract the C05/C06 certificate checker from the compiled Coq development and build the driver.
# Rebuilds only when the extracted code changed.  Called by ./check setup and by vlib/props/c05.py, c06.py.
set -e
cd "$(dirname "$0")"
COQ=../../coq
mkdir -p _build
cd _build
cp ../extract.v ../driver.ml .
timeout 600 coqc -R ../$COQ DS -w none extract.v > extract.log 2>&1 || { cat extract.log; exit 1; }
H=$(cat c0506_checker.ml c0506_checker.mli driver.ml | sha1sum | cut -d' ' -f1)
if [ -x ../c0506_checker ] && [ -f ../.hash ] && [ "$(cat ../.hash)" = "$H" ]; then
  echo "c0506_checker up to date"
  exit 0
fi
timeout 800 ocamlfind ocamlopt -O2 -w -a -package str c0506_checker.mli c0506_checker.ml driver.ml -o c0506_checker.tmp 2> build.log \
  || timeout 800 ocamlfind ocamlopt -w -a c0506_checker.mli c0506_checker.ml driver.ml -o c0506_checker.tmp 2> build.log || { cat build.log; exit 1; }
mv c0506_checker.tmp ../c0506_checker
echo "$H" > ../.hash
echo "c0506_checker rebuilt"
