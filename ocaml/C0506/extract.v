(* C05/C06 - extraction of the certificate checker.  Only ExtrOcamlBasic mappings are in effect:
   bool, option, list, prod, unit, sumbool -> OCaml's; Z, positive, nat, Q stay extracted inductives. *)
From Coq Require Import Extraction ExtrOcamlBasic.
From DS Require Import Model.C05_Run.
Extraction Language OCaml.
Extraction "c0506_checker.ml" c0506_run.
