(* Trusted glue: reads one case per line (whitespace-separated decimal integers), converts them to the
   extracted Z, calls the extracted C0506_checker.c0506_run and prints the resulting integers. *)
module C = C0506_checker

let pos_of_decimal (s : string) : C.positive =
  (* s: non-empty string of digits, value >= 1; repeated halving of the digit array *)
  let n = String.length s in
  let d = Array.init n (fun i -> Char.code s.[i] - 48) in
  let start = ref 0 in
  let is_one () = (!start = n - 1) && d.(n - 1) = 1 in
  let halve () =
    let r = ref 0 in
    for i = !start to n - 1 do
      let v = !r * 10 + d.(i) in
      d.(i) <- v / 2; r := v mod 2
    done;
    while !start < n - 1 && d.(!start) = 0 do incr start done;
    !r in
  (* collect bits little-endian, then build *)
  let bits = ref [] in
  while not (is_one ()) do bits := (halve ()) :: !bits done;
  List.fold_left (fun p b -> if b = 0 then C.XO p else C.XI p) C.XH !bits

let z_of_string (s : string) : C.z =
  let neg = String.length s > 0 && s.[0] = '-' in
  let body = if neg || (String.length s > 0 && s.[0] = '+') then String.sub s 1 (String.length s - 1) else s in
  if body = "" then failwith "empty integer";
  String.iter (fun c -> if c < '0' || c > '9' then failwith ("bad integer " ^ s)) body;
  let i = ref 0 in
  while !i < String.length body - 1 && body.[!i] = '0' do incr i done;
  let body = String.sub body !i (String.length body - !i) in
  if body = "0" then C.Z0 else if neg then C.Zneg (pos_of_decimal body) else C.Zpos (pos_of_decimal body)

let rec int_of_pos = function C.XH -> 1 | C.XO p -> 2 * int_of_pos p | C.XI p -> 2 * int_of_pos p + 1
let int_of_z = function C.Z0 -> 0 | C.Zpos p -> int_of_pos p | C.Zneg p -> - (int_of_pos p)

let () =
  try
    while true do
      let line = input_line stdin in
      let toks = List.filter (fun t -> t <> "") (String.split_on_char ' ' (String.trim line)) in
      if toks <> [] then begin
        let res =
          try List.map int_of_z (C.c0506_run (List.map z_of_string toks))
          with Failure _ -> [-3] | Stack_overflow -> [-4] in
        print_string (String.concat " " ("R" :: List.map string_of_int res));
        print_newline ()
      end
    done
  with End_of_file -> ()
