#!/bin/bash
# builds ocaml/C13/c13_driver from the compiled Coq development (coq/Model/C13_*.vo must exist)
set -e
cd "$(dirname "$0")"
mkdir -p _build
cp extract.v driver.ml _build/
cd _build
coqc -R ../../../coq DS -w none extract.v > /dev/null
ocamlfind ocamlopt -O2 -w -a c13_model.mli c13_model.ml driver.ml -o ../c13_driver 2>/dev/null || ocamlfind ocamlopt -w -a c13_model.mli c13_model.ml driver.ml -o ../c13_driver
echo built
