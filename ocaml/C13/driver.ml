(* C13 driver: runs the extracted parser models; every oracle is answered by the live Python primitive.

   Protocol (line based, stdin/stdout):
     harness -> driver :  CASE <fmt> <nlines>     followed by <nlines> lines, each the hex of the UTF-8 bytes ("-" = empty)
     driver  -> harness:  Q <oracle> <args...>    (strings in hex, values as integer handles)
     harness -> driver :  ok <payload>  |  raise <Kind>
     driver  -> harness:  RESULT ok <natoms>  |  RESULT raise <Kind>
   Trusted glue: this file, the hex / integer conversions, the line protocol. *)
open C13_model

let hex_of_chars (cl : char list) : string =
  match cl with
  | [] -> "-"
  | _ -> String.concat "" (List.map (fun c -> Printf.sprintf "%02x" (Char.code c)) cl)

let chars_of_hex (s : string) : char list =
  if s = "-" then [] else begin
    let n = String.length s / 2 in
    let rec go i acc = if i < 0 then acc else go (i - 1) (Char.chr (int_of_string ("0x" ^ String.sub s (2 * i) 2)) :: acc) in
    go (n - 1) []
  end

let rec nat_of_int (n : int) : nat = if n <= 0 then O else S (nat_of_int (n - 1))
let int_of_nat (n : nat) : int = let rec go n acc = match n with O -> acc | S m -> go m (acc + 1) in go n 0

let z_small (n : int) : z = Z.of_nat (nat_of_int n)
let z_ten = z_small 10

(* decimal string (optional leading '-') -> Z *)
let z_of_string (s : string) : z =
  let neg = String.length s > 0 && s.[0] = '-' in
  let acc = ref Z0 in
  String.iteri (fun i c -> if not (i = 0 && neg) then acc := Z.add (Z.mul !acc z_ten) (z_small (Char.code c - 48))) s;
  match !acc with
  | Z0 -> Z0
  | Zpos p -> if neg then Zneg p else Zpos p
  | Zneg p -> Zneg p

let rec bits (p : positive) (buf : Buffer.t) : unit =
  match p with
  | XH -> Buffer.add_char buf '1'
  | XO q -> bits q buf; Buffer.add_char buf '0'
  | XI q -> bits q buf; Buffer.add_char buf '1'

let string_of_z (x : z) : string =
  match x with
  | Z0 -> "0"
  | Zpos p -> let b = Buffer.create 16 in bits p b; "0b" ^ Buffer.contents b
  | Zneg p -> let b = Buffer.create 16 in bits p b; "-0b" ^ Buffer.contents b

let kind_of_string (s : string) : kind =
  match s with
  | "ValueError" -> ValueError | "IndexError" -> IndexError | "KeyError" -> KeyError | "TypeError" -> TypeError
  | "StopIteration" -> StopIteration | "ZeroDivisionError" -> ZeroDivisionError | "OverflowError" -> OverflowError
  | "UnboundLocalError" -> UnboundLocalError | "NameError" -> NameError | "AttributeError" -> AttributeError
  | "SyntaxError" -> SyntaxError | "AssertionError" -> AssertionError | "RecursionError" -> RecursionError
  | "MemoryError" -> MemoryError | "UnicodeError" -> UnicodeError | "LinAlgError" -> LinAlgError
  | "LatticeError" -> LatticeError | "SymmetryError" -> SymmetryError | "StarError" -> StarError
  | "YappsSyntaxError" -> YappsSyntaxError | "FormatError" -> FormatError | "NotImplemented" -> NotImplemented
  | "LookupError" -> LookupError | "ArithmeticError" -> ArithmeticError | "RuntimeError" -> RuntimeError
  | "OSError" -> OSError | _ -> ExceptionK

let string_of_kind (k : kind) : string =
  match k with
  | ValueError -> "ValueError" | IndexError -> "IndexError" | KeyError -> "KeyError" | TypeError -> "TypeError"
  | StopIteration -> "StopIteration" | ZeroDivisionError -> "ZeroDivisionError" | OverflowError -> "OverflowError"
  | UnboundLocalError -> "UnboundLocalError" | NameError -> "NameError" | AttributeError -> "AttributeError"
  | SyntaxError -> "SyntaxError" | AssertionError -> "AssertionError" | RecursionError -> "RecursionError"
  | MemoryError -> "MemoryError" | UnicodeError -> "UnicodeError" | LinAlgError -> "LinAlgError"
  | LatticeError -> "LatticeError" | SymmetryError -> "SymmetryError" | StarError -> "StarError"
  | YappsSyntaxError -> "YappsSyntaxError" | FormatError -> "FormatError" | NotImplemented -> "NotImplemented"
  | LookupError -> "LookupError" | ArithmeticError -> "ArithmeticError" | RuntimeError -> "RuntimeError"
  | OSError -> "OSError" | ExceptionK -> "Exception"

let words (s : string) : string list = List.filter (fun w -> w <> "") (String.split_on_char ' ' s)

(* ask the harness; the reply is split into words *)
let ask (q : string) : string list =
  print_string ("Q " ^ q); print_newline (); flush stdout;
  words (input_line stdin)

exception Protocol of string

let reply_res (r : string list) (payload : string list -> 'a) : 'a res =
  match r with
  | "ok" :: rest -> Ok (payload rest)
  | ["raise"; k] -> Raise (kind_of_string k)
  | _ -> raise (Protocol (String.concat " " r))

let reply_total (r : string list) (payload : string list -> 'a) : 'a =
  match r with
  | "ok" :: rest -> payload rest
  | _ -> raise (Protocol (String.concat " " r))

let hlist (l : int list) : string = match l with [] -> "-" | _ -> String.concat "," (List.map string_of_int l)
let hlistlist (l : int list list) : string = match l with [] -> "=" | _ -> String.concat ";" (List.map hlist l)
let hopt (o : int option) : string = match o with None -> "N" | Some h -> string_of_int h
let hoptlist (l : int option list) : string = String.concat "," (List.map hopt l)
let hoptrow (o : int list option) : string = match o with None -> "N" | Some l -> hlist l

(* ---- the oracles ----------------------------------------------------------------------------- *)
let o_split s = reply_total (ask ("split " ^ hex_of_chars s)) (List.map chars_of_hex)
let o_split_commas s = reply_total (ask ("split_commas " ^ hex_of_chars s)) (List.map chars_of_hex)
let o_isblank s = reply_total (ask ("isblank " ^ hex_of_chars s)) (fun p -> p = ["1"])
let o_strip s = reply_total (ask ("strip " ^ hex_of_chars s)) (fun p -> match p with [] -> [] | w :: _ -> chars_of_hex w)
let o_float s : int res = reply_res (ask ("float " ^ hex_of_chars s)) (fun p -> int_of_string (List.hd p))
let o_int s : z res = reply_res (ask ("int " ^ hex_of_chars s)) (fun p -> z_of_string (List.hd p))
let o_canon_int s = reply_total (ask ("canon_int " ^ hex_of_chars s)) (fun p -> p = ["1"])
let o_lattice (l : int list) : unit res = reply_res (ask ("lattice " ^ hlist l)) (fun _ -> ())
let o_mulz (v : int) (x : z) : int res = reply_res (ask ("mulz " ^ string_of_int v ^ " " ^ string_of_z x)) (fun p -> int_of_string (List.hd p))
let o_set_lat_par_hist (h : int list list) (l : int list) : unit res =
  reply_res (ask ("set_lat_par_hist " ^ hlistlist h ^ " " ^ hlist l)) (fun _ -> ())
let o_cell_pars (h : int list list) : int list =
  reply_total (ask ("cell_pars " ^ hlistlist h)) (List.map int_of_string)
let o_first_word_from (n : nat) s : char list option =
  reply_total (ask ("first_word_from " ^ string_of_int (int_of_nat n) ^ " " ^ hex_of_chars s))
    (fun p -> match p with [] -> None | w :: _ -> Some (chars_of_hex w))
let o_aux_match s : (char list * nat) option =
  reply_total (ask ("aux_match " ^ hex_of_chars s))
    (fun p -> match p with [d; e] -> Some (chars_of_hex d, nat_of_int (int_of_string e)) | _ -> None)
let o_lat_base (h : int option list) : unit res = reply_res (ask ("lat_base " ^ hoptlist h)) (fun _ -> ())
let o_aux_assign s : unit res = reply_res (ask ("aux_assign " ^ hex_of_chars s)) (fun _ -> ())
let o_set_lat_par (l : int list) : unit res = reply_res (ask ("set_lat_par " ^ hlist l)) (fun _ -> ())

let lat_string (l : int lat_state) : string =
  match l with
  | LDefault -> "D"
  | LPar p -> "P:" ^ hlist p
  | LBase rows -> "B:" ^ String.concat "/" (List.map hoptrow rows)

let o_scale3 (l : int lat_state) (sc : int list option list) (su : int option list) : (bool * bool) res =
  reply_res (ask ("scale3 " ^ lat_string l ^ " " ^ String.concat "/" (List.map hoptrow sc) ^ " " ^ hoptlist su))
    (fun p -> match p with [a; b] -> (a = "1", b = "1") | _ -> raise (Protocol "scale3"))
let o_set_xyz_cartn (l : int lat_state) (rc : int list) : unit res =
  reply_res (ask ("set_xyz_cartn " ^ lat_string l ^ " " ^ hlist rc)) (fun _ -> ())
let o_dot_scale (l : int lat_state) (rc : int list) : unit res =
  reply_res (ask ("dot_scale " ^ lat_string l ^ " " ^ hlist rc)) (fun _ -> ())

let run (fmt : string) (lines : char list list) : nat res =
  match fmt with
  | "xyz" -> parse_xyz o_split o_int o_canon_int o_float lines
  | "rawxyz" -> parse_rawxyz o_split o_float lines
  | "pdffit" -> parse_pdffit o_split o_split_commas o_isblank o_float o_int o_lattice o_mulz lines
  | "discus" -> parse_discus o_split o_split_commas o_isblank o_float o_int o_set_lat_par_hist o_cell_pars o_lattice o_mulz lines
  | "xcfg" -> parse_xcfg o_split o_isblank o_float o_int o_first_word_from o_aux_match o_lat_base o_aux_assign lines
  | "pdb" -> parse_pdb o_split o_isblank o_strip o_float o_set_lat_par o_scale3 o_set_xyz_cartn o_dot_scale lines
  | _ -> raise (Protocol ("unknown format " ^ fmt))

let () =
  try
    while true do
      match words (input_line stdin) with
      | ["CASE"; fmt; n] ->
          let n = int_of_string n in
          let lines = List.init n (fun _ -> chars_of_hex (String.trim (input_line stdin))) in
          (match (try run fmt lines with Protocol m -> (print_string ("RESULT protocol " ^ m); print_newline (); flush stdout; raise Exit)) with
           | Ok k -> print_string ("RESULT ok " ^ string_of_int (int_of_nat k))
           | Raise k -> print_string ("RESULT raise " ^ string_of_kind k));
          print_newline (); flush stdout
      | _ -> ()
    done
  with End_of_file | Exit -> ()
