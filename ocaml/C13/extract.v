(* C13 - extraction of the parser models (ExtrOcamlBasic + ExtrOcamlString only; Z / positive / nat stay the
   extracted inductive types).  The oracles become function arguments; the driver answers them by asking the
   live Python primitives. *)
From Coq Require Extraction ExtrOcamlBasic ExtrOcamlString.
From Coq Require Import ZArith.
From DS Require Import Base.C13_Exn Model.C13_Xyz Model.C13_Pdffit Model.C13_Discus Model.C13_Xcfg Model.C13_Pdb.
Extraction Language OCaml.
Set Extraction Output Directory ".".
Extraction "c13_model.ml" parse_xyz parse_rawxyz parse_pdffit parse_discus parse_xcfg parse_pdb Z.add Z.mul Z.of_nat.
