#!/bin/bash
# builds ocaml/C04/c04_driver from the compiled Coq development (coq/Model/C04_Wire.vo must exist)
set -e
cd "$(dirname "$0")"
mkdir -p _build
cp extract.v driver.ml _build/
cd _build
coqc -R ../../../coq DS -w none extract.v > /dev/null
ocamlfind ocamlopt -O2 -w -a c04_model.mli c04_model.ml driver.ml -o ../c04_driver 2>/dev/null || ocamlfind ocamlopt -w -a c04_model.mli c04_model.ml driver.ml -o ../c04_driver
echo built
