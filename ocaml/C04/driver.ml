(* line protocol: fmt TAB op TAB hex(token) TAB hex(token) ...   ->   "N" | "S" TAB hex TAB hex ... *)
let explode s = List.init (String.length s) (String.get s)
let implode l = let b = Buffer.create 64 in List.iter (Buffer.add_char b) l; Buffer.contents b
let unhex s = if s = "_" then [] else
  let n = String.length s / 2 in
  List.init n (fun i -> Char.chr (int_of_string ("0x" ^ String.sub s (2 * i) 2)))
let hex l = let b = Buffer.create 64 in List.iter (fun c -> Buffer.add_string b (Printf.sprintf "%02x" (Char.code c))) l; Buffer.contents b
let () =
  try
    while true do
      let line = input_line stdin in
      (match String.split_on_char '\t' line with
       | fmt :: op :: toks ->
           let toks = List.map unhex toks in
           (match C04_model.wire_run (explode fmt) (explode op) toks with
            | None -> print_string "N\n"
            | Some out -> print_string ("S" ^ String.concat "" (List.map (fun t -> "\t" ^ (match hex t with "" -> "." | h -> h)) out) ^ "\n"))
       | _ -> print_string "E\n");
      flush stdout
    done
  with End_of_file -> ()
