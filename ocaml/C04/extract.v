(* C04 - extraction of the executable codec models (ExtrOcamlBasic + ExtrOcamlString only;
   N / Z / positive / nat stay the extracted inductive types). *)
From Coq Require Extraction ExtrOcamlBasic ExtrOcamlString.
From DS Require Import Model.C04_Wire.
Extraction Language OCaml.
Set Extraction Output Directory ".".
Extraction "c04_model.ml" wire_run.
