"""Fail-closed translator for C13: exception layout of every parser -> Gen/C13_ExcSpec.v

For every reader-side function of parsers/p_<fmt>.py it extracts
  * every try/except: the caught exception tuple (as Coq `kind`s), and the handler class
    (ReraiseFormat = builds/raises StructureFormatError; Swallow = no raise in the handler; OtherHandler),
  * every raising *site* (statement class that can raise) together with the chain of try-blocks that
    enclose it (empty chain = outside any try): index, index_store, next, float, int, div, assert,
    call:<callee> for every callee not known to be total, raise:<class>, strformat,
    unbound:<local> (use of a local that is not definitely assigned on every path; structured
    definite-assignment analysis), none_use:<local> (dereference / arithmetic on a local that may still
    hold the None it was initialised with).
The Coq models take the caught tuples from the generated file; the site lists are compared (in Coq, by
reflexivity) with the layout the hand-written models were written for, so that moving a statement out
of a try, adding a raising statement or changing an except clause breaks an obligation.

Anything outside the recognised statement/expression classes raises TranslatorRefusal.
"""
import ast
import os

from vlib.core import SRC, TranslatorRefusal

SETUP = True

FORMATS = ["xyz", "rawxyz", "pdffit", "discus", "pdb", "xcfg", "cif"]

# writer-side / factory functions: not part of reading
WRITER_FUNCS = {"toLines", "tostring", "titleLines", "cryst1Lines", "atomLines", "getParser", "__init__"}

KIND_OF = {
    "ValueError": "ValueError", "IndexError": "IndexError", "KeyError": "KeyError", "TypeError": "TypeError",
    "StopIteration": "StopIteration", "ZeroDivisionError": "ZeroDivisionError", "OverflowError": "OverflowError",
    "UnboundLocalError": "UnboundLocalError", "NameError": "NameError", "AttributeError": "AttributeError",
    "SyntaxError": "SyntaxError", "AssertionError": "AssertionError", "LatticeError": "LatticeError",
    "SymmetryError": "SymmetryError", "StarError": "StarError", "YappsSyntaxError": "YappsSyntaxError",
    "StructureFormatError": "FormatError", "NotImplementedError": "NotImplemented", "LookupError": "LookupError",
    "ArithmeticError": "ArithmeticError", "RuntimeError": "RuntimeError", "Exception": "ExceptionK",
    "LinAlgError": "LinAlgError", "UnicodeError": "UnicodeError", "OSError": "OSError", "IOError": "OSError",
    "RecursionError": "RecursionError", "MemoryError": "MemoryError",
}

# callees that never raise on the argument types they get here (str/list/dict methods, constructors of
# empty containers, numpy constructors with literal shapes, ...)
SAFE_CALLS = {
    "split", "strip", "lstrip", "rstrip", "find", "replace", "lower", "upper", "join", "startswith", "endswith",
    "len", "range", "iter", "list", "sorted", "reversed", "isinstance", "str", "zip", "enumerate", "dict", "tuple",
    "get", "keys", "items", "values", "clear", "append", "extend", "insert", "update", "fromkeys", "group", "end",
    "match", "compile", "zeros", "identity", "transpose", "all", "any", "fabs", "asarray", "array", "abs",
    "Structure", "PDFFitStructure", "getLastAtom", "isfloat", "exc_info", "with_traceback", "StringIO",
    "StructureFormatError", "NotImplementedError", "format", "abcABG", "isanisotropic", "hasattr", "sum", "bool",
    "_linesIterator", "staticmethod", "contextmanager", "floor", "re_split", "set", "add",
}


def _refuse(fn, node, why):
    raise TranslatorRefusal("%s:%s: %s" % (os.path.basename(fn), getattr(node, "lineno", "?"), why))


def callee_name(f):
    if isinstance(f, ast.Name):
        return f.id
    if isinstance(f, ast.Attribute):
        return f.attr
    return "<expr>"


class State:
    __slots__ = ("assigned", "nonnone", "dead")

    def __init__(self, assigned=frozenset(), nonnone=frozenset(), dead=False):
        self.assigned, self.nonnone, self.dead = frozenset(assigned), frozenset(nonnone), dead

    def copy(self):
        return State(self.assigned, self.nonnone, self.dead)

    def key(self):
        return (self.assigned, self.nonnone, self.dead)


def join(states):
    live = [s for s in states if s is not None and not s.dead]
    if not live:
        return State(dead=True)
    a = frozenset.intersection(*[s.assigned for s in live])
    n = frozenset.intersection(*[s.nonnone for s in live])
    return State(a, n)


class FuncAnalysis:
    def __init__(self, filename, fdef, modname):
        self.fn = filename
        self.f = fdef
        self.name = fdef.name
        self.sites = []          # (class, tuple(trychain))
        self.site_lines = []     # (class, tuple(trychain), lineno) - for explaining observed exceptions, not emitted to Coq
        self.calls = []          # (receiver kind: name|self|attr, callee name, tuple(trychain)) - every call, for the callee inventory
        self.guards = []         # normalised tests of if/while statements outside any try, or testing for None
        self.cur_line = fdef.lineno
        self.tries = []          # dict(id, caught, handler, lineno)
        self.trystack = []       # ids, innermost last
        self.raise_states = {}   # try id -> [State] at raising points inside its body
        self.locals = set()
        self.noneable = set()
        self._collect_locals(fdef)

    # ---- locals ---------------------------------------------------------------------------
    def _collect_locals(self, fdef):
        args = fdef.args
        self.params = [a.arg for a in args.posonlyargs + args.args + args.kwonlyargs]
        if args.vararg:
            self.params.append(args.vararg.arg)
        if args.kwarg:
            self.params.append(args.kwarg.arg)
        self.locals.update(self.params)

        def walk(node, top):
            for ch in ast.iter_child_nodes(node):
                if isinstance(ch, (ast.FunctionDef, ast.Lambda, ast.ClassDef)):
                    if isinstance(ch, ast.FunctionDef):
                        self.locals.add(ch.name)
                    continue
                if isinstance(ch, (ast.ListComp, ast.GeneratorExp, ast.SetComp, ast.DictComp)):
                    # comprehension variables live in their own scope; only the outermost iterable is ours
                    walk(ch.generators[0].iter, top)
                    continue
                if isinstance(ch, ast.Name) and isinstance(ch.ctx, ast.Store):
                    self.locals.add(ch.id)
                if isinstance(ch, (ast.Import, ast.ImportFrom)):
                    for al in ch.names:
                        self.locals.add((al.asname or al.name).split(".")[0])
                if isinstance(ch, ast.ExceptHandler) and ch.name:
                    self.locals.add(ch.name)
                if isinstance(ch, ast.Assign) and isinstance(ch.value, ast.Constant) and ch.value.value is None:
                    for t in ch.targets:
                        if isinstance(t, ast.Name):
                            self.noneable.add(t.id)
                walk(ch, top)
        walk(fdef, fdef)
        # canonical names of the locals, by position of first binding
        occ = []
        for node in ast.walk(fdef):
            if isinstance(node, ast.Name) and isinstance(node.ctx, ast.Store) and node.id in self.locals:
                occ.append((node.lineno, node.col_offset, node.id))
        self.canon = {}
        for pname in self.params:
            self.canon.setdefault(pname, "v%d" % len(self.canon))
        for _, _, n in sorted(occ):
            self.canon.setdefault(n, "v%d" % len(self.canon))
        self.guards_seen = set()

    # ---- guards ---------------------------------------------------------------------------
    def guard(self, test):
        """Pin the test of an if/while that stands outside every try (it is all that protects the unguarded sites after it),
        or that compares with None; locals are renamed canonically so that renaming a variable does not matter."""
        src = ast.unparse(test)
        if self.trystack and " is None" not in src and " is not None" not in src:
            return
        t = ast.parse(src, mode="eval").body
        for n in ast.walk(t):
            if isinstance(n, ast.Name) and n.id in self.canon:
                n.id = self.canon[n.id]
        g = ast.unparse(t)
        if g not in self.guards_seen:       # loops are analysed several times
            self.guards_seen.add(g)
            self.guards.append(g)

    # ---- recording ------------------------------------------------------------------------
    def site(self, cls, st):
        if st.dead:
            return
        self.sites.append((cls, tuple(reversed(self.trystack))))
        self.site_lines.append((cls, tuple(reversed(self.trystack)), self.cur_line))
        for t in self.trystack:
            self.raise_states.setdefault(t, []).append(st.copy())

    # ---- expressions ----------------------------------------------------------------------
    def use_name(self, node, st, deref):
        n = node.id
        if n in self.locals and n not in st.assigned:
            self.site("unbound:" + n, st)
        if deref and n in self.noneable and n in self.locals and n not in st.nonnone:
            self.site("none_use:" + n, st)

    def expr(self, e, st, deref=False, extra=frozenset()):
        """Visit expression e (evaluation order approximated left-to-right), recording sites."""
        if e is None:
            return
        self.cur_line = getattr(e, "lineno", self.cur_line)
        if isinstance(e, ast.Constant):
            return
        if isinstance(e, ast.Name):
            if isinstance(e.ctx, ast.Load) and e.id not in extra:
                self.use_name(e, st, deref)
            return
        if isinstance(e, ast.Attribute):
            self.expr(e.value, st, deref=True, extra=extra)
            return
        if isinstance(e, ast.Subscript):
            self.expr(e.value, st, deref=True, extra=extra)
            if isinstance(e.slice, ast.Slice):
                for p in (e.slice.lower, e.slice.upper, e.slice.step):
                    self.expr(p, st, extra=extra)
            elif isinstance(e.slice, ast.Tuple) and any(isinstance(x, ast.Slice) for x in e.slice.elts):
                plain = False
                for x in e.slice.elts:
                    if isinstance(x, ast.Slice):
                        for p in (x.lower, x.upper, x.step):
                            self.expr(p, st, extra=extra)
                    else:
                        plain = True
                        self.expr(x, st, extra=extra)
                if plain or isinstance(e.ctx, ast.Store):
                    self.site("index_store" if isinstance(e.ctx, ast.Store) else "index", st)
            else:
                self.expr(e.slice, st, extra=extra)
                self.site("index_store" if isinstance(e.ctx, ast.Store) else "index", st)
            return
        if isinstance(e, ast.Call):
            nm = callee_name(e.func)
            if isinstance(e.func, ast.Attribute):
                self.expr(e.func.value, st, deref=True, extra=extra)
            elif isinstance(e.func, ast.Name):
                if e.func.id not in extra:
                    self.use_name(e.func, st, True)
            else:
                self.expr(e.func, st, deref=True, extra=extra)
            for a in e.args:
                self.expr(a.value if isinstance(a, ast.Starred) else a, st, extra=extra)
            for k in e.keywords:
                self.expr(k.value, st, extra=extra)
            if not st.dead:
                rk = "name"
                if isinstance(e.func, ast.Attribute):
                    rk = "self" if isinstance(e.func.value, ast.Name) and e.func.value.id in ("self", "cls") else "attr"
                    if isinstance(e.func.value, ast.Name) and e.func.value.id[:2] == "P_":
                        rk = "self"
                elif isinstance(e.func, ast.Name) and e.func.id in self.locals:
                    rk = "local"
                self.calls.append((rk, nm, tuple(reversed(self.trystack))))
            if nm in ("float", "int", "next", "eval", "exec", "setattr", "getattr", "reduce", "max", "min"):
                self.site(nm if nm in ("float", "int", "next") else "call:" + nm, st)
            elif nm not in SAFE_CALLS:
                self.site("call:" + nm, st)
            return
        if isinstance(e, ast.BinOp):
            lstr = isinstance(e.left, ast.Constant) and isinstance(e.left.value, str) or (
                isinstance(e.left, ast.BinOp) and isinstance(e.left.op, ast.Add)
                and isinstance(e.left.left, ast.Constant) and isinstance(e.left.left.value, str))
            self.expr(e.left, st, deref=True, extra=extra)
            self.expr(e.right, st, deref=not (isinstance(e.op, ast.Mod) and lstr), extra=extra)
            if isinstance(e.op, ast.Mod) and lstr:
                self.site("strformat", st)
            elif isinstance(e.op, (ast.Div, ast.FloorDiv, ast.Mod)):
                self.site("div", st)
            return
        if isinstance(e, ast.UnaryOp):
            self.expr(e.operand, st, deref=not isinstance(e.op, ast.Not), extra=extra)
            return
        if isinstance(e, ast.BoolOp):
            # operands after the first are evaluated under the refinement of the previous ones
            cur = st
            for v in e.values:
                self.expr(v, cur, extra=extra)
                t, f = self.refine(v, cur)
                cur = t if isinstance(e.op, ast.And) else f
            return
        if isinstance(e, ast.Compare):
            self.expr(e.left, st, extra=extra)
            for c in e.comparators:
                self.expr(c, st, extra=extra)
            return
        if isinstance(e, ast.IfExp):
            self.expr(e.test, st, extra=extra)
            t, f = self.refine(e.test, st)
            self.expr(e.body, t, extra=extra)
            self.expr(e.orelse, f, extra=extra)
            return
        if isinstance(e, (ast.Tuple, ast.List, ast.Set)):
            for x in e.elts:
                self.expr(x.value if isinstance(x, ast.Starred) else x, st, extra=extra)
            return
        if isinstance(e, ast.Dict):
            for k, v in zip(e.keys, e.values):
                self.expr(k, st, extra=extra)
                self.expr(v, st, extra=extra)
            return
        if isinstance(e, (ast.ListComp, ast.GeneratorExp, ast.SetComp)):
            ex = set(extra)
            for g in e.generators:
                self.expr(g.iter, st, deref=True, extra=frozenset(ex))
                for n in ast.walk(g.target):
                    if isinstance(n, ast.Name):
                        ex.add(n.id)
                for c in g.ifs:
                    self.expr(c, st, extra=frozenset(ex))
            self.expr(e.elt, st, extra=frozenset(ex))
            return
        if isinstance(e, ast.Lambda):
            ex = set(extra) | {a.arg for a in e.args.args}
            self.expr(e.body, st, extra=frozenset(ex))
            return
        if isinstance(e, ast.JoinedStr):
            for v in e.values:
                if isinstance(v, ast.FormattedValue):
                    self.expr(v.value, st, extra=extra)
            return
        if isinstance(e, ast.Starred):
            self.expr(e.value, st, extra=extra)
            return
        if isinstance(e, ast.Yield):
            self.expr(e.value, st, extra=extra)
            return
        _refuse(self.fn, e, "expression class %s is not understood" % type(e).__name__)

    def refine(self, test, st):
        """(state if test true, state if test false) w.r.t. `x is None` / `x is not None` facts."""
        t, f = st, st
        if isinstance(test, ast.Compare) and len(test.ops) == 1 and isinstance(test.left, ast.Name) \
                and isinstance(test.comparators[0], ast.Constant) and test.comparators[0].value is None:
            n = test.left.id
            if isinstance(test.ops[0], ast.IsNot):
                t = State(st.assigned, st.nonnone | {n})
                f = State(st.assigned, st.nonnone - {n})
            elif isinstance(test.ops[0], ast.Is):
                t = State(st.assigned, st.nonnone - {n})
                f = State(st.assigned, st.nonnone | {n})
        elif isinstance(test, ast.UnaryOp) and isinstance(test.op, ast.Not):
            f, t = self.refine(test.operand, st)
        elif isinstance(test, ast.BoolOp) and isinstance(test.op, ast.And):
            cur = st
            for v in test.values:
                cur, _ = self.refine(v, cur)
            t = cur
        elif isinstance(test, ast.BoolOp) and isinstance(test.op, ast.Or):
            cur = st
            for v in test.values:
                _, cur = self.refine(v, cur)
            f = cur
        return t, f

    # ---- statements -----------------------------------------------------------------------
    def store(self, target, st, value=None):
        if isinstance(target, ast.Name):
            nn = st.nonnone
            if target.id in self.noneable:
                if isinstance(value, ast.Constant) and value.value is None:
                    nn = nn - {target.id}
                else:
                    nn = nn | {target.id}
            return State(st.assigned | {target.id}, nn)
        if isinstance(target, (ast.Tuple, ast.List)):
            for t in target.elts:
                st = self.store(t, st)
            return st
        if isinstance(target, ast.Attribute):
            self.expr(target.value, st, deref=True)
            return st
        if isinstance(target, ast.Subscript):
            self.expr(target, st)
            return st
        if isinstance(target, ast.Starred):
            return self.store(target.value, st)
        _refuse(self.fn, target, "assignment target %s is not understood" % type(target).__name__)

    def block(self, stmts, st, loop=None):
        for s in stmts:
            st = self.stmt(s, st, loop)
        return st

    def stmt(self, s, st, loop):
        if st.dead:
            return st
        self.cur_line = getattr(s, "lineno", self.cur_line)
        if isinstance(s, ast.Expr):
            if isinstance(s.value, ast.Constant):
                return st
            self.expr(s.value, st)
            return st
        if isinstance(s, ast.Assign):
            self.expr(s.value, st)
            for t in s.targets:
                st = self.store(t, st, s.value)
            return st
        if isinstance(s, ast.AugAssign):
            self.expr(s.value, st)
            if isinstance(s.target, ast.Name):
                self.use_name(ast.Name(id=s.target.id, ctx=ast.Load()), st, True)
            else:
                self.expr(s.target, st) if not isinstance(s.target, ast.Subscript) else self.store(s.target, st)
            if isinstance(s.op, (ast.Div, ast.FloorDiv, ast.Mod)):
                self.site("div", st)
            return self.store(s.target, st, s.value) if isinstance(s.target, ast.Name) else st
        if isinstance(s, ast.Return):
            self.expr(s.value, st)
            return State(dead=True)
        if isinstance(s, ast.Raise):
            self.expr(s.exc, st)
            cls = "raise:?"
            if s.exc is None:
                cls = "raise:reraise"
            elif isinstance(s.exc, ast.Call):
                nm = callee_name(s.exc.func)
                if nm == "with_traceback" and isinstance(s.exc.func, ast.Attribute) and isinstance(s.exc.func.value, ast.Name):
                    nm = self.exc_vars.get(s.exc.func.value.id, "?")
                cls = "raise:" + nm
            elif isinstance(s.exc, ast.Name):
                cls = "raise:" + self.exc_vars.get(s.exc.id, s.exc.id)
            self.site(cls, st)
            return State(dead=True)
        if isinstance(s, ast.Pass):
            return st
        if isinstance(s, (ast.Break, ast.Continue)):
            if loop is None:
                _refuse(self.fn, s, "break/continue outside a loop")
            loop["break" if isinstance(s, ast.Break) else "continue"].append(st.copy())
            return State(dead=True)
        if isinstance(s, ast.Assert):
            self.expr(s.test, st)
            self.site("assert", st)
            return st
        if isinstance(s, (ast.Import, ast.ImportFrom)):
            a = st.assigned
            for al in s.names:
                a = a | {(al.asname or al.name).split(".")[0]}
            return State(a, st.nonnone)
        if isinstance(s, ast.If):
            self.guard(s.test)
            self.expr(s.test, st)
            t, f = self.refine(s.test, st)
            o1 = self.block(s.body, t, loop)
            o2 = self.block(s.orelse, f, loop)
            return join([o1, o2])
        if isinstance(s, (ast.For, ast.While)):
            head = st
            for _ in range(4):
                lp = {"break": [], "continue": []}
                if isinstance(s, ast.For):
                    self_sites = len(self.sites)
                    self_lines = len(self.site_lines)
                    self.expr(s.iter, head, deref=True)
                    body_in = self.store(s.target, head)
                    exit_normal = head
                else:
                    self_sites = len(self.sites)
                    self_lines = len(self.site_lines)
                    self.guard(s.test)
                    self.expr(s.test, head)
                    body_in, exit_normal = self.refine(s.test, head)
                out = self.block(s.body, body_in, lp)
                new_head = join([st, out] + lp["continue"])
                if new_head.key() == head.key():
                    break
                # re-run with the weaker loop-head facts; forget the sites recorded by this pass
                del self.sites[self_sites:]
                del self.site_lines[self_lines:]
                head = new_head
            else:
                _refuse(self.fn, s, "loop facts do not stabilise")
            exit_state = exit_normal if isinstance(s, ast.While) else head
            after = self.block(s.orelse, exit_state, loop) if s.orelse else exit_state
            return join([after] + lp["break"])
        if isinstance(s, ast.Try):
            tid = len(self.tries) + 1
            rec = {"id": tid, "lineno": s.lineno, "caught": [], "handlers": []}
            self.tries.append(rec)
            self.trystack.append(tid)
            self.raise_states[tid] = []
            body_out = self.block(s.body, st, loop)
            self.trystack.pop()
            if s.orelse:
                body_out = self.block(s.orelse, body_out, loop)
            outs = [body_out]
            hin = join(self.raise_states[tid]) if self.raise_states[tid] else State(dead=True)
            for h in s.handlers:
                kinds = self.handler_kinds(h)
                hst = hin.copy() if not hin.dead else State(st.assigned, st.nonnone)
                if h.name:
                    hst = State(hst.assigned | {h.name}, hst.nonnone)
                nsites = len(self.sites)
                hout = self.block(h.body, hst, loop)
                hs = [c for c, _ in self.sites[nsites:]]
                raises = [c for c in hs if c.startswith("raise:")]
                if raises and all(c == "raise:StructureFormatError" for c in raises) and hout.dead:
                    hk = "ReraiseFormat"
                elif not raises and not hout.dead:
                    hk = "Swallow"
                else:
                    hk = "OtherHandler"
                rec["handlers"].append((kinds, hk))
                outs.append(hout)
            res = join(outs)
            if s.finalbody:
                # the finally body also runs on the exceptional path; analyse it under the weakest facts
                res2 = self.block(s.finalbody, join([st, res]) if not res.dead else st, loop)
                res = res if res.dead else State(res.assigned | res2.assigned, res.nonnone)
            return res
        if isinstance(s, ast.With):
            for it in s.items:
                self.expr(it.context_expr, st)
                self.site("call:__enter__", st) if False else None
                if it.optional_vars is not None:
                    st = self.store(it.optional_vars, st)
            return self.block(s.body, st, loop)
        if isinstance(s, ast.FunctionDef):
            return State(st.assigned | {s.name}, st.nonnone)
        if isinstance(s, ast.Delete):
            return st
        _refuse(self.fn, s, "statement class %s is not understood" % type(s).__name__)

    def handler_kinds(self, h):
        if h.type is None:
            _refuse(self.fn, h, "bare except clause")
        elts = h.type.elts if isinstance(h.type, ast.Tuple) else [h.type]
        out = []
        for e in elts:
            nm = callee_name(e)
            if nm not in KIND_OF:
                _refuse(self.fn, h, "exception class %s in except clause is not in the kind table" % nm)
            out.append(KIND_OF[nm])
        return out

    def run(self):
        # variables bound to a freshly built exception object:  e = StructureFormatError(emsg)
        self.exc_vars = {}
        for n in ast.walk(self.f):
            if isinstance(n, ast.Assign) and isinstance(n.value, ast.Call) and len(n.targets) == 1 \
                    and isinstance(n.targets[0], ast.Name) and callee_name(n.value.func) in KIND_OF:
                self.exc_vars[n.targets[0].id] = callee_name(n.value.func)
        st = State(frozenset(self.params), frozenset(self.params))
        self.block(self.f.body, st)
        return self


def reader_functions(tree):
    """All FunctionDefs of the module (methods included) that belong to the reading side."""
    out = []
    for node in ast.walk(tree):
        if isinstance(node, ast.ClassDef):
            for st in node.body:
                if isinstance(st, ast.FunctionDef) and st.name not in WRITER_FUNCS:
                    out.append(st)
    for st in tree.body:
        if isinstance(st, ast.FunctionDef) and st.name not in WRITER_FUNCS:
            out.append(st)
    return out


def analyse(fmt):
    fn = os.path.join(SRC, "parsers", "p_%s.py" % fmt)
    tree = ast.parse(open(fn).read(), fn)
    res = []
    for f in reader_functions(tree):
        res.append(FuncAnalysis(fn, f, fmt).run())
    return res


def site_table(fmt):
    """For explaining observed exceptions: {(function, lineno): [(site class, [caught kind names of each enclosing try, innermost first])]}"""
    out = {}
    for fa in analyse(fmt):
        caught = {t["id"]: [k for kinds, _ in t["handlers"] for k in kinds] for t in fa.tries}
        for cls, chain, ln in fa.site_lines:
            out.setdefault((fa.name, ln), []).append((cls, [caught[t] for t in chain]))
    return out


LIBRARY_MODULES = ["symmetryutilities", "spacegroups", "spacegroupmod", "lattice", "atom", "structure", "pdffitstructure", "utils"]


class Library:
    """Explicit raise statements and name-level call edges of the modules the parsers call into."""

    def __init__(self):
        self.funcs = {}        # qualified name -> (module, FunctionDef, class name or None)
        self.classes = {}      # class name -> {method name: qualified name}
        self.toplevel = {}     # function name -> qualified name
        for mod in LIBRARY_MODULES:
            fn = os.path.join(SRC, mod + ".py")
            if not os.path.exists(fn):
                raise TranslatorRefusal("%s.py: library module not found" % mod)
            tree = ast.parse(open(fn).read(), fn)
            for st in tree.body:
                if isinstance(st, ast.FunctionDef):
                    q = "%s.%s" % (mod, st.name)
                    self.funcs[q] = (mod, st, None)
                    self.toplevel.setdefault(st.name, q)
                elif isinstance(st, ast.ClassDef):
                    meths = self.classes.setdefault(st.name, {})
                    for m in st.body:
                        if isinstance(m, ast.FunctionDef):
                            q = "%s.%s.%s" % (mod, st.name, m.name)
                            self.funcs[q] = (mod, m, st.name)
                            meths.setdefault(m.name, q)
        self.raises = {}
        self.edges = {}
        for q, (mod, f, cls) in self.funcs.items():
            rs, es = set(), set()
            for n in ast.walk(f):
                if isinstance(n, ast.Raise) and n.exc is not None:
                    nm = callee_name(n.exc.func) if isinstance(n.exc, ast.Call) else callee_name(n.exc)
                    if nm not in KIND_OF:
                        raise TranslatorRefusal("%s.py:%d: raise of %s, which is not in the kind table" % (mod, n.lineno, nm))
                    rs.add(KIND_OF[nm])
                if isinstance(n, ast.Call):
                    es.update(self.resolve(n.func, cls))
            self.raises[q] = rs
            self.edges[q] = es
        # transitive closure of the reachable raises
        self.reach = {}
        for q in self.funcs:
            seen, todo, acc = set(), [q], set()
            while todo:
                x = todo.pop()
                if x in seen:
                    continue
                seen.add(x)
                for k in self.raises[x]:
                    acc.add((x, k))
                todo.extend(self.edges[x])
            self.reach[q] = acc

    def resolve(self, func, cls=None):
        """Qualified names a call expression may denote (by name; a class name means its constructor)."""
        out = set()
        if isinstance(func, ast.Name):
            n = func.id
            if n in self.classes:
                for m in ("__init__", "__new__"):
                    if m in self.classes[n]:
                        out.add(self.classes[n][m])
            elif n in self.toplevel:
                out.add(self.toplevel[n])
        elif isinstance(func, ast.Attribute):
            m = func.attr
            if isinstance(func.value, ast.Name) and func.value.id == "self" and cls and m in self.classes.get(cls, {}):
                out.add(self.classes[cls][m])
            elif isinstance(func.value, ast.Name) and func.value.id in self.classes:
                if m in self.classes[func.value.id]:       # ClassName.method(...)
                    out.add(self.classes[func.value.id][m])
            elif m.startswith("__") and m.endswith("__"):
                pass                                       # dunder call on an unknown receiver: not followed
            else:
                for c, meths in self.classes.items():
                    if m in meths:
                        out.add(meths[m])
                if m in self.classes:          # module.ClassName(...)
                    out.update(self.resolve(ast.Name(id=m)))
                elif m in self.toplevel and not out:
                    out.add(self.toplevel[m])
        return out


def callee_raises(fmt, lib=None):
    """[(raising library function, kind, [caught tuple of every enclosing try, innermost first])] for every explicit raise of
    the library modules that is reachable (by name) from a call made by a reader-side function of p_<fmt>.py, with the try
    context of that call - including the context in which the parser's own helper functions are called."""
    lib = lib or Library()
    fas = {fa.name: fa for fa in analyse(fmt)}
    caught = {name: {t["id"]: [k for kinds, _ in t["handlers"] for k in kinds] for t in fa.tries} for name, fa in fas.items()}
    called_by_name = set()
    for fa in fas.values():
        for rk, nm, chain in fa.calls:
            if rk in ("self", "name") and nm in fas:
                called_by_name.add(nm)
    dynamic = [n for n in fas if n not in called_by_name and n not in ("parse", "parseLines", "parseFile")]
    # contexts of every parser function: set of chains (tuple of tuples of kind names)
    ctx = {n: set() for n in fas}
    for n in fas:
        if n in ("parse", "parseLines", "parseFile") or (n not in called_by_name and n not in dynamic):
            ctx[n].add(())
    changed = True
    rounds = 0
    while changed:
        changed = False
        rounds += 1
        if rounds > 50:
            raise TranslatorRefusal("p_%s.py: call contexts do not stabilise" % fmt)
        for n, fa in fas.items():
            for c in list(ctx[n]):
                for rk, nm, chain in fa.calls:
                    local = tuple(tuple(caught[n][t]) for t in chain)
                    targets = []
                    if rk in ("self", "name") and nm in fas:
                        targets = [nm]
                    elif rk == "local":
                        targets = dynamic            # a callee held in a variable: any function that is only reachable dynamically
                    for t in targets:
                        full = local + c
                        if full not in ctx[t]:
                            ctx[t].add(full)
                            changed = True
    out = set()
    for n, fa in fas.items():
        for c in ctx[n]:
            for rk, nm, chain in fa.calls:
                if rk in ("self", "name") and nm in fas:
                    continue
                local = tuple(tuple(caught[n][t]) for t in chain)
                func = ast.Name(id=nm) if rk in ("name", "local") else ast.Attribute(value=ast.Name(id="obj"), attr=nm)
                for q in lib.resolve(func):
                    for (rq, k) in lib.reach[q]:
                        out.add((rq, k, local + c))
    return sorted(out)


def coq_str(s):
    return '"' + s.replace('"', '""') + '"'


def spec():
    """{fmt: {"tries": [(func, id, [kinds], handlerkind)], "sites": [(func, cls, chain)]}}"""
    out = {}
    lib = Library()
    for fmt in FORMATS:
        tries, sites = [], []
        fas_list = analyse(fmt)
        for fa in fas_list:
            for t in fa.tries:
                for k, (kinds, hk) in enumerate(t["handlers"], 1):
                    tries.append((fa.name, t["id"], k, kinds, hk))
            for cls, chain in fa.sites:
                sites.append((fa.name, cls, list(chain)))
        counted = {}
        for f, c, ch in sites:
            counted[(f, c, tuple(ch))] = counted.get((f, c, tuple(ch)), 0) + 1
        sites = sorted((f, c, list(ch), n) for (f, c, ch), n in counted.items())
        guards = sorted((fa.name, g) for fa in fas_list for g in fa.guards)
        out[fmt] = {"tries": tries, "sites": sites, "guards": guards, "callees": callee_raises(fmt, lib)}
    return out


def pdb_valid_records():
    """The string literals of P_pdb.orderOfRecords (validRecords = dict.fromkeys(orderOfRecords))."""
    fn = os.path.join(SRC, "parsers", "p_pdb.py")
    tree = ast.parse(open(fn).read(), fn)
    order, valid_ok = None, False
    for node in ast.walk(tree):
        if isinstance(node, ast.ClassDef) and node.name == "P_pdb":
            for st in node.body:
                if isinstance(st, ast.Assign) and len(st.targets) == 1 and isinstance(st.targets[0], ast.Name):
                    if st.targets[0].id == "orderOfRecords":
                        if not (isinstance(st.value, ast.List) and all(isinstance(e, ast.Constant) and isinstance(e.value, str)
                                                                      for e in st.value.elts)):
                            _refuse(fn, st, "orderOfRecords is not a list of string literals")
                        order = [e.value for e in st.value.elts]
                    if st.targets[0].id == "validRecords":
                        valid_ok = ast.unparse(st.value) == "dict.fromkeys(orderOfRecords)"
    if order is None or not valid_ok:
        raise TranslatorRefusal("p_pdb.py: orderOfRecords / validRecords = dict.fromkeys(orderOfRecords) not found")
    return order


def generate():
    sp = spec()
    L = ["(* GENERATED by translate/c13_exc.py from parsers/p_*.py - exception layout of the readers *)",
         "From Coq Require Import List String.", "From DS Require Import Base.C13_Exn.",
         "Import ListNotations.", "Open Scope string_scope.", "",
         "Inductive handler_kind := ReraiseFormat | Swallow | OtherHandler.",
         "(* (function, site class, enclosing try ids innermost first ([] = outside any try), number of such sites) *)",
         "Definition site := (string * string * list nat * nat)%type.", ""]
    for fmt in FORMATS:
        for func, tid, hidx, kinds, hk in sp[fmt]["tries"]:
            suffix = "" if hidx == 1 else "_h%d" % hidx
            base = "%s_%s_try%d%s" % (fmt, func.strip("_"), tid, suffix)
            L.append("Definition %s_caught : list kind := [%s]." % (base, "; ".join(kinds)))
            L.append("Definition %s_handler : handler_kind := %s." % (base, hk))
        L.append("Definition %s_guards : list (string * string) := [%s]." % (
            fmt, "; ".join("(%s, %s)" % (coq_str(f), coq_str(g)) for f, g in sp[fmt]["guards"])))
        L.append("Definition %s_callee_raises : list (string * kind * list (list kind)) := [" % fmt)
        L.append(";\n".join("  (%s, %s, [%s])" % (coq_str(q), k, "; ".join("[%s]" % "; ".join(t) for t in ch))
                            for q, k, ch in sp[fmt]["callees"]))
        L.append("].")
        L.append("Definition %s_sites : list site := [" % fmt)
        L.append(";\n".join("  (%s, %s, [%s], %d)" % (coq_str(f), coq_str(c), "; ".join(str(x) for x in ch), n)
                            for f, c, ch, n in sp[fmt]["sites"]))
        L.append("].")
        L.append("")
    L.append("Definition pdb_valid_records : list string := [%s]." % "; ".join(coq_str(r) for r in pdb_valid_records()))
    return {"Gen/C13_ExcSpec.v": "\n".join(L) + "\n"}


def expected_sites_file():
    """Text of coq/Model/C13_Sites.v: the site layout the hand-written models were written for.

    Written deliberately (python -m translate.c13_exc --write-expected) after the models have been reviewed
    against a new layout; never regenerated by ./check."""
    sp = spec()
    L = ["(* C13 - the raising-site layout of every reader that the models in Model/C13_*.v account for.",
         "   Written by `python -m translate.c13_exc --write-expected` from a reviewed tree; compared by reflexivity with the",
         "   layout regenerated from the current source (Gen/C13_ExcSpec.v) in Props/C13.v. *)",
         "From Coq Require Import List String.", "From DS Require Import Base.C13_Exn Gen.C13_ExcSpec.",
         "Import ListNotations.", "Open Scope string_scope.", ""]
    for fmt in FORMATS:
        L.append("Definition %s_guards_expected : list (string * string) := [%s]." % (
            fmt, "; ".join("(%s, %s)" % (coq_str(f), coq_str(g)) for f, g in sp[fmt]["guards"])))
        L.append("Definition %s_sites_expected : list site := [" % fmt)
        L.append(";\n".join("  (%s, %s, [%s], %d)" % (coq_str(f), coq_str(c), "; ".join(str(x) for x in ch), n)
                            for f, c, ch, n in sp[fmt]["sites"]))
        L.append("].")
        L.append("")
    return "\n".join(L) + "\n"


if __name__ == "__main__":
    import sys
    if "--write-expected" in sys.argv:
        from vlib.core import COQ
        open(os.path.join(COQ, "Model", "C13_Sites.v"), "w").write(expected_sites_file())
        print("written Model/C13_Sites.v")
        sys.exit(0)
    sp = spec()
    for fmt in (sys.argv[1:] or FORMATS):
        print("==", fmt)
        for t in sp[fmt]["tries"]:
            print("  try", t)
        for s in sp[fmt]["sites"]:
            print("  ", s)
