"""Fail-closed translator: format strings and constant slices of the seven writers/readers
(parsers/p_{xyz,rawxyz,pdffit,discus,pdb,xcfg,cif}.py) -> Gen/C04_FmtSpecs.v.

What is extracted (with `ast`, nothing is executed):
  * every `%`-format string (also `"a" + "b" % ...` concatenations and `%(name)5i` dictionary
    formats) and every str.format field template `{expr:.8g}` used inside the writer methods,
    as a list of descriptor items  FLit / FStr / FFix / FInt / FGen  (Model/C04_Fmt.v);
  * the source text of the arguments of each format (checked against the roles pinned below:
    the model hard-wires WHICH quantity goes into which field, so a reordered argument is refused);
  * the literal record keywords the writers emit (`"title  " + ...`, `"format pdffit"`, `"atoms"`);
  * constant subscripts of the readers (`words[1:4]`, `wl1[4]`, `line[30:54]`, `line.lstrip()[5:]`)
    and the tensor-component assignments (`U[0, 1] = U[1, 0] = float(wl5[0])`).
Every item is bound to a name by a *pattern* (keyword prefix, argument roles); a pattern that
matches zero or several items, an unknown conversion, or a changed role raises TranslatorRefusal.
Widths, precisions, literal text and slice bounds flow into the generated file unchanged, so an
edit of a width/precision/slice in the source changes the model.
"""
import ast
import os
import re

from vlib.core import SRC, TranslatorRefusal

SETUP = True

PARSERS = os.path.join(SRC, "parsers")


def _refuse(fn, node, why):
    raise TranslatorRefusal("%s:%s: %s" % (os.path.basename(fn), getattr(node, "lineno", "?") if not isinstance(node, int) else node, why))


# ------------------------------------------------------------------------------------------
# format-string parsing

_PCT = re.compile(r"%(?:\((\w+)\))?([-0 +#]*)(\d+)?(?:\.(\d+))?([a-zA-Z%])")
_BRACE = re.compile(r"\{([^{}:!]*)(?::([^{}]*))?\}")


def parse_percent(fn, node, text):
    """'%-4s %17.8f' -> ([items], [names or None])"""
    items, names, pos = [], [], 0
    for m in _PCT.finditer(text):
        if m.start() > pos:
            items.append(("lit", text[pos:m.start()]))
        pos = m.end()
        name, flags, width, prec, conv = m.groups()
        w = int(width) if width else 0
        if conv == "%":
            items.append(("lit", "%"))
            continue
        if set(flags) - {"-"}:
            _refuse(fn, node, "format flag %r in %r is outside the modelled subset" % (flags, text))
        left = "-" in flags
        if conv == "s":
            if prec is not None:
                _refuse(fn, node, "%%.%ss truncation is not modelled" % prec)
            items.append(("str", left, w))
        elif conv == "c":
            items.append(("str", left, w))
        elif conv == "f":
            if left:
                _refuse(fn, node, "left-aligned %f is not modelled")
            items.append(("fix", w, int(prec) if prec is not None else 6))
        elif conv in "id":
            if left or prec is not None:
                _refuse(fn, node, "%%-i / %%.Ni is not modelled")
            items.append(("int", w))
        elif conv == "g":
            if w or left:
                _refuse(fn, node, "%%g with a width is not modelled")
            items.append(("gen", int(prec) if prec is not None else 6))
        else:
            _refuse(fn, node, "conversion %%%s in %r is not modelled" % (conv, text))
        names.append(name)
    if pos < len(text):
        items.append(("lit", text[pos:]))
    # merge adjacent literals
    out = []
    for it in items:
        if it[0] == "lit" and out and out[-1][0] == "lit":
            out[-1] = ("lit", out[-1][1] + it[1])
        else:
            out.append(it)
    return out, names


def parse_brace(fn, node, text):
    """'{pos[0]:.8g}' -> (item, field-expression)"""
    m = _BRACE.fullmatch(text)
    if not m:
        _refuse(fn, node, "str.format template %r is not a single {expr:spec} field" % text)
    expr, spec = m.group(1), m.group(2) or ""
    mg = re.fullmatch(r"\.(\d+)g", spec)
    if not mg:
        _refuse(fn, node, "format spec %r is outside the modelled subset ('.Ng')" % spec)
    return ("gen", int(mg.group(1))), expr


def const_str(node):
    """Value of a constant string expression built with + from literals, else None."""
    if isinstance(node, ast.Constant) and isinstance(node.value, str):
        return node.value
    if isinstance(node, ast.BinOp) and isinstance(node.op, ast.Add):
        a, b = const_str(node.left), const_str(node.right)
        if a is not None and b is not None:
            return a + b
    return None


VOLATILE_FORMATS = ("%04i-%02i-%02i",)      # the CIF creation date: not part of what the format carries


class Method:
    """Everything extracted from one function body, in source order."""

    def __init__(self, fn, func, writer=True):
        self.fn, self.func, self.writer = fn, func, writer
        self.formats = []    # dicts: line, text, items, names, args (list of source strings) , argnode
        self.braces = []     # dicts: line, text, item, expr
        self.literals = []   # (line, text)   string constants appended / concatenated into lines
        self.subs = []       # (line, base source, lo, hi)  hi None => index
        self.compares = []   # (line, left source, constant)
        self.assigns = []    # (line, [target sources], value source)
        doc = ast.get_docstring(func, clean=False)
        self._doc = doc
        # locals assigned exactly once from an expression are inlined into argument roles, so that renaming
        # a local (rc -> cart) or introducing one does not change what the translator sees
        counts, values = {}, {}
        for node in ast.walk(func):
            targets = []
            if isinstance(node, ast.Assign):
                targets = node.targets
            elif isinstance(node, (ast.AugAssign, ast.AnnAssign)):
                targets = [node.target]
            elif isinstance(node, (ast.For, ast.comprehension)):
                targets = [node.target]
            for tg in targets:
                for nm in ast.walk(tg):
                    if isinstance(nm, ast.Name):
                        counts[nm.id] = counts.get(nm.id, 0) + 1
            if isinstance(node, ast.Assign) and len(node.targets) == 1 and isinstance(node.targets[0], ast.Name):
                values[node.targets[0].id] = node.value
        # (accumulators initialised with a list/dict display are mutated later: never inlined)
        self.alias = {k: v for k, v in values.items() if counts.get(k) == 1 and not isinstance(v, (ast.List, ast.Dict, ast.Set))}
        self._walk(func)

    def inline(self, node, depth=0):
        """Source text of `node` with single-assignment locals replaced by their defining expression."""
        alias = self.alias

        class T(ast.NodeTransformer):
            def visit_Name(s, n):
                if isinstance(n.ctx, ast.Load) and n.id in alias and depth < 4:
                    return ast.parse(self.inline(alias[n.id], depth + 1), mode="eval").body
                return n
        import copy
        return ast.unparse(T().visit(copy.deepcopy(node)))

    def _walk(self, func):
        fn = self.fn
        taken = set()
        for node in ast.walk(func):
            if self.writer and isinstance(node, ast.BinOp) and isinstance(node.op, ast.Mod):
                text = const_str(node.left)
                if text is not None and text in VOLATILE_FORMATS:
                    for sub in ast.walk(node.left):
                        taken.add(id(sub))
                    continue
                if text is not None:
                    items, names = parse_percent(fn, node, text)
                    r = node.right
                    if isinstance(r, ast.Tuple):
                        args = [self.inline(e) for e in r.elts]
                    elif isinstance(r, ast.Dict):
                        d = {}
                        for k, v in zip(r.keys, r.values):
                            if not (isinstance(k, ast.Constant) and isinstance(k.value, str)):
                                _refuse(fn, node, "dictionary format with a computed key")
                            d[k.value] = self.inline(v)
                        missing = [n for n in names if n not in d]
                        if missing:
                            _refuse(fn, node, "format names %s have no dictionary entry" % missing)
                        args = [d[n] for n in names]
                    else:
                        args = [self.inline(r)]
                    self.formats.append({"line": node.lineno, "text": text, "items": items, "names": names, "args": args,
                                         "nfields": sum(1 for it in items if it[0] != "lit")})
                    for sub in ast.walk(node.left):
                        taken.add(id(sub))
                elif isinstance(node.left, (ast.Constant, ast.BinOp, ast.JoinedStr)) and isinstance(getattr(node.left, "value", None), str):
                    _refuse(fn, node, "format string is not a literal")
        for node in ast.walk(func):
            if isinstance(node, ast.Constant) and isinstance(node.value, str) and id(node) not in taken:
                if node.value == self._doc:
                    continue
                if self.writer and _BRACE.search(node.value) and ":" in node.value:
                    item, expr = parse_brace(fn, node, node.value)
                    self.braces.append({"line": node.lineno, "text": node.value, "item": item, "expr": expr})
                    taken.add(id(node))
        # literals: constants that are call arguments of .append/.extend lists or operands of +
        for node in ast.walk(func):
            if isinstance(node, ast.Call) and isinstance(node.func, ast.Attribute) and node.func.attr in ("append", "extend"):
                for a in node.args:
                    self._literal_operands(a, taken)
            if isinstance(node, ast.Assign):
                self._literal_operands(node.value, taken, only_add=True)
                self.assigns.append((node.lineno, [ast.unparse(t) for t in node.targets], ast.unparse(node.value)))
            if isinstance(node, ast.Subscript):
                lo = hi = None
                sl = node.slice
                if isinstance(sl, ast.Constant) and isinstance(sl.value, int):
                    self.subs.append((node.lineno, ast.unparse(node.value), sl.value, None))
                elif isinstance(sl, ast.Slice) and sl.step is None:
                    ok = True
                    for part in (sl.lower, sl.upper):
                        if part is not None and not (isinstance(part, ast.Constant) and isinstance(part.value, int)):
                            ok = False
                    if ok and (sl.lower is not None or sl.upper is not None):
                        lo = sl.lower.value if sl.lower is not None else 0
                        hi = sl.upper.value if sl.upper is not None else -1     # -1: open ended
                        self.subs.append((node.lineno, ast.unparse(node.value), lo, hi))
            if isinstance(node, ast.Compare) and len(node.ops) == 1 and isinstance(node.ops[0], (ast.Eq, ast.NotEq)):
                c = node.comparators[0]
                if isinstance(c, ast.Constant) and isinstance(c.value, str):
                    self.compares.append((node.lineno, ast.unparse(node.left), c.value))
        self.formats.sort(key=lambda d: d["line"])
        self.literals.sort(key=lambda x: x[0])
        self.subs.sort(key=lambda x: (x[0], x[1]))

    def _literal_operands(self, node, taken, only_add=False):
        if isinstance(node, ast.Constant) and isinstance(node.value, str):
            if id(node) not in taken and not only_add:
                taken.add(id(node))
                self.literals.append((node.lineno, node.value))
        elif isinstance(node, ast.BinOp) and isinstance(node.op, ast.Add):
            for side in (node.left, node.right):
                if isinstance(side, ast.Constant) and isinstance(side.value, str):
                    if id(side) not in taken:
                        taken.add(id(side))
                        self.literals.append((side.lineno, side.value))
                else:
                    self._literal_operands(side, taken, only_add=True)
        elif isinstance(node, ast.Call):
            # ("title   " + x).strip()  /  line.strip()
            if isinstance(node.func, ast.Attribute):
                self._literal_operands(node.func.value, taken, only_add=True)
        elif isinstance(node, (ast.List, ast.Tuple)) and not only_add:
            for e in node.elts:
                self._literal_operands(e, taken)


WRITER_METHODS = ("toLines", "titleLines", "cryst1Lines", "atomLines")


def load(modname, clsname, methods, toplevel=()):
    fn = os.path.join(PARSERS, modname + ".py")
    tree = ast.parse(open(fn).read(), fn)
    cls = [n for n in tree.body if isinstance(n, ast.ClassDef) and n.name == clsname]
    if len(cls) != 1:
        raise TranslatorRefusal("%s.py: class %s not found exactly once" % (modname, clsname))
    out = {}
    for m in methods:
        f = [n for n in cls[0].body if isinstance(n, ast.FunctionDef) and n.name == m]
        if len(f) != 1:
            raise TranslatorRefusal("%s.py: method %s.%s not found exactly once" % (modname, clsname, m))
        out[m] = Method(fn, f[0], writer=m in WRITER_METHODS)
    for m in toplevel:
        f = [n for n in tree.body if isinstance(n, ast.FunctionDef) and n.name == m]
        if len(f) != 1:
            raise TranslatorRefusal("%s.py: function %s not found exactly once" % (modname, m))
        out[m] = Method(fn, f[0], writer=False)
    return fn, out


# ------------------------------------------------------------------------------------------
# binding by pattern


def one_format(fn, meth, what, pred, roles=None):
    hits = [f for f in meth.formats if pred(f)]
    if len(hits) != 1:
        _refuse(fn, meth.func, "%s: expected exactly one format string for %s, found %d" % (meth.func.name, what, len(hits)))
    f = hits[0]
    if roles is not None and f["args"] != roles:
        _refuse(fn, f["line"], "%s: arguments of the %s format are %s, the model expects %s" % (meth.func.name, what, f["args"], roles))
    return f


def starts(prefix):
    return lambda f: f["items"] and f["items"][0][0] == "lit" and f["items"][0][1].startswith(prefix)


def sig(f):
    return "".join({"str": "s", "fix": "f", "int": "i", "gen": "g"}[it[0]] for it in f["items"] if it[0] != "lit")


def one_literal(fn, meth, what, pred):
    hits = [t for (_, t) in meth.literals if pred(t)]
    if len(hits) != 1:
        _refuse(fn, meth.func, "%s: expected exactly one literal for %s, found %r" % (meth.func.name, what, hits))
    return hits[0]


def one_sub(fn, meth, what, base, index=False, nth=0, count=1):
    hits = [s for s in meth.subs if s[1] == base and ((s[3] is None) == index)]
    if len(hits) != count:
        _refuse(fn, meth.func, "%s: expected %d constant %s on %r for %s, found %s" %
                (meth.func.name, count, "index" if index else "slice", base, what, [(h[2], h[3]) for h in hits]))
    return hits[nth]


def assign_index(fn, meth, target, pattern):
    """Integer captured by `pattern` (one group) in the value assigned to `target`."""
    hits = [a for a in meth.assigns if target in a[1]]
    if len(hits) != 1:
        _refuse(fn, meth.func, "%s: expected exactly one assignment to %s, found %d" % (meth.func.name, target, len(hits)))
    mm = re.fullmatch(pattern, hits[0][2])
    if not mm:
        _refuse(fn, hits[0][0], "%s: %s = %s does not have the shape %s" % (meth.func.name, target, hits[0][2], pattern))
    return int(mm.group(1))


def has_compare(fn, meth, left, const):
    if not any(c[1] == left and c[2] == const for c in meth.compares):
        _refuse(fn, meth.func, "%s: comparison %s == %r not found" % (meth.func.name, left, const))
    return const


# ------------------------------------------------------------------------------------------
# Coq emission


def coq_str(fn, text):
    for ch in text:
        if ord(ch) < 32 or ord(ch) > 126:
            _refuse(fn, 0, "non printable-ASCII character in literal %r" % text)
    return '(s"%s")' % text.replace('"', '""')


def coq_items(fn, items):
    out = []
    for it in items:
        if it[0] == "lit":
            out.append("FLit %s" % coq_str(fn, it[1]))
        elif it[0] == "str":
            out.append("FStr %s %d" % ("true" if it[1] else "false", it[2]))
        elif it[0] == "fix":
            out.append("FFix %d %d" % (it[1], it[2]))
        elif it[0] == "int":
            out.append("FInt %d" % it[1])
        elif it[0] == "gen":
            out.append("FGen %d" % it[1])
    return "[" + "; ".join(out) + "]"


class Out:
    def __init__(self):
        self.lines = []
        self.names = []
        self.table = {}     # name -> python value (for the harness / pinned comparison)

    def spec(self, fn, name, f):
        self.lines.append("Definition %s : list fitem := %s." % (name, coq_items(fn, f["items"])))
        self.names.append((name, "spec"))
        self.table[name] = [list(it) for it in f["items"]]

    def items(self, fn, name, items):
        self.lines.append("Definition %s : list fitem := %s." % (name, coq_items(fn, items)))
        self.names.append((name, "spec"))
        self.table[name] = [list(it) for it in items]

    def lit(self, fn, name, text):
        self.lines.append("Definition %s : str := %s." % (name, coq_str(fn, text)))
        self.names.append((name, "lit"))
        self.table[name] = text

    def nat(self, name, v):
        self.lines.append("Definition %s : nat := %d." % (name, v))
        self.names.append((name, "nat"))
        self.table[name] = v

    def rng(self, name, lo, hi):
        self.lines.append("Definition %s : nat * nat := (%d, %d)." % (name, lo, hi))
        self.names.append((name, "rng"))
        self.table[name] = [lo, hi]

    def boolean(self, name, v):
        self.lines.append("Definition %s : bool := %s." % (name, "true" if v else "false"))
        self.names.append((name, "bool"))
        self.table[name] = bool(v)

    def natlist(self, name, vs):
        self.lines.append("Definition %s : list nat := [%s]." % (name, "; ".join(str(v) for v in vs)))
        self.names.append((name, "natlist"))
        self.table[name] = list(vs)


# ------------------------------------------------------------------------------------------
# the seven formats


def gen_xyz(o):
    fn, m = load("p_xyz", "P_xyz", ["toLines", "parseLines"])
    w, r = m["toLines"], m["parseLines"]
    f = one_format(fn, w, "atom line", lambda f: sig(f) == "sggg",
                   ["a.element", "a.xyz_cartn[0]", "a.xyz_cartn[1]", "a.xyz_cartn[2]"])
    o.spec(fn, "xyz_w_atom", f)
    apps = [ast.unparse(n.args[0]) for n in ast.walk(w.func) if isinstance(n, ast.Call) and isinstance(n.func, ast.Attribute)
            and n.func.attr == "append" and n.args]
    if apps != ["str(len(stru))", "stru.title", "s"]:
        _refuse(fn, w.func, "toLines: appended lines are %s, the model expects count, title, atom lines" % apps)
    s = one_sub(fn, r, "coordinates", "fields")
    o.rng("xyz_r_xyz", s[2], s[3])
    s = one_sub(fn, r, "element", "fields", index=True)
    o.nat("xyz_r_element", s[2])
    if not any(a[1] == ["element"] and a[2] == "element[0].upper() + element[1:].lower()" for a in r.assigns):
        _refuse(fn, r.func, "parseLines: element capitalisation changed")
    ta = [a[2] for a in r.assigns if a[1] == ["stru.title"]]
    if ta == ["lines[start + 1].strip()"]:
        o.boolean("xyz_r_title_optional", False)
    elif ta == ["lines[start + 1].strip() if start + 1 < len(lines) else ''"]:
        o.boolean("xyz_r_title_optional", True)
    else:
        _refuse(fn, r.func, "parseLines: title assignment not recognised: %s" % ta)
    nf = [a for a in r.assigns if a[1] == ["nfields"]]
    cmp4 = [n for n in ast.walk(r.func) if isinstance(n, ast.Compare) and ast.unparse(n.left) == "nfields"
            and isinstance(n.comparators[0], ast.Constant)]
    if len(cmp4) != 1 or not isinstance(cmp4[0].ops[0], ast.NotEq) or not nf:
        _refuse(fn, r.func, "parseLines: column-count test not recognised")
    o.nat("xyz_r_ncols", cmp4[0].comparators[0].value)


def gen_rawxyz(o):
    fn, m = load("p_rawxyz", "P_rawxyz", ["toLines", "parseLines"])
    w, r = m["toLines"], m["parseLines"]
    f = one_format(fn, w, "atom line", lambda f: sig(f) == "sggg",
                   ["a.element", "a.xyz_cartn[0]", "a.xyz_cartn[1]", "a.xyz_cartn[2]"])
    o.spec(fn, "rawxyz_w_atom", f)
    apps = [ast.unparse(n.args[0]) for n in ast.walk(w.func) if isinstance(n, ast.Call) and isinstance(n.func, ast.Attribute)
            and n.func.attr == "append" and n.args]
    if apps != ["s.lstrip()"]:
        _refuse(fn, w.func, "toLines: appended lines are %s, the model expects s.lstrip()" % apps)
    tup = [a for a in r.assigns if a[1] == ["(el_idx, x_idx)"]]
    if sorted(a[2] for a in tup) != ["(0, 1)", "(None, 0)"]:
        _refuse(fn, r.func, "parseLines: element/coordinate column choice changed: %s" % [a[2] for a in tup])
    if not any(a[1] == ["xyz"] and a[2] == "[float(f) for f in fields[x_idx:x_idx + 3]]" for a in r.assigns):
        _refuse(fn, r.func, "parseLines: coordinate slice changed")
    if not any(a[1] == ["element"] and a[2] == "el_idx is not None and fields[el_idx] or ''" for a in r.assigns):
        _refuse(fn, r.func, "parseLines: element column changed")
    o.natlist("rawxyz_r_ncols", [3, 4] if any("nfields not in (3, 4)" in ast.unparse(n) for n in ast.walk(r.func) if isinstance(n, ast.If))
              else _refuse(fn, r.func, "column-count test not recognised"))


PDFFIT_TENSOR = {  # reader: which token of which line feeds which tensor component
    "U[0, 0]": ("wl3", 0), "U[1, 1]": ("wl3", 1), "U[2, 2]": ("wl3", 2),
    "sigU[0, 0]": ("wl4", 0), "sigU[1, 1]": ("wl4", 1), "sigU[2, 2]": ("wl4", 2),
    "U[0, 1]": ("wl5", 0), "U[0, 2]": ("wl5", 1), "U[1, 2]": ("wl5", 2),
    "sigU[0, 1]": ("wl6", 0), "sigU[0, 2]": ("wl6", 1), "sigU[1, 2]": ("wl6", 2),
}


def gen_pdffit(o):
    fn, m = load("p_pdffit", "P_pdffit", ["toLines", "parseLines", "_parse_shape"])
    w, r, rs = m["toLines"], m["parseLines"], m["_parse_shape"]
    P = "PDFFitStructure().pdffit"     # stru_pdffit, inlined (it is then updated from stru.pdffit)
    if not any(isinstance(n, ast.Call) and ast.unparse(n) == "stru_pdffit.update(stru.pdffit)" for n in ast.walk(w.func)):
        _refuse(fn, w.func, "toLines: stru_pdffit is no longer updated from stru.pdffit")
    o.lit(fn, "pdffit_w_title", one_literal(fn, w, "title keyword", lambda t: t.startswith("title")))
    o.lit(fn, "pdffit_w_format", one_literal(fn, w, "format record", lambda t: t.startswith("format")))
    o.lit(fn, "pdffit_w_spcgr", one_literal(fn, w, "spcgr keyword", lambda t: t.startswith("spcgr")))
    o.lit(fn, "pdffit_w_atoms", one_literal(fn, w, "atoms record", lambda t: t.startswith("atoms")))
    o.spec(fn, "pdffit_w_scale", one_format(fn, w, "scale", starts("scale"), [P + "['scale']"]))
    o.spec(fn, "pdffit_w_sharp", one_format(fn, w, "sharp", starts("sharp"),
                                            [P + "['delta2']", P + "['delta1']", P + "['sratio']", P + "['rcut']"]))
    o.spec(fn, "pdffit_w_sphere", one_format(fn, w, "shape sphere", lambda f: "sphere" in f["text"], [P + "['spdiameter']"]))
    o.spec(fn, "pdffit_w_stepcut", one_format(fn, w, "shape stepcut", lambda f: "stepcut" in f["text"], [P + "['stepcut']"]))
    o.spec(fn, "pdffit_w_cell", one_format(fn, w, "cell", starts("cell"),
                                           ["stru.lattice.a", "stru.lattice.b", "stru.lattice.c", "stru.lattice.alpha", "stru.lattice.beta", "stru.lattice.gamma"]))
    o.spec(fn, "pdffit_w_dcell", one_format(fn, w, "dcell", starts("dcell"), ["tuple(%s['dcell'])" % P]))
    o.spec(fn, "pdffit_w_ncell", one_format(fn, w, "ncell", starts("ncell"), ["1", "1", "1", "len(stru)"]))
    o.spec(fn, "pdffit_w_atom", one_format(fn, w, "atom line", lambda f: sig(f) == "sffff",
                                           ["a.element.upper()", "a.xyz[0]", "a.xyz[1]", "a.xyz[2]", "a.occupancy"]))
    SIGU = "a.__dict__.get('sigU', numpy.zeros((3, 3), dtype=float))"
    roles = {
        "sigmas": ["tuple(numpy.concatenate((a.__dict__.get('sigxyz', numpy.zeros(3, dtype=float)), [a.__dict__.get('sigo', 0.0)])))"],
        "Uii": ["(a.U[0][0], a.U[1][1], a.U[2][2])"],
        "Uij": ["(a.U[0][1], a.U[0][2], a.U[1][2])"],
        "sigUii": ["(%s[0][0], %s[1][1], %s[2][2])" % (SIGU, SIGU, SIGU)],
        "sigUij": ["(%s[0][1], %s[0][2], %s[1][2])" % (SIGU, SIGU, SIGU)],
    }
    for nm in ("sigmas", "Uii", "sigUii", "Uij", "sigUij"):
        o.spec(fn, "pdffit_w_" + nm, one_format(fn, w, nm, lambda f, nm=nm: f["args"] == roles[nm]))
    order = [f["line"] for f in (one_format(fn, w, k, p) for k, p in [
        ("scale", starts("scale")), ("sharp", starts("sharp")), ("cell", starts("cell")), ("dcell", starts("dcell")), ("ncell", starts("ncell")),
        ("atom", lambda f: sig(f) == "sffff"), ("sigmas", lambda f: f["args"] == roles["sigmas"]), ("Uii", lambda f: f["args"] == roles["Uii"]),
        ("sigUii", lambda f: f["args"] == roles["sigUii"]), ("Uij", lambda f: f["args"] == roles["Uij"]), ("sigUij", lambda f: f["args"] == roles["sigUij"])])]
    if order != sorted(order):
        _refuse(fn, w.func, "toLines: the records are written in a different order than the model's")
    # reader
    for kw in ("title", "scale", "sharp", "spcgr", "shape", "cell", "dcell", "ncell", "format", "atoms"):
        has_compare(fn, r, "words[0]", kw)
    has_compare(fn, r, "words[0][0]", "#")
    has_compare(fn, r, "words[1]", "pdffit")
    s = one_sub(fn, r, "title text", "line.lstrip()")
    if s[3] != -1:
        _refuse(fn, r.func, "title slice is not open ended")
    o.nat("pdffit_r_title_skip", s[2])
    o.nat("pdffit_r_scale", assign_index(fn, r, "stru.pdffit['scale']", r"float\(words\[(\d+)\]\)"))
    subs = [x for x in r.subs if x[1] == "l1.split()"]
    if [(x[2], x[3]) for x in subs] != [(1, -1), (1, 7), (1, 7), (1, 5)]:
        _refuse(fn, r.func, "parseLines: slices of l1.split() are %s" % [(x[2], x[3]) for x in subs])
    o.nat("pdffit_r_sharp_from", subs[0][2])
    o.rng("pdffit_r_cell", subs[1][2], subs[1][3])
    o.rng("pdffit_r_dcell", subs[2][2], subs[2][3])
    o.rng("pdffit_r_ncell", subs[3][2], subs[3][3])
    s = one_sub(fn, r, "coordinates", "wl1")
    o.rng("pdffit_r_xyz", s[2], s[3])
    o.nat("pdffit_r_occ", assign_index(fn, r, "occ", r"float\(wl1\[(\d+)\]\)"))
    s = one_sub(fn, r, "sigxyz", "wl2")
    o.rng("pdffit_r_sigxyz", s[2], s[3])
    o.nat("pdffit_r_sigo", assign_index(fn, r, "a.sigo", r"float\(wl2\[(\d+)\]\)"))
    # tensor components
    seen = {}
    for (_, targets, value) in r.assigns:
        mm = re.fullmatch(r"float\((wl[3-6])\[(\d)\]\)", value)
        if mm:
            for t in targets:
                seen[t] = (mm.group(1), int(mm.group(2)))
    for t, (ln, ix) in PDFFIT_TENSOR.items():
        if seen.get(t) != (ln, ix):
            _refuse(fn, r.func, "parseLines: %s is read from %s, the model expects %s[%d]" % (t, seen.get(t), ln, ix))
        i, j = int(t[-5]), int(t[-2])
        if i != j and seen.get("%s[%d, %d]" % (t.split("[")[0], j, i)) != (ln, ix):
            _refuse(fn, r.func, "parseLines: %s is not stored symmetrically" % t)
    o.natlist("pdffit_r_Uii", [PDFFIT_TENSOR["U[%d, %d]" % (i, i)][1] for i in range(3)])
    o.natlist("pdffit_r_Uij", [PDFFIT_TENSOR["U[%d, %d]" % ij][1] for ij in ((0, 1), (0, 2), (1, 2))])
    if not any(a[1] == ["element"] and a[2] == "wl1[0][0].upper() + wl1[0][1:].lower()" for a in r.assigns):
        _refuse(fn, r.func, "parseLines: element capitalisation changed")
    o.nat("pdffit_r_shape_kind", assign_index(fn, rs, "shapetype", r"words\[(\d+)\]"))
    o.nat("pdffit_r_shape_sphere", assign_index(fn, rs, "self.stru.pdffit['spdiameter']", r"float\(words\[(\d+)\]\)"))
    o.nat("pdffit_r_shape_stepcut", assign_index(fn, rs, "self.stru.pdffit['stepcut']", r"float\(words\[(\d+)\]\)"))
    has_compare(fn, rs, "shapetype", "sphere")
    has_compare(fn, rs, "shapetype", "stepcut")


def gen_discus(o):
    fn, m = load("p_discus", "P_discus", ["toLines", "parseLines", "_parse_cell", "_parse_ncell", "_parse_spcgr", "_parse_title",
                                         "_parse_shape", "_parse_atom", "_parse_format"])
    w = m["toLines"]
    P = "PDFFitStructure().pdffit"
    if not any(isinstance(n, ast.Call) and ast.unparse(n) == "stru_pdffit.update(stru.pdffit)" for n in ast.walk(w.func)):
        _refuse(fn, w.func, "toLines: stru_pdffit is no longer updated from stru.pdffit")
    o.lit(fn, "discus_w_title", one_literal(fn, w, "title keyword", lambda t: t.startswith("title")))
    o.lit(fn, "discus_w_spcgr", one_literal(fn, w, "spcgr keyword", lambda t: t.startswith("spcgr")))
    o.lit(fn, "discus_w_atoms", one_literal(fn, w, "atoms record", lambda t: t.startswith("atoms")))
    o.spec(fn, "discus_w_sphere", one_format(fn, w, "shape sphere", lambda f: "sphere" in f["text"], [P + "['spdiameter']"]))
    o.spec(fn, "discus_w_stepcut", one_format(fn, w, "shape stepcut", lambda f: "stepcut" in f["text"], [P + "['stepcut']"]))
    o.spec(fn, "discus_w_cell", one_format(fn, w, "cell", starts("cell"), ["self.stru.lattice.abcABG()"]))
    o.spec(fn, "discus_w_ncell", one_format(fn, w, "ncell", starts("ncell"), ["1", "1", "1", "len(self.stru)"]))
    o.spec(fn, "discus_w_atom", one_format(fn, w, "atom line", lambda f: sig(f) == "sffff",
                                           ["a.element.upper()", "a.xyz[0]", "a.xyz[1]", "a.xyz[2]", "a.Bisoequiv"]))
    order = [one_format(fn, w, k, p)["line"] for k, p in [("cell", starts("cell")), ("ncell", starts("ncell")), ("atom", lambda f: sig(f) == "sffff")]]
    if order != sorted(order):
        _refuse(fn, w.func, "toLines: the records are written in a different order than the model's")
    r = m["parseLines"]
    has_compare(fn, r, "words[0]", "atoms")
    has_compare(fn, r, "words[0][0]", "#")
    keys = [k.value for n in ast.walk(r.func) if isinstance(n, ast.Dict) for k in n.keys if isinstance(k, ast.Constant)]
    if sorted(keys) != sorted(["cell", "format", "generator", "molecule", "ncell", "spcgr", "symmetry", "title", "shape"]):
        _refuse(fn, r.func, "parseLines: record dispatch table changed: %s" % keys)
    s = one_sub(fn, m["_parse_title"], "title text", "self.line.lstrip()")
    if s[3] != -1:
        _refuse(fn, r.func, "title slice is not open ended")
    o.nat("discus_r_title_skip", s[2])
    s = one_sub(fn, m["_parse_cell"], "cell", "words")
    o.rng("discus_r_cell", s[2], s[3])
    s = one_sub(fn, m["_parse_ncell"], "ncell", "words")
    o.rng("discus_r_ncell", s[2], s[3])
    s = one_sub(fn, m["_parse_spcgr"], "spcgr", "words")
    if s[3] != -1:
        _refuse(fn, r.func, "spcgr slice is not open ended")
    o.nat("discus_r_spcgr_from", s[2])
    a = m["_parse_atom"]
    s = one_sub(fn, a, "coordinates", "words")
    o.rng("discus_r_xyz", s[2], s[3])
    o.nat("discus_r_biso", assign_index(fn, a, "Biso", r"float\(words\[(\d+)\]\)"))
    if not any(x[1] == ["element"] and x[2] == "words[0][0:1].upper() + words[0][1:].lower()" for x in a.assigns):
        _refuse(fn, a.func, "_parse_atom: element capitalisation changed")
    if not any(x[1] == ["a.Bisoequiv"] and x[2] == "Biso" for x in a.assigns):
        _refuse(fn, a.func, "_parse_atom: Biso is no longer stored in a.Bisoequiv")
    sh = m["_parse_shape"]
    o.nat("discus_r_shape_kind", assign_index(fn, sh, "shapetype", r"wordsfixed\[(\d+)\]"))
    o.nat("discus_r_shape_sphere", assign_index(fn, sh, "self.stru.pdffit['spdiameter']", r"float\(words\[(\d+)\]\)"))
    o.nat("discus_r_shape_stepcut", assign_index(fn, sh, "self.stru.pdffit['stepcut']", r"float\(words\[(\d+)\]\)"))
    has_compare(fn, sh, "shapetype", "sphere")
    has_compare(fn, sh, "shapetype", "stepcut")
    has_compare(fn, m["_parse_format"], "words[1]", "pdffit")


PDB_ATOM_NAMES = ["serial", "name", "altLoc", "resName", "chainID", "resSeq", "iCode", "x", "y", "z", "occupancy", "tempFactor",
                  "segID", "element", "charge"]
PDB_ATOM_ROLES = ["idx + 1", "stru[idx].label or stru[idx].element", "' '", "''", "' '", "1", "' '", "stru[idx].xyz_cartn[0]",
                  "stru[idx].xyz_cartn[1]", "stru[idx].xyz_cartn[2]", "stru[idx].occupancy", "stru[idx].Bisoequiv", "''",
                  "stru[idx].element", "''"]
PDB_ANISOU_ROLE = ["tuple(numpy.around(10000.0 * numpy.array([stru[idx].U[0, 0], stru[idx].U[1, 1], stru[idx].U[2, 2], "
                   "stru[idx].U[0, 1], stru[idx].U[0, 2], stru[idx].U[1, 2]])))"]


def assign_src(fn, meth, target, nth=0, count=1):
    hits = [a for a in meth.assigns if a[1] == [target]]
    if len(hits) != count:
        _refuse(fn, meth.func, "%s: expected %d assignment(s) to %s, found %d" % (meth.func.name, count, target, len(hits)))
    return hits[nth][2]


def slice_of(fn, meth, target, pattern, nth=0, count=1):
    """(lo, hi) captured by `pattern` (two groups) in the value assigned to target."""
    src = assign_src(fn, meth, target, nth, count)
    mm = re.fullmatch(pattern, src)
    if not mm:
        _refuse(fn, meth.func, "%s: %s = %s does not have the shape %s" % (meth.func.name, target, src, pattern))
    return int(mm.group(1)), int(mm.group(2))


def gen_pdb(o):
    fn, m = load("p_pdb", "P_pdb", ["toLines", "titleLines", "cryst1Lines", "atomLines", "parseLines"])
    w, wt, wc, wa, r = m["toLines"], m["titleLines"], m["cryst1Lines"], m["atomLines"], m["parseLines"]
    f = one_format(fn, wa, "ATOM record", starts("ATOM  "), PDB_ATOM_ROLES)
    if f["names"] != PDB_ATOM_NAMES:
        _refuse(fn, f["line"], "ATOM format names are %s" % f["names"])
    o.spec(fn, "pdb_w_atom", f)
    o.spec(fn, "pdb_w_anisou", one_format(fn, wa, "ANISOU fields", lambda f: f["args"] == PDB_ANISOU_ROLE))
    if assign_src(fn, wa, "isotropic") != "not stru.lattice.isanisotropic(a.U)":
        _refuse(fn, wa.func, "atomLines: the isotropy decision is no longer `not stru.lattice.isanisotropic(a.U)`")
    lines3 = [a for a in wa.assigns if a[1] == ["line"]]
    if not lines3 or lines3[0][2] != "'ANISOU' + atomline[6:27] + mid + atomline[72:80]":
        mm = lines3 and re.fullmatch(r"'ANISOU' \+ atomline\[(\d+):(\d+)\] \+ mid \+ atomline\[(\d+):(\d+)\]", lines3[0][2])
        if not mm:
            _refuse(fn, wa.func, "atomLines: ANISOU record is no longer 'ANISOU' + atomline[a:b] + mid + atomline[c:d]")
        k = [int(x) for x in mm.groups()]
    else:
        k = [6, 27, 72, 80]
    o.lit(fn, "pdb_w_anisou_kw", "ANISOU")
    o.rng("pdb_w_keep1", k[0], k[1])
    o.rng("pdb_w_keep2", k[2], k[3])
    o.spec(fn, "pdb_w_cryst1", one_format(fn, wc, "CRYST1 record", starts("CRYST1"),
                                          ["(stru.lattice.a, stru.lattice.b, stru.lattice.c, stru.lattice.alpha, stru.lattice.beta, stru.lattice.gamma)"]))
    if not any(isinstance(n, ast.Compare) and ast.unparse(n) == "latpar != (1.0, 1.0, 1.0, 90.0, 90.0, 90.0)" for n in ast.walk(wc.func)):
        _refuse(fn, wc.func, "cryst1Lines: the default-cell test changed")
    pads = [f for f in wc.formats + w.formats + wt.formats if sig(f) == "s" and len(f["items"]) == 1]
    widths = {f["items"][0][2] for f in pads}
    if len(pads) != 3 or len(widths) != 1 or not all(f["items"][0][1] for f in pads):
        _refuse(fn, w.func, "the three '%%-80s' paddings (TITLE, CRYST1, END) are not uniform: %s" % [f["text"] for f in pads])
    o.nat("pdb_w_pad", widths.pop())
    tf = one_format(fn, wt, "TITLE padding", lambda f: sig(f) == "s" and len(f["items"]) == 1)
    mm = re.fullmatch(r"'(TITLE *)' \+ continuation \+ title\[0:stop\]", tf["args"][0])
    if not mm:
        _refuse(fn, wt.func, "titleLines: record is no longer 'TITLE   ' + continuation + title[0:stop]")
    o.lit(fn, "pdb_w_title", mm.group(1))
    conts = [a[2] for a in wt.assigns if a[1] == ["continuation"]]
    if len(conts) != 2 or not re.fullmatch(r"'( +)'", conts[0]):
        _refuse(fn, wt.func, "titleLines: continuation assignments changed: %s" % conts)
    o.lit(fn, "pdb_w_title_cont", conts[0][1:-1])
    if "60" not in [a[2] for a in wt.assigns if a[1] == ["stop"]] or not any(
            isinstance(n, ast.Compare) and ast.unparse(n) == "stop > 60" for n in ast.walk(wt.func)):
        _refuse(fn, wt.func, "titleLines: the 60-character limit changed")
    o.nat("pdb_w_title_max", 60)
    o.spec(fn, "pdb_w_ter", one_format(fn, w, "TER record", starts("TER   "), ["len(stru) + 1", "''", "' '", "1", "' '", "' '"]))
    ef = one_format(fn, w, "END record", lambda f: f["args"] == ["'END'"])
    o.lit(fn, "pdb_w_end", "END")
    calls = [c for _, c in sorted((n.lineno, ast.unparse(n.args[0])) for n in ast.walk(w.func) if isinstance(n, ast.Call)
                                  and isinstance(n.func, ast.Attribute) and n.func.attr in ("extend", "append") and n.args)]
    if calls != ["self.titleLines(stru)", "self.cryst1Lines(stru)", "self.atomLines(stru, idx)", "line", "'%-80s' % 'END'"]:
        _refuse(fn, w.func, "toLines: records are assembled differently: %s" % calls)
    # reader
    if not any(isinstance(n, ast.Compare) and ast.unparse(n) == "len(line) < 80" for n in ast.walk(r.func)):
        _refuse(fn, r.func, "parseLines: lines are no longer padded to 80 characters")
    o.nat("pdb_r_pad", 80)
    rsrc = assign_src(fn, r, "record")
    if rsrc == "words[0]":
        o.boolean("pdb_r_record_cols", False)
    elif rsrc == "line[:6].strip()":
        o.boolean("pdb_r_record_cols", True)
    else:
        _refuse(fn, r.func, "parseLines: record name is taken from %s" % rsrc)
    order = [n.value for st in ast.walk(ast.parse(open(fn).read())) if isinstance(st, ast.Assign)
             and ast.unparse(st.targets[0]) == "orderOfRecords" for n in st.value.elts]
    if not order or not all(isinstance(x, str) for x in order):
        _refuse(fn, r.func, "orderOfRecords is not a list of string literals")
    seen = []
    for x in order:
        if x not in seen:
            seen.append(x)
    o.lines.append("Definition pdb_r_valid : list str := [%s]." % "; ".join(coq_str(fn, x) for x in seen))
    o.table["pdb_r_valid"] = seen
    o.rng("pdb_r_title_cont", *slice_of(fn, r, "continuation", r"line\[(\d+):(\d+)\]"))
    tl = [s for s in r.subs if s[1] == "line" and s[3] == -1]
    if len(tl) != 2 or tl[0][2] != tl[1][2]:
        _refuse(fn, r.func, "parseLines: title text slices changed")
    o.nat("pdb_r_title_from", tl[0][2])
    cr = []
    for nm in ("a", "b", "c", "alpha", "beta", "gamma"):
        cr += list(slice_of(fn, r, nm, r"float\(line\[(\d+):(\d+)\]\)"))
    o.natlist("pdb_r_cryst1", cr)
    o.rng("pdb_r_name", *slice_of(fn, r, "name", r"line\[(\d+):(\d+)\]\.strip\(\)"))
    src = assign_src(fn, r, "rc")
    mm = re.fullmatch(r"\[float\(line\[i:i \+ (\d+)\]\) for i in \((\d+), (\d+), (\d+)\)\]", src)
    if mm:
        o.natlist("pdb_r_xyz_cols", [int(mm.group(2)), int(mm.group(3)), int(mm.group(4))])
        o.nat("pdb_r_xyz_width", int(mm.group(1)))
    else:
        _refuse(fn, r.func, "parseLines: coordinates are not read from fixed columns: rc = %s" % src)
    o.rng("pdb_r_occ", *slice_of(fn, r, "occupancy", r"float\(line\[(\d+):(\d+)\]\)", nth=0, count=2))
    o.rng("pdb_r_B", *slice_of(fn, r, "B", r"float\(line\[(\d+):(\d+)\]\)"))
    o.rng("pdb_r_element", *slice_of(fn, r, "element", r"line\[(\d+):(\d+)\]\.strip\(\)", nth=0, count=3))
    o.rng("pdb_r_element_fallback", *slice_of(fn, r, "element", r"line\[(\d+):(\d+)\]\.strip\(\)", nth=1, count=3))
    o.rng("pdb_r_anisou", *slice_of(fn, r, "Uij", r"\[float\(x\) \* 0\.0001 for x in line\[(\d+):(\d+)\]\.split\(\)\]"))
    if assign_src(fn, r, "uiso", nth=0, count=2) != "B / (8 * pi ** 2)":
        _refuse(fn, r.func, "parseLines: uiso is no longer B / (8 * pi**2)")
    for rec in ("TITLE", "CRYST1", "ANISOU"):
        has_compare(fn, r, "record", rec)


XCFG_AUX = [("occupancy", "a.occupancy"), ("Uiso", "uflat[0]"), ("U11", "uflat[0]"), ("U22", "uflat[4]"), ("U33", "uflat[8]"),
            ("U12", "uflat[1]"), ("U13", "uflat[2]"), ("U23", "uflat[5]")]


def gen_xcfg(o):
    from decimal import Decimal
    fn, m = load("p_xcfg", "P_xcfg", ["toLines", "parseLines"], toplevel=["_assign_auxiliaries"])
    w, r = m["toLines"], m["parseLines"]
    o.spec(fn, "xcfg_w_nparticles", one_format(fn, w, "Number of particles", starts("Number of particles"), ["len(stru)"]))
    fa = one_format(fn, w, "A", starts("A = "))
    o.spec(fn, "xcfg_w_A", fa)
    o.spec(fn, "xcfg_w_H0", one_format(fn, w, "H0", starts("H0("), ["i + 1", "j + 1", "stru.lattice.base[i, j]"]))
    o.spec(fn, "xcfg_w_entry_count", one_format(fn, w, "entry_count", starts("entry_count")))
    o.spec(fn, "xcfg_w_auxiliary", one_format(fn, w, "auxiliary", starts("auxiliary["), ["i", "p_auxiliaries[i][0]"]))
    o.spec(fn, "xcfg_w_mass", one_format(fn, w, "atomic mass", lambda f: sig(f) == "f" and len(f["items"]) == 1, ["AtomicMass.get(p_element, 0.0)"]))
    o.lit(fn, "xcfg_w_novel", one_literal(fn, w, ".NO_VELOCITY.", lambda t: t == ".NO_VELOCITY."))
    precs = {b["item"][1] for b in w.braces}
    exprs = [b["expr"] for b in w.braces]
    if exprs != ["pos[0]", "pos[1]", "pos[2]", "v[0]", "v[1]", "v[2]"] or len(precs) != 1:
        _refuse(fn, w.func, "toLines: entry templates are %s" % [b["text"] for b in w.braces])
    dyn = [ast.unparse(n) for n in ast.walk(w.func) if isinstance(n, ast.BinOp) and ast.unparse(n).startswith("'{' + e + ")]
    mm = dyn and re.fullmatch(r"'\{' \+ e \+ ':\.(\d+)g\}'", dyn[0])
    if not mm or int(mm.group(1)) not in precs:
        _refuse(fn, w.func, "toLines: auxiliary entry template changed: %s" % dyn)
    o.nat("xcfg_w_entry_prec", precs.pop())
    if not any(isinstance(n, ast.Call) and ast.unparse(n) == "' '.join(fmwords)" for n in ast.walk(w.func)):
        _refuse(fn, w.func, "toLines: entry fields are no longer joined by one blank")
    if "pos = a.xyz / p_A + p_dxyz" not in [ast.unparse(n) for n in ast.walk(w.func) if isinstance(n, ast.Assign)]:
        _refuse(fn, w.func, "toLines: reduced position is no longer a.xyz / p_A + p_dxyz")
    tuples = [(n.elts[0].value, n.elts[1].value) for n in ast.walk(w.func) if isinstance(n, ast.Tuple) and len(n.elts) == 2
              and all(isinstance(e, ast.Constant) and isinstance(e.value, str) for e in n.elts)]
    if sorted(tuples) != sorted(XCFG_AUX):
        _refuse(fn, w.func, "toLines: auxiliary (name, expression) pairs are %s" % tuples)
    src = ast.unparse(w.func)
    for need in ("if a.occupancy != 1.0:", "if stru.lattice.isanisotropic(a.U):", "if p_allUzero and numpy.any(a.U != 0.0):",
                 "numpy.any(allU[:, 0, 1] != 0.0)", "numpy.any(allU[:, 0, 2] != 0.0)", "numpy.any(allU[:, 1, 2] != 0.0)",
                 "if a.element != p_element:", "re.match('(occupancy|[BU]iso|[BU][123][123])$', aux)",
                 "p_entry_count = (3 if p_NO_VELOCITY else 6) + len(p_auxiliaries)"):
        if need not in src:
            _refuse(fn, w.func, "toLines: expected statement not found: %s" % need)
    # atomic masses
    tree = ast.parse(open(fn).read())
    am = [st for st in tree.body if isinstance(st, ast.Assign) and ast.unparse(st.targets[0]) == "AtomicMass"]
    if len(am) != 1 or not isinstance(am[0].value, ast.Dict):
        _refuse(fn, 0, "AtomicMass is not a dictionary literal")
    rows = []
    for k, v in zip(am[0].value.keys, am[0].value.values):
        if not (isinstance(k, ast.Constant) and isinstance(k.value, str) and isinstance(v, ast.Constant) and isinstance(v.value, (int, float))):
            _refuse(fn, am[0], "AtomicMass entry is not 'symbol': number")
        d = Decimal(float(v.value))          # exact value of the double the source denotes
        sign, digits, exp = d.as_tuple()
        mant = int("".join(map(str, digits)))
        if exp > 0:
            mant, exp = mant * 10 ** exp, 0
        rows.append("(%s, Dec false %d%%N %d)" % (coq_str(fn, k.value), mant, -exp))
    o.lines.append("Definition xcfg_masses : list (str * dec) := [%s]." % "; ".join(rows))
    o.table["xcfg_masses"] = len(rows)
    # reader
    rsrc = ast.unparse(r.func)
    pats = {"xcfg_r_nparticles": r"line\.find\('(Number of particles =)'\) != 0", "xcfg_r_A": r"line\.find\('(A =)'\) == 0",
            "xcfg_r_H0": r"line\.find\('(H0\()'\) == 0", "xcfg_r_novel": r"line\.find\('(\.NO_VELOCITY\.)'\) == 0",
            "xcfg_r_entry_count": r"line\.find\('(entry_count =)'\) == 0"}
    for nm, pat in pats.items():
        mm = re.search(pat, rsrc)
        if not mm:
            _refuse(fn, r.func, "parseLines: header test for %s not found" % nm)
        o.lit(fn, nm, mm.group(1).replace("\\", ""))
    o.nat("xcfg_r_nparticles_from", assign_index(fn, r, "xcfg_Number_of_particles", r"int\(line\[(\d+):\]\.split\(None, 1\)\[0\]\)") if False else
          int(re.search(r"xcfg_Number_of_particles = int\(line\[(\d+):\]\.split\(None, 1\)\[0\]\)", rsrc).group(1)))
    o.nat("xcfg_r_A_from", int(re.search(r"xcfg_A = float\(line\[(\d+):\]\.split\(None, 1\)\[0\]\)", rsrc).group(1)))
    mm = re.search(r"i, j = \(int\(line\[(\d+)\]\) - 1, int\(line\[(\d+)\]\) - 1\)", rsrc)
    m2 = re.search(r"xcfg_H0\[i, j\] = float\(line\[(\d+):\]\.split\(None, 1\)\[0\]\)", rsrc)
    m3 = re.search(r"xcfg_entry_count = int\(line\[(\d+):\]\.split\(None, 1\)\[0\]\)", rsrc)
    if not (mm and m2 and m3):
        _refuse(fn, r.func, "parseLines: H0 / entry_count slices not recognised")
    o.natlist("xcfg_r_H0_cols", [int(mm.group(1)), int(mm.group(2)), int(m2.group(1))])
    o.nat("xcfg_r_entry_count_from", int(m3.group(1)))
    if "re.compile('^auxiliary\\\\[(\\\\d+)\\\\] =')" not in rsrc:
        _refuse(fn, r.func, "parseLines: auxiliary pattern changed")
    for need in ("xyz = [xcfg_A * xi for xi in fields[:3]]", "p_element = w[:1].upper() + w[1:].lower()",
                 "if len(words) == 1 and isfloat(words[0]):", "elif len(words) <= 1:",
                 "elif len(words) == xcfg_entry_count and p_element is not None:",
                 "ecnt = len(p_auxiliary) + (3 if xcfg_NO_VELOCITY else 6)"):
        if need not in rsrc:
            _refuse(fn, r.func, "parseLines: expected statement not found: %s" % need)


CIF_ATOM_ROLES = ["a_site_label[i]", "a.element", "a.xyz[0]", "a.xyz[1]", "a.xyz[2]", "a.Uisoequiv", "a_adp_type[i]", "a.occupancy"]


def gen_cif(o):
    fn, m = load("p_cif", "P_cif", ["toLines"])
    w = m["toLines"]
    meta = [f for f in w.formats if sig(f) == "ss" and f["items"][0][0] == "str"]
    cell = [f for f in w.formats if sig(f) == "sg"]
    if len(meta) != 5 or len({str(f["items"]) for f in meta}) != 1 or len(cell) != 6 or len({str(f["items"]) for f in cell}) != 1:
        _refuse(fn, w.func, "toLines: expected 5 uniform '%-31s %s' and 6 uniform '%-31s %.6g' records")
    o.spec(fn, "cif_w_meta", meta[0])
    o.spec(fn, "cif_w_cell", cell[0])
    rows = []
    for f in meta:
        k = ast.literal_eval(f["args"][0])
        v = "@DATE@" if "time.gmtime" in f["args"][1] else ast.literal_eval(f["args"][1])
        rows.append((k, v))
    o.lines.append("Definition cif_w_meta_rows : list (str * str) := [%s]." % "; ".join("(%s, %s)" % (coq_str(fn, k), coq_str(fn, v)) for k, v in rows))
    o.table["cif_w_meta_rows"] = rows
    keys = [ast.literal_eval(f["args"][0]) for f in cell]
    if [f["args"][1] for f in cell] != ["stru.lattice." + x for x in ("a", "b", "c", "alpha", "beta", "gamma")]:
        _refuse(fn, w.func, "toLines: cell records print %s" % [f["args"][1] for f in cell])
    o.lines.append("Definition cif_w_cell_keys : list str := [%s]." % "; ".join(coq_str(fn, k) for k in keys))
    o.table["cif_w_cell_keys"] = keys
    o.spec(fn, "cif_w_label", one_format(fn, w, "site label", lambda f: sig(f) == "si" and len(f["items"]) == 2,
                                         ["a.element", "cnt"]))
    if "cnt = element_count[a.element] = element_count.get(a.element, 0) + 1" not in ast.unparse(w.func):
        _refuse(fn, w.func, "toLines: site label counter changed")
    o.spec(fn, "cif_w_atom", one_format(fn, w, "atom_site row", lambda f: sig(f) == "ssffffsf", CIF_ATOM_ROLES))
    o.spec(fn, "cif_w_aniso", one_format(fn, w, "aniso row", lambda f: sig(f) == "sffffff",
                                         ["a_site_label[i]"] + ["a.U[%s]" % ij for ij in ("0, 0", "1, 1", "2, 2", "0, 1", "0, 2", "1, 2")]))
    lits = [x for _, x in w.literals]
    want_site = ["loop_", "  _atom_site_label", "  _atom_site_type_symbol", "  _atom_site_fract_x", "  _atom_site_fract_y", "  _atom_site_fract_z",
                 "  _atom_site_U_iso_or_equiv", "  _atom_site_adp_type", "  _atom_site_occupancy"]
    want_aniso = ["loop_", "  _atom_site_aniso_label"] + ["  _atom_site_aniso_U_%s" % x for x in ("11", "22", "33", "12", "13", "23")]
    def sub(hay, needle):
        return any(hay[i:i + len(needle)] == needle for i in range(len(hay)))
    if not sub(lits, want_site) or not sub(lits, want_aniso) or "data_3D" not in lits:
        _refuse(fn, w.func, "toLines: literal lines changed: %s" % lits)
    o.lines.append("Definition cif_w_site_header : list str := [%s]." % "; ".join(coq_str(fn, x) for x in want_site))
    o.lines.append("Definition cif_w_aniso_header : list str := [%s]." % "; ".join(coq_str(fn, x) for x in want_aniso))
    o.lit(fn, "cif_w_data", "data_3D")
    o.lit(fn, "cif_w_comment", "# ")
    src = ast.unparse(w.func)
    for need in ("if not stru.lattice.isanisotropic(a.U):", "a_adp_type.append('Uiso')", "a_adp_type.append('Uani')",
                 "idx_aniso = [i for i in range(len(stru)) if a_adp_type[i] != 'Uiso']", "if stru.title.strip() != '':",
                 "lines.extend(['# ' + line.strip() for line in title_lines])"):
        if need not in src:
            _refuse(fn, w.func, "toLines: expected statement not found: %s" % need)
    o.table["cif_w_headers"] = [want_site, want_aniso]
    # layout: blank lines after the title, after the 2nd and the 5th metadata record and after the cell records
    blanks = [ln for ln, x in w.literals if x == ""]
    ml, cl = [f["line"] for f in meta], [f["line"] for f in cell]
    dl = [ln for ln, x in w.literals if x == "data_3D"][0]
    ok = (len(blanks) == 4 and blanks[0] < dl < ml[0] and ml[1] < blanks[1] < ml[2] and ml[4] < blanks[2] < cl[0] and cl[5] < blanks[3])
    if not ok:
        _refuse(fn, w.func, "toLines: blank-line layout changed (blank lines at %s)" % blanks)


GENERATORS = [gen_xyz, gen_rawxyz, gen_pdffit, gen_discus, gen_pdb, gen_xcfg, gen_cif]


def build():
    o = Out()
    for g in GENERATORS:
        g(o)
    return o


def generate():
    o = build()
    head = ["(* GENERATED by translate/c04_fmt.py from parsers/p_*.py - do not edit *)",
            "From Coq Require Import List String NArith.", "From DS Require Import Base.C04_Text Base.C04_Decimal Model.C04_Fmt.",
            "Import ListNotations.", "Local Close Scope N_scope.", "Local Open Scope string_scope.", ""]
    tail = ["", "(* every descriptor, for the pinned-format obligation *)",
            "Definition all_specs : list (string * list fitem) := [" +
            "; ".join('("%s", %s)' % (n, n) for n, k in o.names if k == "spec") + "].",
            "Definition all_lits : list (string * str) := [" + "; ".join('("%s", %s)' % (n, n) for n, k in o.names if k == "lit") + "].",
            "Definition all_nats : list (string * list nat) := [" +
            "; ".join('("%s", %s)' % (n, ("[%s]" % n) if k == "nat" else ("[fst %s; snd %s]" % (n, n)) if k == "rng" else
                                     ("[if %s then 1 else 0]" % n) if k == "bool" else n)
                      for n, k in o.names if k in ("nat", "rng", "natlist", "bool")) + "]."]
    return {"Gen/C04_FmtSpecs.v": "\n".join(head + o.lines + tail) + "\n"}


if __name__ == "__main__":
    print(generate()["Gen/C04_FmtSpecs.v"])
