"""Fail-closed translator of the numeric reader of CIF symmetry operators (p_cif.py) -> Gen/C17_SymopRegex.v

Recognised shape (anything else -> TranslatorRefusal):
    _rx_symop_number      = "<pattern>"
    _rx_symop_translation = re.compile("<pattern with %s>" % (_rx_symop_number, ...))     must end in \\Z
    _rx_symop_term        = re.compile("<pattern>")
    def _parseSymOpTranslation(tpart):
        if not _rx_symop_translation.match(tpart): ... raise ValueError(...)
        ... tpart is used afterwards only in `_rx_symop_term.findall(tpart)` and in error messages;
        the only conversions are float(<group>) of the groups found
    def getSymOp(s):   no decorators; the translation vector is changed only by
        t[i] += _parseSymOpTranslation(tpart)   for tpart in the pieces between the [+-]?[xyz] tokens
        t -= numpy.floor(t)
The patterns are parsed with Python's own `re._parser` and emitted as Coq data (`rx` of Model/C17_Regex.v):
literals, character sets (explicit ASCII code points; \\d = 0-9), `.`, alternation, groups, repeats.
"""
import ast
import os
import re

from vlib.core import SRC, TranslatorRefusal

SETUP = True
FILE = os.path.join("parsers", "p_cif.py")

try:
    import re._parser as sre_parse      # Python 3.11+
    import re._constants as sre_c
except ImportError:                      # pragma: no cover
    import sre_parse
    import sre_constants as sre_c


def _refuse(node, why):
    raise TranslatorRefusal("%s:%s: %s" % (FILE, getattr(node, "lineno", "?"), why))


def fold(node, env):
    """constant string expression: literal, name bound to a constant string, "..." % name / tuple"""
    if isinstance(node, ast.Constant) and isinstance(node.value, str):
        return node.value
    if isinstance(node, ast.Name) and node.id in env:
        return env[node.id]
    if isinstance(node, ast.BinOp) and isinstance(node.op, ast.Mod):
        left = fold(node.left, env)
        r = node.right
        args = tuple(fold(e, env) for e in r.elts) if isinstance(r, ast.Tuple) else (fold(r, env),)
        return left % args
    if isinstance(node, ast.BinOp) and isinstance(node.op, ast.Add):
        return fold(node.left, env) + fold(node.right, env)
    _refuse(node, "pattern is not a constant string expression: " + ast.unparse(node)[:60])


def set_chars(items, node):
    out = []
    for op, av in items:
        if op is sre_c.LITERAL:
            out.append(av)
        elif op is sre_c.RANGE:
            lo, hi = av
            if hi - lo > 64:
                _refuse(node, "character range too wide")
            out += list(range(lo, hi + 1))
        elif op is sre_c.CATEGORY and av is sre_c.CATEGORY_DIGIT:
            out += list(range(48, 58))
        else:
            _refuse(node, "character set item not understood: %s" % (op,))
    if any(c > 127 for c in out):
        _refuse(node, "non-ASCII character in a set")
    return sorted(set(out))


def conv_seq(seq, node):
    parts = [conv(op, av, node) for op, av in seq]
    out = "REps"
    for p in reversed(parts):
        out = p if out == "REps" else "(RSeq %s %s)" % (p, out)
    return out


def rset(cs):
    return "(RSet [%s])" % "; ".join(str(c) for c in cs)


def conv(op, av, node):
    if op is sre_c.LITERAL:
        if av > 127:
            _refuse(node, "non-ASCII literal")
        return rset([av])
    if op is sre_c.IN:
        if av and av[0][0] is sre_c.NEGATE:
            _refuse(node, "negated character set")
        return rset(set_chars(av, node))
    if op is sre_c.ANY:
        return "RAny"
    if op is sre_c.BRANCH:
        alts = [conv_seq(s, node) for s in av[1]]
        out = alts[-1]
        for a in reversed(alts[:-1]):
            out = "(RAlt %s %s)" % (a, out)
        return out
    if op is sre_c.SUBPATTERN:
        group, add_flags, del_flags, seq = av
        if add_flags or del_flags:
            _refuse(node, "inline flags")
        return conv_seq(seq, node)
    if op in (sre_c.MAX_REPEAT, sre_c.MIN_REPEAT):
        lo, hi, seq = av
        body = conv_seq(seq, node)
        if lo > 8 or (hi is not sre_c.MAXREPEAT and hi > 8):
            _refuse(node, "repeat count too large")
        out = "(RStar %s)" % body if hi is sre_c.MAXREPEAT else "REps"
        if hi is not sre_c.MAXREPEAT:
            for _ in range(hi - lo):
                out = "(RAlt REps (RSeq %s %s))" % (body, out) if out != "REps" else "(RAlt REps %s)" % body
        for _ in range(lo):
            out = "(RSeq %s %s)" % (body, out) if out != "REps" else body
        return out
    if op is sre_c.CATEGORY and av is sre_c.CATEGORY_DIGIT:
        return rset(list(range(48, 58)))
    _refuse(node, "regular-expression construct not understood: %s" % (op,))


def pattern_to_rx(pat, node, need_anchor):
    try:
        p = sre_parse.parse(pat)
    except Exception as e:
        _refuse(node, "pattern does not parse: %s" % e)
    if p.state.flags & ~sre_c.SRE_FLAG_UNICODE:
        _refuse(node, "pattern flags")
    seq = list(p)
    anchored = bool(seq) and seq[-1][0] is sre_c.AT and seq[-1][1] is sre_c.AT_END_STRING
    if anchored:
        seq = seq[:-1]
    if need_anchor and not anchored:
        _refuse(node, "pattern used with .match() does not end in \\Z")
    for op, av in seq:
        if op is sre_c.AT:
            _refuse(node, "anchor inside the pattern")
    return conv_seq(seq, node), anchored


def analyse(src=None):
    fn = os.path.join(src or SRC, FILE)
    tree = ast.parse(open(fn).read(), fn)
    env, nodes = {}, {}
    compiled = {}
    funcs = {}
    for st in tree.body:
        if isinstance(st, ast.FunctionDef):
            funcs[st.name] = st
        if isinstance(st, ast.Assign) and len(st.targets) == 1 and isinstance(st.targets[0], ast.Name):
            name = st.targets[0].id
            if not name.startswith("_rx_symop"):
                continue
            if name in env or name in compiled:
                _refuse(st, "%s assigned twice" % name)
            v = st.value
            if isinstance(v, ast.Call) and ast.unparse(v.func) == "re.compile":
                if len(v.args) != 1 or v.keywords:
                    _refuse(st, "re.compile with flags")
                compiled[name] = fold(v.args[0], env)
            else:
                env[name] = fold(v, env)
            nodes[name] = st
    for need in ("_rx_symop_translation", "_rx_symop_term"):
        if need not in compiled:
            raise TranslatorRefusal("%s: compiled pattern %s not found" % (FILE, need))
    for name in list(funcs):
        pass
    # no other binding of these names anywhere
    for n in ast.walk(tree):
        if isinstance(n, ast.Name) and n.id.startswith("_rx_symop") and isinstance(n.ctx, (ast.Store, ast.Del)) \
                and not any(n is nodes[k].targets[0] for k in nodes):
            _refuse(n, "pattern rebound")
        if isinstance(n, ast.Attribute) and isinstance(n.value, ast.Name) and n.value.id.startswith("_rx_symop") \
                and isinstance(n.ctx, ast.Store):
            _refuse(n, "pattern object modified")
    if "_parseSymOpTranslation" not in funcs or "getSymOp" not in funcs:
        raise TranslatorRefusal("%s: getSymOp / _parseSymOpTranslation not found" % FILE)
    check_reader(funcs["_parseSymOpTranslation"])
    check_getsymop(funcs["getSymOp"])
    tr, _ = pattern_to_rx(compiled["_rx_symop_translation"], nodes["_rx_symop_translation"], True)
    tm, _ = pattern_to_rx(compiled["_rx_symop_term"], nodes["_rx_symop_term"], False)
    return {"translation": tr, "term": tm, "patterns": compiled}


def check_reader(f):
    if f.decorator_list:
        _refuse(f, "decorated numeric reader")
    if [a.arg for a in f.args.args] != ["tpart"] or f.args.vararg or f.args.kwarg or f.args.kwonlyargs or f.args.defaults:
        _refuse(f, "signature of _parseSymOpTranslation changed")
    body = [s for s in f.body if not (isinstance(s, ast.Expr) and isinstance(s.value, ast.Constant))]
    g = body[0] if body else None
    ok = (isinstance(g, ast.If) and not g.orelse and ast.unparse(g.test) == "not _rx_symop_translation.match(tpart)"
          and isinstance(g.body[-1], ast.Raise) and isinstance(g.body[-1].exc, ast.Call)
          and ast.unparse(g.body[-1].exc.func) == "ValueError")
    if not ok:
        _refuse(f, "the reader does not start with `if not _rx_symop_translation.match(tpart): raise ValueError(...)`")
    for st in g.body[:-1]:
        if not (isinstance(st, ast.Assign) and not any(isinstance(n, ast.Call) for n in ast.walk(st))):
            _refuse(st, "statement before the raise not understood")
    allowed_calls = {"_rx_symop_term.findall", "float", "ValueError"}
    for st in body[1:]:
        for n in ast.walk(st):
            if isinstance(n, ast.Call):
                u = ast.unparse(n.func)
                if u not in allowed_calls:
                    _refuse(n, "call not understood in the numeric reader: " + u[:40])
                if u == "_rx_symop_term.findall" and ast.unparse(n) != "_rx_symop_term.findall(tpart)":
                    _refuse(n, "findall on something else than tpart")
                if u == "float" and not (len(n.args) == 1 and isinstance(n.args[0], ast.Name) and n.args[0].id != "tpart"):
                    _refuse(n, "float() of something else than a matched group")
            if isinstance(n, (ast.Lambda, ast.FunctionDef, ast.Global, ast.Nonlocal, ast.Import, ast.ImportFrom, ast.Attribute)) \
                    and not (isinstance(n, ast.Attribute) and ast.unparse(n) == "_rx_symop_term.findall"):
                _refuse(n, "construct not understood in the numeric reader")
            if isinstance(n, ast.Name) and n.id == "tpart" and isinstance(n.ctx, ast.Store):
                _refuse(n, "tpart rebound")
    # names given to float() must be the loop variables of `for num, denom in _rx_symop_term.findall(tpart)`
    loops = [n for st in body[1:] for n in ast.walk(st) if isinstance(n, ast.For)]
    groupvars = set()
    for lp in loops:
        if ast.unparse(lp.iter) != "_rx_symop_term.findall(tpart)":
            _refuse(lp, "loop over something else than the matched terms")
        groupvars |= {e.id for e in (lp.target.elts if isinstance(lp.target, ast.Tuple) else [lp.target]) if isinstance(e, ast.Name)}
    for st in body[1:]:
        for n in ast.walk(st):
            if isinstance(n, ast.Call) and ast.unparse(n.func) == "float" and n.args[0].id not in groupvars:
                _refuse(n, "float() of a value that is not a matched group")


def check_getsymop(f):
    if f.decorator_list:
        _refuse(f, "getSymOp is decorated (%s)" % ast.unparse(f.decorator_list[0])[:40])
    if [a.arg for a in f.args.args] != ["s"]:
        _refuse(f, "signature of getSymOp changed")
    allowed = {"s.replace", "snoblanks.split", "numpy.zeros", "re.split", "Rpart.lower", "_parseSymOpTranslation", "numpy.floor", "SymOp"}
    stores_t = []
    for n in ast.walk(f):
        if isinstance(n, ast.Call):
            u = ast.unparse(n.func)
            if u not in allowed:
                _refuse(n, "call not understood in getSymOp: " + u[:40])
            if u == "_parseSymOpTranslation" and ast.unparse(n) != "_parseSymOpTranslation(tpart)":
                _refuse(n, "numeric reader applied to something else than tpart")
        if isinstance(n, (ast.Assign, ast.AugAssign)):
            for t in (n.targets if isinstance(n, ast.Assign) else [n.target]):
                base = t
                while isinstance(base, (ast.Subscript, ast.Attribute)):
                    base = base.value
                if isinstance(base, ast.Name) and base.id == "t":
                    stores_t.append(ast.unparse(n))
        if isinstance(n, (ast.Lambda, ast.Global, ast.Nonlocal)):
            _refuse(n, "construct not understood in getSymOp")
    want = {"t = numpy.zeros(3, dtype=float)", "t[i] += _parseSymOpTranslation(tpart)", "t -= numpy.floor(t)"}
    if set(stores_t) != want:
        _refuse(f, "the translation vector is written by %s" % sorted(set(stores_t) ^ want)[:2])
    loops = [n for n in ast.walk(f) if isinstance(n, ast.For) and isinstance(n.target, ast.Name) and n.target.id == "tpart"]
    if len(loops) != 1 or ast.unparse(loops[0].iter) != "eqparts[::2]":
        _refuse(f, "tpart does not range over eqparts[::2]")


def generate():
    a = analyse()
    out = ["(* GENERATED by translate/c17_numeric.py from the pattern literals of p_cif.py *)",
           "From Coq Require Import NArith List.", "From DS Require Import Model.C17_Regex.", "Import ListNotations.",
           "Open Scope N_scope.", ""]
    for k, v in sorted(a["patterns"].items()):
        out.append("(* %s = %s *)" % (k, v.replace("*)", "* )").replace("(*", "( *")))
    out.append("Definition gen_rx_translation : rx := %s." % a["translation"])
    out.append("Definition gen_rx_term : rx := %s." % a["term"])
    return {"Gen/C17_SymopRegex.v": "\n".join(out) + "\n"}


if __name__ == "__main__":
    print(generate()["Gen/C17_SymopRegex.v"])
