"""Fail-closed translator: lazy lookup tables of spacegroups.py -> Gen/C19_LazyTables.v

Translates `_buildSGLookupTable`, `_getSGHashLookupTable`, `GetSpaceGroup`, `FindSpaceGroup`,
`IsSpaceGroupIdentifier` into the shared-state IR of coq/Model/C19_Threads.v.  Only the statement
patterns listed below are recognised; anything else raises TranslatorRefusal.

builder statements (T, R = a module-level table or the one local dictionary):
    T.clear()                                       BClear T
    name = {}                                       BNewLocal
    for sg in SpaceGroupList: T.setdefault(K, sg)+  BFill T FDefault n     K in sg.number | str(sg.number) |
                                                                           sg.short_name | sg.pdb_name | sg.pdb_name.replace(" ", "")
    for sg in SpaceGroupList: h = _hashSymOpList(sg.symop_list); T[h] = sg      BFill T FSet n
    alias_hmname = [("a", "b"), ...]                (data)
    for a, hm in alias_hmname: hmbare = hm.replace(" ", ""); T.setdefault(a, R[hmbare])     BAlias T R
    assert None not in T                            BAssertNoNone T
    assert len(T) == len(SpaceGroupList)            BAssertLen T
    G.update(name)                                  BPublish G
    if G: return G          (first statement)       b_guard
    return | return G | return <self>()             tail
reader statements: see `_reader`.

`analyse()` also returns, for the schedule-replay harness, the number of shared-dictionary operations
each source line performs (line -> count) and the key kinds of each fill loop.
"""
import ast
import os
import re

from vlib.core import SRC, TranslatorRefusal

SETUP = True

TABLES = {"_sg_lookup_table": "GId", "_sg_hash_lookup_table": "GHash"}
BUILDERS = {"_buildSGLookupTable": "GId", "_getSGHashLookupTable": "GHash"}
FUNCS = ["_buildSGLookupTable", "_getSGHashLookupTable", "GetSpaceGroup", "FindSpaceGroup", "IsSpaceGroupIdentifier"]
FILE = "spacegroups.py"


def _refuse(node, why):
    raise TranslatorRefusal("%s:%s: %s" % (FILE, getattr(node, "lineno", "?"), why))


def _is_doc(st):
    return isinstance(st, ast.Expr) and isinstance(st.value, ast.Constant) and isinstance(st.value.value, str)


def _names(node):
    return {n.id for n in ast.walk(node) if isinstance(n, ast.Name)}


KEYKINDS = {
    "sg.number": "number",
    "str(sg.number)": "strnumber",
    "sg.short_name": "short_name",
    "sg.pdb_name": "pdb_name",
    "sg.pdb_name.replace(' ', '')": "pdb_nospace",
    "_hashSymOpList(sg.symop_list)": "hash",
}


class _Builder:
    def __init__(self, fdef, own):
        self.f = fdef
        self.own = own           # the table this function is responsible for
        self.local = None        # name of the local dictionary, if any
        self.stmts = []          # Coq terms
        self.guard = False
        self.tail = None
        self.lines = {}          # lineno -> number of shared operations
        self.loops = []          # key kinds per fill loop (index = position in self.loops)
        self.loop_ids = []       # global loop numbers, filled by analyse()
        self.aliases = None
        self.cross_writes = []   # a builder writing the other table's global (modelled; never of the safe shape)
        self.ir = []             # python mirror of stmts

    def tref(self, node):
        if isinstance(node, ast.Name):
            if node.id in TABLES:
                return ("S", TABLES[node.id])
            if self.local is not None and node.id == self.local:
                return ("L", None)
        _refuse(node, "dictionary reference not understood: " + ast.unparse(node)[:60])

    @staticmethod
    def coq_ref(r):
        return "(TShared %s)" % r[1] if r[0] == "S" else "TLocal"

    @staticmethod
    def cost(r):
        return 1 if r[0] == "S" else 0

    def emit(self, coq, py, line, n):
        self.stmts.append(coq)
        self.ir.append(py)
        self.lines[line] = self.lines.get(line, 0) + n

    def run(self):
        f = self.f
        if f.args.args or f.args.vararg or f.args.kwarg or f.args.kwonlyargs:
            _refuse(f, "builder takes arguments")
        body = [s for s in f.body if not _is_doc(s)]
        if not body:
            _refuse(f, "empty builder")
        # optional own guard: if G: return G
        st = body[0]
        if isinstance(st, ast.If):
            ok = (isinstance(st.test, ast.Name) and st.test.id in TABLES and TABLES[st.test.id] == self.own
                  and not st.orelse and len(st.body) == 1 and isinstance(st.body[0], ast.Return)
                  and isinstance(st.body[0].value, ast.Name) and st.body[0].value.id == st.test.id)
            if not ok:
                _refuse(st, "guard is not `if G: return G` on the function's own table")
            self.guard = True
            self.lines[st.lineno] = 1
            self.lines[st.body[0].lineno] = 0
            body = body[1:]
        if not body or not isinstance(body[-1], ast.Return):
            _refuse(f, "builder does not end with a return statement")
        for st in body[:-1]:
            self.stmt(st)
        self.tailstmt(body[-1])

    def tailstmt(self, st):
        v = st.value
        self.lines[st.lineno] = 0
        if v is None:
            self.tail = "TailReturn"
        elif isinstance(v, ast.Name) and v.id in TABLES and TABLES[v.id] == self.own:
            self.tail = "TailReturn"
        elif isinstance(v, ast.Call) and isinstance(v.func, ast.Name) and v.func.id == self.f.name and not v.args and not v.keywords:
            self.tail = "TailRecurse"
        else:
            _refuse(st, "return value not understood: " + ast.unparse(st)[:60])

    def stmt(self, st):
        # T.clear() / G.update(local)
        if isinstance(st, ast.Expr) and isinstance(st.value, ast.Call) and isinstance(st.value.func, ast.Attribute):
            c = st.value
            meth = c.func.attr
            if meth == "clear" and not c.args and not c.keywords:
                r = self.tref(c.func.value)
                return self.emit("BClear %s" % self.coq_ref(r), ("clear", r), st.lineno, self.cost(r))
            if meth == "update" and len(c.args) == 1 and not c.keywords:
                r = self.tref(c.func.value)
                a = self.tref(c.args[0])
                if r[0] != "S" or a[0] != "L":
                    _refuse(st, "update() is only understood as <module table>.update(<local dictionary>)")
                return self.emit("BPublish %s" % r[1], ("publish", r), st.lineno, 1)
            _refuse(st, "call not understood: " + ast.unparse(st)[:60])
        if isinstance(st, ast.Assign) and len(st.targets) == 1 and isinstance(st.targets[0], ast.Name):
            name = st.targets[0].id
            if isinstance(st.value, ast.Dict) and not st.value.keys:
                if self.local is not None and self.local != name:
                    _refuse(st, "a second local dictionary")
                if name in TABLES:
                    _refuse(st, "module table rebound locally")
                self.local = name
                return self.emit("BNewLocal", ("newlocal",), st.lineno, 0)
            if name == "alias_hmname" and isinstance(st.value, ast.List):
                al = []
                for e in st.value.elts:
                    if not (isinstance(e, ast.Tuple) and len(e.elts) == 2 and
                            all(isinstance(x, ast.Constant) and isinstance(x.value, str) for x in e.elts)):
                        _refuse(e, "alias entry is not a pair of string literals")
                    al.append((e.elts[0].value, e.elts[1].value))
                self.aliases = al
                for ln in range(st.lineno, st.end_lineno + 1):
                    self.lines[ln] = 0
                return
            _refuse(st, "assignment not understood: " + ast.unparse(st)[:60])
        if isinstance(st, ast.For) and not st.orelse:
            it = st.iter
            if isinstance(it, ast.Name) and it.id == "SpaceGroupList" and isinstance(st.target, ast.Name) and st.target.id == "sg":
                return self.fill(st)
            if (isinstance(it, ast.Name) and it.id == "alias_hmname" and isinstance(st.target, ast.Tuple)
                    and [getattr(e, "id", None) for e in st.target.elts] == ["a", "hm"]):
                return self.alias(st)
            _refuse(st, "loop not understood: " + ast.unparse(st).split("\n")[0][:60])
        if isinstance(st, ast.Assert) and st.msg is None:
            t = st.test
            if (isinstance(t, ast.Compare) and len(t.ops) == 1 and isinstance(t.ops[0], ast.NotIn)
                    and isinstance(t.left, ast.Constant) and t.left.value is None):
                r = self.tref(t.comparators[0])
                return self.emit("BAssertNoNone %s" % self.coq_ref(r), ("assert_none", r), st.lineno, self.cost(r))
            if (isinstance(t, ast.Compare) and len(t.ops) == 1 and isinstance(t.ops[0], ast.Eq)
                    and ast.unparse(t.comparators[0]) == "len(SpaceGroupList)"
                    and isinstance(t.left, ast.Call) and isinstance(t.left.func, ast.Name) and t.left.func.id == "len"
                    and len(t.left.args) == 1):
                r = self.tref(t.left.args[0])
                return self.emit("BAssertLen %s" % self.coq_ref(r), ("assert_len", r), st.lineno, self.cost(r))
            _refuse(st, "assertion not understood: " + ast.unparse(st)[:60])
        _refuse(st, "statement not understood: " + ast.unparse(st).split("\n")[0][:60])

    def fill(self, st):
        self.lines[st.lineno] = 0
        body = st.body
        # hash form
        if (len(body) == 2 and isinstance(body[0], ast.Assign) and ast.unparse(body[0]) == "h = _hashSymOpList(sg.symop_list)"
                and isinstance(body[1], ast.Assign) and len(body[1].targets) == 1
                and isinstance(body[1].targets[0], ast.Subscript) and ast.unparse(body[1].targets[0].slice) == "h"
                and ast.unparse(body[1].value) == "sg"):
            r = self.tref(body[1].targets[0].value)
            self.lines[body[0].lineno] = 0
            self.lines[body[1].lineno] = self.cost(r)
            self.loops.append(["hash"])
            return self.emit(("BFill %s FSet " % self.coq_ref(r)) + "%d", ("fill", r, "set", len(self.loops) - 1), st.lineno, 0)
        # setdefault form; the statements of one pass may address several dictionaries.  Writes to the local
        # dictionary are invisible to other threads, so a pass with local writes and writes to ONE module table is the
        # same, for every observer, as a local loop followed by a loop over that module table (one BFill each).
        groups = []          # [(ref, [kinds])] in order of first appearance
        for b in body:
            ok = (isinstance(b, ast.Expr) and isinstance(b.value, ast.Call) and isinstance(b.value.func, ast.Attribute)
                  and b.value.func.attr == "setdefault" and len(b.value.args) == 2 and not b.value.keywords
                  and ast.unparse(b.value.args[1]) == "sg")
            if not ok:
                _refuse(b, "fill statement is not `T.setdefault(<key of sg>, sg)`")
            k = ast.unparse(b.value.args[0])
            if k not in KEYKINDS:
                _refuse(b, "key expression not understood: " + k[:60])
            r = self.tref(b.value.func.value)
            for g in groups:
                if g[0] == r:
                    g[1].append(KEYKINDS[k])
                    break
            else:
                groups.append((r, [KEYKINDS[k]]))
            self.lines[b.lineno] = self.lines.get(b.lineno, 0) + self.cost(r)
        if not groups:
            _refuse(st, "empty loop")
        if sum(1 for r, _ in groups if r[0] == "S") > 1:
            _refuse(st, "one pass writes two module-level tables (their interleaving cannot be split into loops)")
        for r, kinds in groups:
            if r[0] == "S" and r[1] != self.own:
                self.cross_writes.append("%s writes the other table %s at line %d" % (self.f.name, r[1], st.lineno))
            self.loops.append(kinds)
            self.emit(("BFill %s FDefault " % self.coq_ref(r)) + "%d", ("fill", r, "default", len(self.loops) - 1), st.lineno, 0)
        return

    def alias(self, st):
        self.lines[st.lineno] = 0
        if self.aliases is None:
            _refuse(st, "alias_hmname is not a literal list defined before the loop")
        b = st.body
        # the local holding the blank-free symbol may have any name
        loc = b[0].targets[0].id if (b and isinstance(b[0], ast.Assign) and len(b[0].targets) == 1 and isinstance(b[0].targets[0], ast.Name)) else "hmbare"
        ok = (len(b) == 2 and isinstance(b[0], ast.Assign) and loc not in ("a", "hm") and ast.unparse(b[0]) == "%s = hm.replace(' ', '')" % loc
              and isinstance(b[1], ast.Expr) and isinstance(b[1].value, ast.Call)
              and isinstance(b[1].value.func, ast.Attribute) and b[1].value.func.attr == "setdefault"
              and len(b[1].value.args) == 2 and ast.unparse(b[1].value.args[0]) == "a"
              and isinstance(b[1].value.args[1], ast.Subscript) and ast.unparse(b[1].value.args[1].slice) == loc)
        if not ok:
            _refuse(st, "alias loop body is not `hmbare = hm.replace(' ', ''); T.setdefault(a, R[hmbare])`")
        t = self.tref(b[1].value.func.value)
        rd = self.tref(b[1].value.args[1].value)
        self.lines[b[0].lineno] = 0
        self.lines[b[1].lineno] = self.cost(t) + self.cost(rd)
        return self.emit("BAlias %s %s" % (self.coq_ref(t), self.coq_ref(rd)), ("alias", t, rd), st.lineno, 0)


PURE_METHODS = {"strip", "replace", "upper", "lower"}


def _pure_expr(node, allowed):
    """String expression over `allowed` names: literals, % formatting, +, slices, strip/replace/upper/lower."""
    for n in ast.walk(node):
        if isinstance(n, ast.Name):
            if n.id not in allowed:
                return False
        elif isinstance(n, ast.Call):
            if not (isinstance(n.func, ast.Attribute) and n.func.attr in PURE_METHODS and not n.keywords):
                return False
        elif not isinstance(n, (ast.Constant, ast.BinOp, ast.Add, ast.Mod, ast.Subscript, ast.Slice, ast.Attribute,
                                ast.Load, ast.Tuple)):
            return False
    return True


def _reader_get(f):
    """GetSpaceGroup -> (coq rstmts, lines, candidate recipe)."""
    if [a.arg for a in f.args.args] != ["sgid"] or f.args.vararg or f.args.kwarg:
        _refuse(f, "GetSpaceGroup signature changed")
    out, lines, recipe = [], {}, []      # recipe: ("assign", src) | ("cand", varname)
    locs = {"sgid"}
    ncand = 0
    body = [s for s in f.body if not _is_doc(s)]
    ended = False
    for st in body:
        if ended:
            _refuse(st, "statement after the final raise")
        # if not G: builder()
        if isinstance(st, ast.If) and not st.orelse and isinstance(st.test, ast.UnaryOp) and isinstance(st.test.op, ast.Not) \
                and isinstance(st.test.operand, ast.Name) and st.test.operand.id in TABLES:
            g = TABLES[st.test.operand.id]
            b = st.body
            if not (len(b) == 1 and isinstance(b[0], ast.Expr) and isinstance(b[0].value, ast.Call)
                    and isinstance(b[0].value.func, ast.Name) and BUILDERS.get(b[0].value.func.id) == g
                    and not b[0].value.args and not b[0].value.keywords):
                _refuse(st, "emptiness guard does not call the builder of the tested table")
            out.append("RGuardBuild %s" % g)
            lines[st.lineno] = 1
            lines[b[0].lineno] = 0
            continue
        # unconditional builder call
        if isinstance(st, ast.Expr) and isinstance(st.value, ast.Call) and isinstance(st.value.func, ast.Name) \
                and st.value.func.id in BUILDERS and not st.value.args and not st.value.keywords:
            out.append("RCall %s" % BUILDERS[st.value.func.id])
            lines[st.lineno] = 0
            continue
        # if X in G: return G[X]
        if isinstance(st, ast.If) and not st.orelse and isinstance(st.test, ast.Compare) and len(st.test.ops) == 1 \
                and isinstance(st.test.ops[0], ast.In) and isinstance(st.test.left, ast.Name) \
                and isinstance(st.test.comparators[0], ast.Name) and st.test.comparators[0].id in TABLES:
            gname = st.test.comparators[0].id
            var = st.test.left.id
            b = st.body
            if var not in locs or not (len(b) == 1 and isinstance(b[0], ast.Return)
                                        and ast.unparse(b[0].value) == "%s[%s]" % (gname, var)):
                _refuse(st, "lookup is not `if X in G: return G[X]`")
            out.append("RTry %s %d" % (TABLES[gname], ncand))
            recipe.append(("cand", var))
            ncand += 1
            lines[st.lineno] = 1
            lines[b[0].lineno] = 1
            continue
        # if not isinstance(sgid, str): raise ValueError(emsg)
        if isinstance(st, ast.If) and not st.orelse and ast.unparse(st.test) == "not isinstance(sgid, str)" \
                and len(st.body) == 1 and isinstance(st.body[0], ast.Raise) and _raises_value_error(st.body[0], locs):
            out.append("RStrGuard")
            recipe.append(("strguard",))
            lines[st.lineno] = 0
            lines[st.body[0].lineno] = 0
            continue
        if isinstance(st, ast.Raise) and _raises_value_error(st, locs):
            out.append("RRaise")
            lines[st.lineno] = 0
            ended = True
            continue
        if isinstance(st, ast.Assign) and len(st.targets) == 1 and isinstance(st.targets[0], ast.Name) \
                and st.targets[0].id not in TABLES and _pure_expr(st.value, locs):
            locs.add(st.targets[0].id)
            recipe.append(("assign", ast.unparse(st)))
            lines[st.lineno] = 0
            continue
        _refuse(st, "statement not understood: " + ast.unparse(st).split("\n")[0][:60])
    if not ended:
        _refuse(f, "GetSpaceGroup does not end with `raise ValueError(...)`")
    return out, lines, recipe


def _raises_value_error(st, locs):
    e = st.exc
    return (isinstance(e, ast.Call) and isinstance(e.func, ast.Name) and e.func.id == "ValueError" and st.cause is None
            and all(_pure_expr(a, locs) for a in e.args) and not e.keywords)


def _reader_find(f):
    if [a.arg for a in f.args.args] != ["symops", "shuffle"]:
        _refuse(f, "FindSpaceGroup signature changed")
    body = [s for s in f.body if not _is_doc(s)]
    out, lines = [], {}
    if len(body) < 5:
        _refuse(f, "FindSpaceGroup body too short")
    s0, s1, s2, s3 = body[:4]
    if isinstance(s0, ast.Assign) and ast.unparse(s0) == "hh = _hashSymOpList(symops)":
        s0, s1 = s1, s0          # the two independent assignments may come in either order
    if not (isinstance(s0, ast.Assign) and ast.unparse(s0) == "tb = _getSGHashLookupTable()"):
        _refuse(s0, "expected `tb = _getSGHashLookupTable()`")
    out.append("RCall GHash")
    lines[s0.lineno] = 0
    if not (isinstance(s1, ast.Assign) and ast.unparse(s1) == "hh = _hashSymOpList(symops)"):
        _refuse(s1, "expected `hh = _hashSymOpList(symops)`")
    lines[s1.lineno] = 0
    if not (isinstance(s2, ast.If) and not s2.orelse and ast.unparse(s2.test) == "hh not in tb" and len(s2.body) == 1
            and isinstance(s2.body[0], ast.Raise) and _raises_value_error(s2.body[0], set())):
        _refuse(s2, "expected `if hh not in tb: raise ValueError(...)`")
    out.append("RMissRaise GHash 0")
    lines[s2.lineno] = 1
    lines[s2.body[0].lineno] = 0
    if not (isinstance(s3, ast.Assign) and ast.unparse(s3) == "rv = tb[hh]"):
        _refuse(s3, "expected `rv = tb[hh]`")
    out.append("RRetLookup GHash 0")
    lines[s3.lineno] = 1
    rest = body[4:]
    for st in rest:
        used = _names(st)
        if used & (set(TABLES) | set(BUILDERS) | {"tb"}):
            _refuse(st, "statement after the lookup touches a lookup table")
        for n in ast.walk(st):
            if hasattr(n, "lineno"):
                lines.setdefault(n.lineno, 0)
    if not (isinstance(rest[-1], ast.Return) and ast.unparse(rest[-1]) == "return rv"):
        _refuse(rest[-1], "FindSpaceGroup does not end with `return rv`")
    return out, lines


ISID = ("try:\n    GetSpaceGroup(sgid)\n    rv = True\nexcept ValueError:\n    rv = False\nreturn rv")


def analyse(src_dir=None):
    src_dir = src_dir or SRC
    fn = os.path.join(src_dir, FILE)
    text = open(fn).read()
    tree = ast.parse(text, fn)
    funcs = {}
    for st in tree.body:
        if isinstance(st, ast.FunctionDef) and st.name in FUNCS:
            if st.name in funcs:
                raise TranslatorRefusal("%s: %s defined twice" % (FILE, st.name))
            if st.decorator_list:
                _refuse(st, "decorated function")
            funcs[st.name] = st
    for n in FUNCS:
        if n not in funcs:
            raise TranslatorRefusal("%s: function %s not found" % (FILE, n))
    # the tables: module-level `name = {}` exactly once; no other use outside the five functions
    inside = set()
    for f in funcs.values():
        inside |= {id(n) for n in ast.walk(f)}
    defs = {}
    for st in tree.body:
        if isinstance(st, ast.Assign) and len(st.targets) == 1 and isinstance(st.targets[0], ast.Name) and st.targets[0].id in TABLES:
            if not (isinstance(st.value, ast.Dict) and not st.value.keys) or st.targets[0].id in defs:
                _refuse(st, "lookup table is not initialised exactly once with {}")
            defs[st.targets[0].id] = st
            inside |= {id(n) for n in ast.walk(st)}
    if set(defs) != set(TABLES):
        raise TranslatorRefusal("%s: module-level tables %s not found" % (FILE, sorted(set(TABLES) - set(defs))))
    for n in ast.walk(tree):
        if id(n) in inside:
            continue
        if isinstance(n, ast.Name) and (n.id in TABLES or n.id in BUILDERS) and not isinstance(n.ctx, ast.Load):
            _refuse(n, "lookup table or builder rebound outside the translated functions")
        if isinstance(n, ast.Name) and n.id in TABLES:
            _refuse(n, "lookup table %s used outside the translated functions" % n.id)
        if isinstance(n, ast.Global):
            if set(n.names) & set(TABLES):
                _refuse(n, "global statement on a lookup table")
    for f in funcs.values():
        for n in ast.walk(f):
            if isinstance(n, (ast.Global, ast.Nonlocal)):
                _refuse(n, "global/nonlocal statement in a translated function")
    # other modules of the package must not touch the private tables
    for root, _, fs in os.walk(src_dir):
        for name in fs:
            if name.endswith(".py") and os.path.join(root, name) != fn:
                t = open(os.path.join(root, name), errors="replace").read()
                m = re.search(r"\b(_sg_lookup_table|_sg_hash_lookup_table|_buildSGLookupTable|_getSGHashLookupTable)\b", t)
                if m:
                    raise TranslatorRefusal("%s uses %s" % (os.path.relpath(os.path.join(root, name), src_dir), m.group(1)))
    builders = {}
    nloop = 0
    for name, g in BUILDERS.items():
        b = _Builder(funcs[name], g)
        b.run()
        b.loop_ids = list(range(nloop, nloop + len(b.loops)))
        nloop += len(b.loops)
        # assign global loop numbers
        stm, ir, j = [], [], 0
        for s, py in zip(b.stmts, b.ir):
            if py[0] == "fill":
                stm.append(s % b.loop_ids[j])
                ir.append(py[:3] + (b.loop_ids[j],))
                j += 1
            else:
                stm.append(s)
                ir.append(py)
        b.stmts, b.ir = stm, ir
        builders[g] = b
    if builders["GId"].guard:
        _refuse(funcs["_buildSGLookupTable"], "unexpected own guard in _buildSGLookupTable")
    get, glines, recipe = _reader_get(funcs["GetSpaceGroup"])
    find, flines = _reader_find(funcs["FindSpaceGroup"])
    isid = funcs["IsSpaceGroupIdentifier"]
    ibody = [s for s in isid.body if not _is_doc(s)]
    if [a.arg for a in isid.args.args] != ["sgid"] or ast.unparse(ast.Module(body=ibody, type_ignores=[])) != ISID:
        _refuse(isid, "IsSpaceGroupIdentifier is not `try: GetSpaceGroup(sgid); rv = True / except ValueError: rv = False / return rv`")
    ilines = {}
    for n in ast.walk(isid):
        if hasattr(n, "lineno") and not _is_doc(n):
            ilines.setdefault(n.lineno, 0)
    loops = {}
    for b in builders.values():
        for i, kinds in zip(b.loop_ids, b.loops):
            loops[i] = kinds
    return {
        "builders": builders, "get": get, "find": find, "recipe": recipe, "loops": loops,
        "aliases": builders["GId"].aliases or [],
        "cross_writes": [w for b in builders.values() for w in b.cross_writes],
        "lines": {"_buildSGLookupTable": builders["GId"].lines, "_getSGHashLookupTable": builders["GHash"].lines,
                  "GetSpaceGroup": glines, "FindSpaceGroup": flines, "IsSpaceGroupIdentifier": ilines},
        "ranges": {n: (f.lineno, f.end_lineno) for n, f in funcs.items()},
    }


def coq_prog(a, name="gen_prog"):
    def bld(b):
        return "{| b_guard := %s; b_stmts := [%s]; b_tail := %s |}" % (
            "true" if b.guard else "false", "; ".join(b.stmts), b.tail)
    return ("Definition %s : prog :=\n  {| p_build := fun g => match g with\n       | GId => %s\n       | GHash => %s\n       end;\n"
            "     p_get := [%s];\n     p_find := [%s] |}.\n" % (name, bld(a["builders"]["GId"]), bld(a["builders"]["GHash"]),
                                                                "; ".join(a["get"]), "; ".join(a["find"])))


def generate():
    a = analyse()
    out = ["(* GENERATED by translate/c19_lazy.py from spacegroups.py: _buildSGLookupTable, _getSGHashLookupTable,",
           "   GetSpaceGroup, FindSpaceGroup, IsSpaceGroupIdentifier *)",
           "From Coq Require Import ZArith List Bool.", "From DS Require Import Model.C19_Threads.",
           "Import ListNotations.", "Open Scope nat_scope.", "", coq_prog(a),
           "(* key kinds of the fill loops: " + "; ".join("%d = %s" % (i, ",".join(k)) for i, k in sorted(a["loops"].items())) + " *)",
           "(* cross-table writes: %s *)" % ("; ".join(a["cross_writes"]) or "none"),
           "Definition gen_alias_count : nat := %d." % len(a["aliases"])]
    return {"Gen/C19_LazyTables.v": "\n".join(out) + "\n"}


if __name__ == "__main__":
    print(generate()["Gen/C19_LazyTables.v"])
