"""Fail-closed translator: space-group tables of /repo -> Coq (Gen/SGTables*.v).

Reads spacegroupmod.py (Rot_* / Tr_* constants), mmlibspacegroups.py, sgtbxspacegroups.py
(SpaceGroup(...) literals and the two list literals) and spacegroups.py (the order in which
the lists are concatenated) with `ast`.  Anything outside the recognised shapes raises
TranslatorRefusal naming file:line.
"""
import ast
import os
from fractions import Fraction

from vlib.core import SRC, TranslatorRefusal

SETUP = True

SCALE = 12
NSHARDS = 12


def _refuse(fn, node, why):
    raise TranslatorRefusal("%s:%s: %s" % (os.path.basename(fn), getattr(node, "lineno", "?"), why))


def _num(fn, node):
    """Exact value of a numeric literal expression: constants, unary minus, p / q."""
    if isinstance(node, ast.Constant) and isinstance(node.value, (int, float)) and not isinstance(node.value, bool):
        return Fraction(repr(node.value)) if isinstance(node.value, float) else Fraction(node.value)
    if isinstance(node, ast.UnaryOp) and isinstance(node.op, (ast.USub, ast.UAdd)):
        v = _num(fn, node.operand)
        return -v if isinstance(node.op, ast.USub) else v
    if isinstance(node, ast.BinOp) and isinstance(node.op, ast.Div):
        d = _num(fn, node.right)
        if d == 0:
            _refuse(fn, node, "division by zero literal")
        return _num(fn, node.left) / d
    _refuse(fn, node, "unrecognised numeric literal " + ast.dump(node)[:80])


def _array(fn, node):
    """numpy.array(<nested list>, float) -> nested lists of Fractions."""
    if not (isinstance(node, ast.Call) and isinstance(node.func, ast.Attribute) and node.func.attr == "array"
            and isinstance(node.func.value, ast.Name) and node.func.value.id == "numpy"):
        _refuse(fn, node, "expected numpy.array(...)")
    if len(node.args) != 2 or node.keywords or not (isinstance(node.args[1], ast.Name) and node.args[1].id == "float"):
        _refuse(fn, node, "expected numpy.array(literal, float)")

    def lst(n):
        if isinstance(n, ast.List):
            return [lst(e) for e in n.elts]
        return _num(fn, n)
    return lst(node.args[0])


def read_constants():
    fn = os.path.join(SRC, "spacegroupmod.py")
    tree = ast.parse(open(fn).read(), fn)
    rots, trs = {}, {}
    for st in tree.body:
        if isinstance(st, ast.Assign) and len(st.targets) == 1 and isinstance(st.targets[0], ast.Name):
            name = st.targets[0].id
            if name.startswith("Rot_"):
                m = _array(fn, st.value)
                if len(m) != 3 or any(not isinstance(r, list) or len(r) != 3 for r in m):
                    _refuse(fn, st, "rotation %s is not 3x3" % name)
                flat = [x for r in m for x in r]
                if any(x.denominator != 1 for x in flat):
                    _refuse(fn, st, "rotation %s has a non-integer entry" % name)
                if name in rots:
                    _refuse(fn, st, "rotation %s assigned twice" % name)
                rots[name] = [int(x) for x in flat]
            elif name.startswith("Tr_"):
                v = _array(fn, st.value)
                if len(v) != 3 or any(isinstance(x, list) for x in v):
                    _refuse(fn, st, "translation %s is not a 3-vector" % name)
                if any((x * SCALE).denominator != 1 for x in v):
                    _refuse(fn, st, "translation %s is not a multiple of 1/%d" % (name, SCALE))
                if name in trs:
                    _refuse(fn, st, "translation %s assigned twice" % name)
                trs[name] = [int(x * SCALE) for x in v]
            else:
                _refuse(fn, st, "unexpected module-level assignment to %s" % name)
        elif isinstance(st, (ast.Import, ast.ImportFrom, ast.ClassDef)):
            continue
        elif isinstance(st, ast.Expr) and isinstance(st.value, ast.Constant) and isinstance(st.value.value, str):
            continue
        else:
            _refuse(fn, st, "unexpected module-level statement " + type(st).__name__)
    return rots, trs


FIELDS = ["number", "num_sym_equiv", "num_primitive_sym_equiv", "short_name", "point_group_name",
          "crystal_system", "pdb_name", "symop_list"]


def read_groups(basename, listname, rots, trs):
    fn = os.path.join(SRC, basename)
    tree = ast.parse(open(fn).read(), fn)
    groups = {}
    order = None
    for st in tree.body:
        if isinstance(st, (ast.Import, ast.ImportFrom)):
            continue
        if isinstance(st, ast.Expr) and isinstance(st.value, ast.Constant) and isinstance(st.value.value, str):
            continue
        if isinstance(st, ast.Assign) and len(st.targets) == 1 and isinstance(st.targets[0], ast.Name):
            name = st.targets[0].id
            v = st.value
            if isinstance(v, ast.Call) and isinstance(v.func, ast.Name) and v.func.id == "SpaceGroup":
                if v.args:
                    _refuse(fn, st, "SpaceGroup with positional arguments")
                kw = {k.arg: k.value for k in v.keywords}
                if sorted(kw) != sorted(FIELDS):
                    _refuse(fn, st, "SpaceGroup keywords %s" % sorted(kw))
                g = {}
                for f in FIELDS[:3]:
                    n = kw[f]
                    if not (isinstance(n, ast.Constant) and isinstance(n.value, int) and not isinstance(n.value, bool)):
                        _refuse(fn, n, "%s is not an integer literal" % f)
                    g[f] = n.value
                for f in FIELDS[3:7]:
                    n = kw[f]
                    if not (isinstance(n, ast.Constant) and isinstance(n.value, str)):
                        _refuse(fn, n, "%s is not a string literal" % f)
                    if any(ord(c) < 32 or ord(c) > 126 or c == '"' for c in n.value):
                        _refuse(fn, n, "%s has a character outside printable ASCII" % f)
                    g[f] = n.value
                ol = kw["symop_list"]
                if not isinstance(ol, ast.List):
                    _refuse(fn, ol, "symop_list is not a list literal")
                ops = []
                for e in ol.elts:
                    if not (isinstance(e, ast.Call) and isinstance(e.func, ast.Name) and e.func.id == "SymOp"
                            and len(e.args) == 2 and not e.keywords
                            and all(isinstance(x, ast.Name) for x in e.args)):
                        _refuse(fn, e, "expected SymOp(Rot_x, Tr_y)")
                    r, t = e.args[0].id, e.args[1].id
                    if r not in rots or t not in trs:
                        _refuse(fn, e, "unknown constant %s or %s" % (r, t))
                    ops.append((r, t))
                g["ops"] = ops
                g["var"] = name
                if name in groups:
                    _refuse(fn, st, "%s assigned twice" % name)
                groups[name] = g
                continue
            if name == listname and isinstance(v, ast.List) and all(isinstance(e, ast.Name) for e in v.elts):
                if order is not None:
                    _refuse(fn, st, "%s assigned twice" % listname)
                order = [e.id for e in v.elts]
                continue
        _refuse(fn, st, "unexpected module-level statement")
    if order is None:
        raise TranslatorRefusal("%s: %s not found" % (basename, listname))
    for n in order:
        if n not in groups:
            raise TranslatorRefusal("%s: %s lists undefined %s" % (basename, listname, n))
    return [groups[n] for n in order]


def read_list_order():
    """spacegroups.py: SpaceGroupList = mmLibSpaceGroupList + sgtbxSpaceGroupList."""
    fn = os.path.join(SRC, "spacegroups.py")
    tree = ast.parse(open(fn).read(), fn)
    found = None
    for st in ast.walk(tree):
        targets = []
        if isinstance(st, ast.Assign):
            targets = st.targets
        elif isinstance(st, (ast.AugAssign, ast.AnnAssign)):
            targets = [st.target]
        for t in targets:
            for n in ast.walk(t):
                if isinstance(n, ast.Name) and n.id == "SpaceGroupList":
                    if found is not None or not isinstance(st, ast.Assign):
                        _refuse(fn, st, "SpaceGroupList assigned more than once / augmented")
                    found = st
        # in-place list mutation of SpaceGroupList anywhere
        if isinstance(st, ast.Call) and isinstance(st.func, ast.Attribute) and isinstance(st.func.value, ast.Name) \
                and st.func.value.id in ("SpaceGroupList", "mmLibSpaceGroupList", "sgtbxSpaceGroupList") \
                and st.func.attr in ("append", "extend", "insert", "remove", "pop", "sort", "reverse", "clear", "__setitem__", "__delitem__"):
            _refuse(fn, st, "in-place mutation of the space group list")
    if found is None:
        raise TranslatorRefusal("spacegroups.py: SpaceGroupList assignment not found")
    v = found.value
    if not (isinstance(v, ast.BinOp) and isinstance(v.op, ast.Add) and isinstance(v.left, ast.Name)
            and isinstance(v.right, ast.Name)):
        _refuse(fn, found, "SpaceGroupList is not <list> + <list>")
    return [v.left.id, v.right.id]


def load_all():
    rots, trs = read_constants()
    lists = {
        "mmLibSpaceGroupList": read_groups("mmlibspacegroups.py", "mmLibSpaceGroupList", rots, trs),
        "sgtbxSpaceGroupList": read_groups("sgtbxspacegroups.py", "sgtbxSpaceGroupList", rots, trs),
    }
    settings = []
    for n in read_list_order():
        if n not in lists:
            raise TranslatorRefusal("spacegroups.py: unknown list %s" % n)
        settings += lists[n]
    return rots, trs, settings


def zlit(x):
    return "(%d)" % x if x < 0 else "%d" % x


def coq_op(rots, trs, r, t):
    return "(M3 %s, V3 %s)" % (" ".join(zlit(x) for x in rots[r]), " ".join(zlit(x) for x in trs[t]))


def generate():
    rots, trs, settings = load_all()
    files = {}
    n = len(settings)
    # contiguous shards balanced by the cost of the closure decision (~ |G|^3)
    w = [len(g["ops"]) ** 3 + 2000 for g in settings]
    bounds, start = [0], 0
    for k in range(NSHARDS - 1):
        remaining = sum(w[start:])
        target = remaining / (NSHARDS - k)
        acc, i = 0, start
        while i < n - (NSHARDS - 1 - k) and (acc + w[i] / 2.0 < target or i == start):
            acc += w[i]
            i += 1
        bounds.append(i)
        start = i
    bounds.append(n)
    names_all = []
    for s in range(NSHARDS):
        chunk = settings[bounds[s]:bounds[s + 1]]
        per, base = 0, bounds[s]
        out = ["(* GENERATED by translate/sgtables.py from /repo - do not edit *)",
               "From Coq Require Import ZArith List String.", "From DS Require Import Base.ZMat Base.SGDefs.",
               "Import ListNotations.", "Open Scope Z_scope.", "Open Scope string_scope.", ""]
        names = []
        for i, g in enumerate(chunk):
            nm = "st_%d" % (base + i)
            names.append(nm)
            out.append("Definition %s : setting := {| sg_number := %d; sg_nse := %d; sg_npse := %d;" %
                       (nm, g["number"], g["num_sym_equiv"], g["num_primitive_sym_equiv"]))
            out.append('  sg_short := "%s"; sg_pg := "%s"; sg_system := "%s"; sg_pdb := "%s";' %
                       (g["short_name"], g["point_group_name"], g["crystal_system"], g["pdb_name"]))
            out.append("  sg_ops := [" + ";\n    ".join(coq_op(rots, trs, r, t) for r, t in g["ops"]) + "] |}.")
        out.append("")
        out.append("Definition shard%d : list setting := [%s]." % (s, "; ".join(names)))
        files["Gen/SGTables%d.v" % s] = "\n".join(out) + "\n"
        names_all += names
    top = ["(* GENERATED by translate/sgtables.py from /repo - do not edit *)",
           "From Coq Require Import ZArith List String.",
           "From DS Require Import Base.ZMat Base.SGDefs " + " ".join("Gen.SGTables%d" % s for s in range(NSHARDS)) + ".",
           "Import ListNotations.", "Open Scope Z_scope.", "",
           "Definition all_settings : list setting := " + " ++ ".join("shard%d" % s for s in range(NSHARDS)) + ".",
           "Definition n_settings : nat := %d%%nat." % n,
           "",
           "(* the 64 rotation and 32 translation constants of spacegroupmod.py *)",
           "Definition rot_constants : list m3 := [" + "; ".join("M3 " + " ".join(zlit(x) for x in rots[k]) for k in sorted(rots)) + "].",
           "Definition tr_constants : list v3 := [" + "; ".join("V3 " + " ".join(zlit(x) for x in trs[k]) for k in sorted(trs)) + "].",
           ]
    files["Gen/SGTables.v"] = "\n".join(top) + "\n"
    return files


if __name__ == "__main__":
    fs = generate()
    for k, v in fs.items():
        print(k, len(v))
