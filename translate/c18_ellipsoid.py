"""Fail-closed translator: expansion/makeellipsoid.py + expansion/shapeutils.py -> Gen/C18_Spec.v

Extracted:
  * makeSphere(S, radius) = makeEllipsoid(S, <args>) call shape; the defaults `if b is None: b = <radius>`, `if c is None: c = <radius>` (carried into the model as written)
  * the block size: frac = <lattice expression of sabc>; mno = max(ceil(K * xi) for xi in frac) * array([1, 1, 1])
      accepted frac expressions:  S.lattice.fractional(sabc)        (sabc . recbase)
                                  sabc.dot(abs(S.lattice.recbase))  (sabc . |recbase|)   [and numpy.dot(sabc, abs(..))]
  * the centre: ncenter = findCenter(newS); cxyz = lat.cartesian(newS[ncenter].xyz)
  * the scan `j = N; for i in range(N): j -= 1; ...; if d > 1: delList.append(j)` and `for i in delList: newS.pop(i)`
  * the criterion darray = ((xyz - cxyz) / sabc) ** 2; d = sum(darray) ** 0.5; d > 1     -> Gallina term + "sqrt then > 1"
  * findCenter: best = -1, bestd = len(S), center = [0.5, 0.5, 0.5], d = S.lattice.dist(S[i].xyz, center), `if d < bestd`
Local names are free; anything else is refused.
"""
import ast
import os

from vlib.core import SRC, TranslatorRefusal

SETUP = True
FE = "expansion/makeellipsoid.py"
FS = "expansion/shapeutils.py"


def refuse(fn, node, why):
    raise TranslatorRefusal("%s:%s: %s" % (fn, getattr(node, "lineno", "?"), why))


def is_doc(st):
    return isinstance(st, ast.Expr) and isinstance(st.value, ast.Constant) and isinstance(st.value.value, str)


def body_of(tree, name, fn):
    f = [st for st in tree.body if isinstance(st, ast.FunctionDef) and st.name == name]
    if len(f) != 1:
        raise TranslatorRefusal("%s: function %s not found exactly once" % (fn, name))
    return f[0], [st for st in f[0].body if not is_doc(st)]


def U(n):
    return ast.unparse(n).replace(" ", "")


def spec():
    sp = {}
    pe = os.path.join(SRC, "expansion", "makeellipsoid.py")
    ps = os.path.join(SRC, "expansion", "shapeutils.py")
    te = ast.parse(open(pe).read(), pe)
    ts = ast.parse(open(ps).read(), ps)
    imports = {}
    for st in te.body:
        if isinstance(st, ast.ImportFrom):
            for x in st.names:
                imports[x.asname or x.name] = (st.module, x.name)
    for name, want in (("ceil", ("math", "ceil")), ("array", ("numpy", "array")),
                       ("findCenter", ("diffpy.structure.expansion.shapeutils", "findCenter"))):
        if imports.get(name) != want:
            raise TranslatorRefusal("%s: `from %s import %s` not found" % (FE, want[0], want[1]))
    # ---- makeSphere
    f, body = body_of(te, "makeSphere", FE)
    if [a.arg for a in f.args.args] != ["S", "radius"] or f.args.defaults:
        refuse(FE, f, "signature is not makeSphere(S, radius)")
    if len(body) != 1 or not isinstance(body[0], ast.Return) or not isinstance(body[0].value, ast.Call) or U(body[0].value.func) != "makeEllipsoid":
        refuse(FE, f, "makeSphere is not `return makeEllipsoid(...)`")
    c = body[0].value
    args = [U(a) for a in c.args] + ["%s=%s" % (k.arg, U(k.value)) for k in c.keywords]
    shapes = {("S", "radius"): (False, False), ("S", "radius", "radius", "radius"): (True, True), ("S", "radius", "radius"): (True, False)}
    if tuple(args) not in shapes:
        refuse(FE, c, "unrecognised arguments of makeEllipsoid in makeSphere: %s" % args)
    sp["sphere_passes_b"], sp["sphere_passes_c"] = shapes[tuple(args)]
    # ---- makeEllipsoid
    f, body = body_of(te, "makeEllipsoid", FE)
    if [a.arg for a in f.args.args] != ["S", "a", "b", "c"] or [U(d) for d in f.args.defaults] != ["None", "None"]:
        refuse(FE, f, "signature is not makeEllipsoid(S, a, b=None, c=None)")
    names = {}
    seen = []
    for st in body:
        s = U(st)
        if isinstance(st, ast.If) and U(st.test) in ("bisNone", "cisNone") and not st.orelse and len(st.body) == 1:
            v = U(st.test)[0]
            asg = st.body[0]
            # the default may be any radius already settled: a, or b once b's own default has been applied
            settled = ["a"] + (["b"] if "default_b" in sp else [])
            if not (isinstance(asg, ast.Assign) and U(asg.targets[0]) == v and isinstance(asg.value, ast.Name) and asg.value.id in settled
                    and asg.value.id != v):
                refuse(FE, st, "default of %s is not one of the radii settled before it (%s)" % (v, settled))
            if "default_" + v in sp or "sabc" in seen:
                refuse(FE, st, "default of %s applied twice or after the radii vector is built" % v)
            sp["default_" + v] = asg.value.id
            seen.append("default")
            continue
        if isinstance(st, ast.Assign) and len(st.targets) == 1 and isinstance(st.targets[0], ast.Name):
            t = st.targets[0].id
            if U(st.value) == "array([a,b,c])":
                names["sabc"] = t
                seen.append("sabc")
                continue
            if "sabc" in names and U(st.value) == "S.lattice.fractional(%s)" % names["sabc"]:
                names["frac"] = t
                sp["frac"] = "plain"
                seen.append("frac")
                continue
            if "sabc" in names and U(st.value) in ("%s.dot(abs(S.lattice.recbase))" % names["sabc"], "numpy.dot(%s,abs(S.lattice.recbase))" % names["sabc"],
                                                   "dot(%s,abs(S.lattice.recbase))" % names["sabc"]):
                names["frac"] = t
                sp["frac"] = "abs"
                seen.append("frac")
                continue
            if "frac" in names and isinstance(st.value, ast.BinOp) and isinstance(st.value.op, ast.Mult) and U(st.value.right) == "array([1,1,1])":
                g = st.value.left
                ok = (isinstance(g, ast.Call) and U(g.func) == "max" and len(g.args) == 1 and isinstance(g.args[0], ast.GeneratorExp)
                      and len(g.args[0].generators) == 1 and U(g.args[0].generators[0].iter) == names["frac"]
                      and not g.args[0].generators[0].ifs and isinstance(g.args[0].generators[0].target, ast.Name))
                if not ok:
                    refuse(FE, st, "block size is not max(ceil(K * xi) for xi in frac) * array([1, 1, 1])")
                xi = g.args[0].generators[0].target.id
                e = g.args[0].elt
                if not (isinstance(e, ast.Call) and U(e.func) == "ceil" and len(e.args) == 1 and isinstance(e.args[0], ast.BinOp)
                        and isinstance(e.args[0].op, ast.Mult)):
                    refuse(FE, st, "block size element is not ceil(K * xi)")
                parts = [e.args[0].left, e.args[0].right]
                ks = [p for p in parts if isinstance(p, ast.Constant) and type(p.value) is int]
                xs = [p for p in parts if isinstance(p, ast.Name) and p.id == xi]
                if len(ks) != 1 or len(xs) != 1:
                    refuse(FE, st, "block size element is not ceil(<int> * xi)")
                sp["mno_factor"] = ks[0].value
                names["mno"] = t
                seen.append("mno")
                continue
            if "mno" in names and U(st.value) == "supercell(S,%s)" % names["mno"]:
                names["newS"] = t
                seen.append("supercell")
                continue
            if "newS" in names and U(st.value) == names["newS"] + ".lattice":
                names["lat"] = t
                seen.append("lat")
                continue
            if "newS" in names and U(st.value) == "findCenter(%s)" % names["newS"]:
                names["ncenter"] = t
                seen.append("center")
                continue
            if "ncenter" in names and "lat" in names and U(st.value) == "%s.cartesian(%s[%s].xyz)" % (names["lat"], names["newS"], names["ncenter"]):
                names["cxyz"] = t
                seen.append("cxyz")
                continue
            if U(st.value) == "[]":
                names["delList"] = t
                seen.append("dellist")
                continue
            if "newS" in names and U(st.value) == "len(%s)" % names["newS"]:
                names["N"] = t
                seen.append("N")
                continue
            if "N" in names and U(st.value) == names["N"]:
                names["j"] = t
                seen.append("j")
                continue
        if isinstance(st, ast.ImportFrom) and st.module == "diffpy.structure.expansion" and [x.name for x in st.names] == ["supercell"]:
            seen.append("import")
            continue
        if isinstance(st, ast.For) and "j" in names and U(st.iter) == "range(%s)" % names["N"]:
            sp["crit"] = scan(st, names)
            seen.append("scan")
            continue
        if isinstance(st, ast.For) and "delList" in names and U(st.iter) == names["delList"] and isinstance(st.target, ast.Name) \
                and len(st.body) == 1 and U(st.body[0]) == "%s.pop(%s)" % (names["newS"], st.target.id) and not st.orelse:
            if "scan" not in seen:
                refuse(FE, st, "deletion before the scan")
            seen.append("pop")
            continue
        if isinstance(st, ast.Return) and "newS" in names and U(st.value) == names["newS"]:
            seen.append("return")
            continue
        refuse(FE, st, "unrecognised statement: " + ast.unparse(st)[:80])
    want = ["default", "default", "sabc", "frac", "mno", "import", "supercell", "lat", "center", "cxyz", "dellist", "N", "j", "scan", "pop", "return"]
    core = [x for x in seen if x != "import"]
    if sorted(core) != sorted(x for x in want if x != "import") or core.index("pop") < core.index("scan") or core[-1] != "return" \
            or core.index("cxyz") > core.index("scan") or "default_b" not in sp or "default_c" not in sp:
        raise TranslatorRefusal("%s: makeEllipsoid is not the understood sequence of steps (got %s)" % (FE, seen))
    # ---- findCenter
    f, body = body_of(ts, "findCenter", FS)
    if [a.arg for a in f.args.args] != ["S"]:
        refuse(FS, f, "signature is not findCenter(S)")
    fc = {}
    loop = None
    ret = None
    for st in body:
        s = U(st)
        if isinstance(st, ast.Assign) and isinstance(st.targets[0], ast.Name):
            t = st.targets[0].id
            if isinstance(st.value, ast.UnaryOp) and isinstance(st.value.op, ast.USub) and U(st.value.operand) == "1":
                fc["best"] = t
                continue
            if s.endswith("=len(S)"):
                fc["bestd"] = t
                continue
            if isinstance(st.value, ast.List) and [U(e) for e in st.value.elts] == ["0.5", "0.5", "0.5"]:
                fc["center"] = t
                continue
        if isinstance(st, ast.For) and U(st.iter) == "range(len(S))" and isinstance(st.target, ast.Name):
            loop = st
            continue
        if isinstance(st, ast.Return):
            ret = st
            continue
        refuse(FS, st, "unrecognised statement in findCenter: " + ast.unparse(st)[:80])
    if loop is None or ret is None or sorted(fc) != ["best", "bestd", "center"] or U(ret.value) != fc["best"]:
        raise TranslatorRefusal("%s: findCenter lacks best/bestd/center/loop/return" % FS)
    i = loop.target.id
    lb = loop.body
    ok = (len(lb) == 2 and isinstance(lb[0], ast.Assign) and isinstance(lb[0].targets[0], ast.Name)
          and U(lb[0].value) == "S.lattice.dist(S[%s].xyz,%s)" % (i, fc["center"]) and isinstance(lb[1], ast.If) and not lb[1].orelse)
    if not ok:
        refuse(FS, loop, "findCenter loop is not `d = S.lattice.dist(S[i].xyz, center); if d < bestd: ...`")
    d = lb[0].targets[0].id
    if U(lb[1].test) != "%s<%s" % (d, fc["bestd"]):
        refuse(FS, lb[1], "comparison is not the strict `d < bestd`")
    upd = sorted(U(x) for x in lb[1].body)
    if upd != sorted(["%s=%s" % (fc["bestd"], d), "%s=%s" % (fc["best"], i)]):
        refuse(FS, lb[1], "update is not bestd = d; best = i")
    sp["findcenter"] = True
    return sp


def scan(st, names):
    """for i in range(N): j -= 1; xyz = lat.cartesian(newS[j].xyz); darray = ((xyz - cxyz) / sabc) ** 2; d = sum(darray) ** 0.5;
       if d > 1: delList.append(j)"""
    j = names["j"]
    b = st.body
    if st.orelse or len(b) != 5:
        refuse(FE, st, "scan loop does not have the 5 understood statements")
    if U(b[0]) != "%s-=1" % j:
        refuse(FE, b[0], "scan does not start with `j -= 1`")
    if not (isinstance(b[1], ast.Assign) and U(b[1].value) == "%s.cartesian(%s[%s].xyz)" % (names["lat"], names["newS"], j)):
        refuse(FE, b[1], "position is not lat.cartesian(newS[j].xyz)")
    xyz = b[1].targets[0].id
    if not isinstance(b[2], ast.Assign):
        refuse(FE, b[2], "unrecognised statement")
    darray = b[2].targets[0].id

    def term(e):
        if isinstance(e, ast.BinOp) and isinstance(e.op, ast.Pow) and U(e.right) == "2":
            return "(gvsq O %s)" % term(e.left)
        if isinstance(e, ast.BinOp) and isinstance(e.op, (ast.Sub, ast.Div, ast.Add, ast.Mult)):
            f = {"Sub": "gvsub", "Div": "gvdivv", "Add": "gvadd", "Mult": "gvmulv"}[type(e.op).__name__]
            return "(%s O %s %s)" % (f, term(e.left), term(e.right))
        s = U(e)
        if s == xyz:
            return "xyz"
        if s == names["cxyz"]:
            return "cxyz"
        if s == names["sabc"]:
            return "sabc"
        refuse(FE, e, "unrecognised term in the criterion: " + s)
    crit = term(b[2].value)
    if not (isinstance(b[3], ast.Assign) and U(b[3].value) == "sum(%s)**0.5" % darray):
        refuse(FE, b[3], "distance is not sum(darray) ** 0.5")
    d = b[3].targets[0].id
    if not (isinstance(b[4], ast.If) and U(b[4].test) == "%s>1" % d and not b[4].orelse and len(b[4].body) == 1
            and U(b[4].body[0]) == "%s.append(%s)" % (names["delList"], j)):
        refuse(FE, b[4], "discard rule is not `if d > 1: delList.append(j)`")
    return crit


def generate():
    sp = spec()
    out = ["(* GENERATED by translate/c18_ellipsoid.py from expansion/makeellipsoid.py and expansion/shapeutils.py - do not edit *)",
           "From Coq Require Import ZArith List.", "From DS Require Import Base.C09_GNum.", "",
           "(* makeSphere(S, radius) = makeEllipsoid(S, radius%s%s); defaults as written in the source: b = %s when None, c = %s when None *)"
           % (", radius" if sp["sphere_passes_b"] else "", ", radius" if sp["sphere_passes_c"] else "", sp["default_b"], sp["default_c"]),
           "Definition c18_sphere_args {T : Type} (radius : T) : T * option T * option T :=",
           "  (radius, %s, %s)." % ("Some radius" if sp["sphere_passes_b"] else "None", "Some radius" if sp["sphere_passes_c"] else "None"),
           "Definition c18_default_b {T : Type} (a : T) (ob : option T) : T := match ob with Some x => x | None => %s end." % sp["default_b"],
           "Definition c18_default_c {T : Type} (a b : T) (oc : option T) : T := match oc with Some x => x | None => %s end." % sp["default_c"],
           "(* frac = %s *)" % ("S.lattice.fractional(sabc)" if sp["frac"] == "plain" else "sabc.dot(abs(S.lattice.recbase))"),
           "Definition c18_frac {T : Type} (O : ops T) (sabc : gvec T) (recbase : gmat T) : gvec T :=",
           "  gvmmul O sabc %s." % ("recbase" if sp["frac"] == "plain" else "(gmmap (tabs O) recbase)"),
           "(* mno = max(ceil(%d * xi) for xi in frac) * array([1, 1, 1]) *)" % sp["mno_factor"],
           "Definition c18_mno_factor : Z := %d." % sp["mno_factor"],
           "(* darray = ... ; d = sum(darray) ** 0.5 ; discarded when d > 1 *)",
           "Definition c18_crit {T : Type} (O : ops T) (xyz cxyz sabc : gvec T) : T := gvsum O %s." % sp["crit"],
           ""]
    return {"Gen/C18_Spec.v": "\n".join(out)}


if __name__ == "__main__":
    print(generate()["Gen/C18_Spec.v"])
