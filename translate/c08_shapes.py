"""Fail-closed translator: the statements of class Structure (structure.py) that Model/C08_StructHeap.v
hard-codes -> Gen/C08_Shapes.v (`gen_shapes : shapes`, record of Model/C08_ShapeDefs.v).

Every modelled method is matched against the statement shape the model was written from, modulo harmless
rewrites (docstrings, names of locals, `super()` vs `super(Structure, self)`, `Atom(a)` vs `copy.copy(a)` /
`copymod.copy(a)`, `X if c else Y` vs `c and X or Y`, a trailing bare `return`, the order of independent
attribute assignments in __copy__, a list comprehension vs an explicit collecting loop in extend).  What decides
behaviour is NOT normalised away but reported as a fact: which `copy` value a call passes, what is copied and what
is kept, where `.lattice = self.lattice` is assigned, generator vs materialised list in extend, the guard on n,
the dispatch order of index kinds, which list attributes the class overrides.  Anything not understood raises
TranslatorRefusal("structure.py:<line>: why").
"""
import ast
import os

from vlib.core import SRC, TranslatorRefusal

SETUP = True
FILE = "structure.py"

MODELLED = ["__init__", "copy", "__copy__", "__setstate__", "addNewAtom", "getLastAtom", "assignUniqueLabels",
            "placeInLattice", "tolist", "append", "insert", "extend", "__getitem__", "__setitem__", "__add__",
            "__iadd__", "__sub__", "__isub__", "__mul__", "__imul__", "_set_lattice", "_get_lattice",
            "_Structure__emptySharedStructure", "__emptySharedStructure"]


def refuse(node, why):
    raise TranslatorRefusal("%s:%s: %s" % (FILE, getattr(node, "lineno", "?"), why))


# ------------------------------------------------------------------ normalisation

class _Norm(ast.NodeTransformer):
    """super(Structure, self) -> super(); copymod.copy / copy.copy -> COPY; Atom(x) with one argument -> COPY(x)"""

    def visit_Call(self, n):
        self.generic_visit(n)
        f = n.func
        if isinstance(f, ast.Name) and f.id == "super" and len(n.args) == 2 and not n.keywords \
                and ast.unparse(n.args[0]) == "Structure" and ast.unparse(n.args[1]) == "self":
            return ast.Call(func=f, args=[], keywords=[])
        if isinstance(f, ast.Attribute) and f.attr == "copy" and isinstance(f.value, ast.Name) \
                and f.value.id in ("copymod", "copy") and len(n.args) == 1 and not n.keywords:
            return ast.Call(func=ast.Name(id="COPY", ctx=ast.Load()), args=n.args, keywords=[])
        if isinstance(f, ast.Name) and f.id == "Atom" and len(n.args) == 1 and not n.keywords:
            return ast.Call(func=ast.Name(id="COPY", ctx=ast.Load()), args=n.args, keywords=[])
        return n


def body_of(fn):
    """statements without docstring and without a trailing bare `return`"""
    b = list(fn.body)
    if b and isinstance(b[0], ast.Expr) and isinstance(b[0].value, ast.Constant) and isinstance(b[0].value.value, str):
        b = b[1:]
    if b and isinstance(b[-1], ast.Return) and b[-1].value is None:
        b = b[:-1]
    return [ast.fix_missing_locations(_Norm().visit(s)) for s in b]


def U(n):
    return ast.unparse(n)


class _Rename(ast.NodeTransformer):
    def __init__(self, m):
        self.m = m

    def visit_Name(self, n):
        return ast.Name(id=self.m.get(n.id, n.id), ctx=n.ctx)

    def visit_arg(self, n):
        return ast.arg(arg=self.m.get(n.arg, n.arg), annotation=None)

    def visit_FunctionDef(self, n):
        self.generic_visit(n)
        n.name = self.m.get(n.name, n.name)
        return n


def alpha(stmts, keep):
    """rename local names (assigned names, loop/comprehension variables, nested function names and parameters)
    to v1, v2, ... in order of first binding; `keep` names (parameters of the method, globals) stay"""
    m = {}

    def bind(name):
        if name not in keep and name not in m:
            m[name] = "v%d" % (len(m) + 1)

    class V(ast.NodeVisitor):          # depth-first = source order
        def visit_Name(self, n):
            if isinstance(n.ctx, ast.Store):
                bind(n.id)

        def visit_FunctionDef(self, n):
            bind(n.name)
            for a in n.args.args:
                bind(a.arg)
            self.generic_visit(n)

        def visit_Lambda(self, n):
            for a in n.args.args:
                bind(a.arg)
            self.generic_visit(n)

        def visit_GeneratorExp(self, n):
            for g in n.generators:     # the loop variables are bound before the element expression uses them
                self.visit(g)
            self.visit(n.elt)
        visit_ListComp = visit_GeneratorExp
        visit_SetComp = visit_GeneratorExp

    for s in stmts:
        V().visit(s)
    return [ast.fix_missing_locations(_Rename(m).visit(s)) for s in stmts], m


def text(stmts, keep):
    out, _ = alpha(stmts, keep)
    return [U(s) for s in out]


GLOBALS = {"self", "Structure", "Atom", "Lattice", "COPY", "copymod", "numpy", "list", "set", "id", "isinstance",
           "super", "setattr", "getattr", "filter", "enumerate", "len", "slice", "str", "any", "tuple", "type",
           "object", "IndexError", "TypeError", "isiterable", "atomBareSymbol", "codecs", "None", "True", "False"}


def params(fn):
    return [a.arg for a in fn.args.args]


def default_of(fn, name):
    """default value of parameter `name` as flagarg"""
    args = fn.args.args
    defs = fn.args.defaults
    off = len(args) - len(defs)
    for i, a in enumerate(args):
        if a.arg == name:
            if i < off:
                refuse(fn, "parameter %s of %s has no default" % (name, fn.name))
            return flag_const(defs[i - off], fn)
    refuse(fn, "%s has no parameter %s" % (fn.name, name))


def flag_const(n, where):
    if isinstance(n, ast.Constant) and n.value is True:
        return "ATrue"
    if isinstance(n, ast.Constant) and n.value is False:
        return "AFalse"
    if isinstance(n, ast.Constant) and n.value is None:
        return "ANone"
    if isinstance(n, ast.Name) and n.id == "copy":
        return "AParam"
    refuse(where, "copy argument %s is not a constant" % U(n))


def call_flag(call, where):
    for k in call.keywords:
        if k.arg == "copy":
            return flag_const(k.value, where)
    return "AOmitted"


def dupexpr(n, flag, arg, where):
    """classify the expression that yields the stored object from argument `arg` under flag `flag`"""
    t = U(n)
    cp = "COPY(%s)" % arg
    if t in ("%s and %s or %s" % (flag, cp, arg), "%s if %s else %s" % (cp, flag, arg)):
        return "DCondCopy"
    if t == cp:
        return "DAlways"
    if t == arg:
        return "DNever"
    refuse(where, "stored object `%s` is not a (conditional) copy of %s" % (t, arg))


def B(x):
    return "true" if x else "false"


# ------------------------------------------------------------------ per-method matchers

def m_append_insert(fn, kind):
    """v = <dupexpr>; v.lattice = self.lattice; super().<kind>([idx,] v)   (lattice and store in either order)"""
    p = params(fn)
    want = ["self", "a", "copy"] if kind == "append" else ["self", "idx", "a", "copy"]
    if [x for x in p] != want:
        refuse(fn, "%s%s: unexpected parameters" % (kind, p))
    b = body_of(fn)
    t = text(b, set(p) | GLOBALS)
    if len(b) not in (2, 3) or not (isinstance(b[0], ast.Assign) and t[0].startswith("v1 = ")):
        refuse(fn, "%s: expected `x = <copy or a>; x.lattice = self.lattice; super().%s(...)`, found %s" % (kind, kind, t))
    stmts, _ = alpha(b, set(p) | GLOBALS)
    dup = dupexpr(stmts[0].value, "copy", "a", fn)
    rest = sorted(t[1:])
    store = "super().append(v1)" if kind == "append" else "super().insert(idx, v1)"
    setlat = "v1.lattice = self.lattice" in rest
    others = [x for x in rest if x != "v1.lattice = self.lattice"]
    if others != [store]:
        refuse(fn, "%s: unexpected statements %s" % (kind, others))
    return default_of(fn, "copy"), dup, setlat


EXT_NEXT = "def v{n}(v{a}):\n    return v{a} if id(v{a}) not in v{m} else COPY(v{a})"
EXT_MARK = "def v{k}(v{a}):\n    return (v{m}.add(id(v{a})), v{a})[-1]"


def m_extend(fn):
    p = params(fn)
    if p != ["self", "atoms", "copy"]:
        refuse(fn, "extend%s: unexpected parameters" % p)
    b = body_of(fn)
    stmts, names = alpha(b, set(p) | GLOBALS)
    env = {}          # local name -> plan of what it denotes when used as `newatoms`
    setlat_fn = None
    facts = {}
    final = None
    i = 0

    def is_copy_gen(n):
        return isinstance(n, (ast.GeneratorExp, ast.ListComp)) and len(n.generators) == 1 and not n.generators[0].ifs \
            and U(n.generators[0].iter) == "atoms" and U(n.elt) == "COPY(%s)" % U(n.generators[0].target)

    def plan_of(n, locals_):
        """plan denoted by expression n (the iterable handed on as the new atoms)"""
        t = U(n)
        if t == "atoms":
            return "PAllKeep"
        if isinstance(n, ast.Name) and n.id in env:
            return env[n.id]
        if is_copy_gen(n):
            return "PAllDup"
        if isinstance(n, (ast.GeneratorExp, ast.ListComp)) and len(n.generators) == 1 and U(n.generators[0].iter) == "atoms" \
                and not n.generators[0].ifs:
            var = U(n.generators[0].target)
            memo = locals_.get("memo")
            nxt = locals_.get("next")
            mark = locals_.get("mark")
            if memo and nxt and U(n.elt) == "%s(%s(%s))" % (mark, nxt, var) and mark:
                return "(PMemo %s true)" % B(locals_["memo_init_self"])
            if memo and nxt and U(n.elt) == "%s(%s)" % (nxt, var):
                return "(PMemo %s false)" % B(locals_["memo_init_self"])
        refuse(n, "extend: cannot classify the new atoms `%s`" % t)

    def scan_block(block, locals_):
        """returns the plan assigned to the result variable in this block"""
        res = None
        for s in block:
            t = U(s)
            if isinstance(s, ast.Assign) and len(s.targets) == 1 and isinstance(s.targets[0], ast.Name):
                name = s.targets[0].id
                v = s.value
                if isinstance(v, ast.Call) and U(v.func) == "set":
                    if len(v.args) == 0:
                        locals_["memo"], locals_["memo_init_self"] = name, False
                        continue
                    a0 = v.args[0]
                    if isinstance(a0, (ast.GeneratorExp, ast.ListComp)) and U(a0.generators[0].iter) == "self" \
                            and U(a0.elt) == "id(%s)" % U(a0.generators[0].target):
                        locals_["memo"], locals_["memo_init_self"] = name, True
                        continue
                    refuse(s, "extend: unexpected memo initialisation `%s`" % t)
                res = (name, plan_of(v, locals_))
                continue
            if isinstance(s, ast.FunctionDef):
                m = locals_.get("memo")
                if m and len(s.args.args) == 1:
                    a = s.args.args[0].arg
                    if t == "def %s(%s):\n    return %s if id(%s) not in %s else COPY(%s)" % (s.name, a, a, a, m, a):
                        locals_["next"] = s.name
                        continue
                    if t == "def %s(%s):\n    return (%s.add(id(%s)), %s)[-1]" % (s.name, a, m, a, a):
                        locals_["mark"] = s.name
                        continue
                refuse(s, "extend: unexpected helper function `%s`" % s.name)
            refuse(s, "extend: unexpected statement `%s`" % t.splitlines()[0])
        return res

    # 1. optional `adups = (COPY(a) for a in atoms)`
    if i < len(stmts) and isinstance(stmts[i], ast.Assign) and is_copy_gen(stmts[i].value):
        env[stmts[i].targets[0].id] = "PAllDup"
        i += 1
    # 2. the decision tree on `copy`
    if not (i < len(stmts) and isinstance(stmts[i], ast.If) and U(stmts[i].test) == "copy is None"):
        refuse(fn, "extend: expected `if copy is None:` after the copy generator")
    top = stmts[i]
    i += 1
    resvar = None

    def result(block, locals_):
        nonlocal resvar
        r = scan_block(block, locals_)
        if r is None:
            refuse(fn, "extend: a branch does not bind the new atoms")
        if resvar is None:
            resvar = r[0]
        elif resvar != r[0]:
            refuse(fn, "extend: branches bind different names")
        return r[1]

    nb = top.body
    if len(nb) == 1 and isinstance(nb[0], ast.If) and U(nb[0].test) == "isinstance(atoms, Structure)":
        facts["none_struct"] = result(nb[0].body, {})
        facts["none_other"] = result(nb[0].orelse, {})
    else:
        refuse(top, "extend: expected `if isinstance(atoms, Structure):` under `copy is None` (found `%s`)" % U(nb[0]).splitlines()[0])
    oe = top.orelse
    if len(oe) == 1 and isinstance(oe[0], ast.If) and U(oe[0].test) == "copy":
        facts["true"] = result(oe[0].body, {})
        facts["false"] = result(oe[0].orelse, {})
    else:
        refuse(top, "extend: expected `elif copy: ... else: ...`")
    # 3. setlat helper, 4. the list.extend call (possibly preceded by an explicit collecting loop)
    rest = stmts[i:]
    rt = [U(s) for s in rest]
    if not rest or not isinstance(rest[0], ast.FunctionDef) or len(rest[0].args.args) != 1:
        refuse(fn, "extend: expected the lattice-setting helper")
    a = rest[0].args.args[0].arg
    sl = rest[0].name
    if rt[0] not in ("def %s(%s):\n    return (setattr(%s, 'lattice', self.lattice), %s)[-1]" % (sl, a, a, a),
                     "def %s(%s):\n    %s.lattice = self.lattice\n    return %s" % (sl, a, a, a)):
        refuse(rest[0], "extend: the helper does not assign self.lattice")
    tail = rt[1:]
    mat = None
    if len(tail) == 1:
        for form, m in (("super().extend([%s(%s) for %s in %s])", True), ("super().extend(list((%s(%s) for %s in %s)))", True),
                        ("super().extend((%s(%s) for %s in %s))", False)):
            for v in ("v%d" % k for k in range(1, 40)):
                if tail[0] == form % (sl, v, v, resvar):
                    mat = m
    elif len(tail) == 3:
        # acc = []; for x in new: acc.append(setlat(x)); super().extend(acc)
        for v in ("v%d" % k for k in range(1, 40)):
            for acc in ("v%d" % k for k in range(1, 40)):
                if tail == ["%s = []" % acc, "for %s in %s:\n    %s.append(%s(%s))" % (v, resvar, acc, sl, v), "super().extend(%s)" % acc]:
                    mat = True
    if mat is None:
        refuse(fn, "extend: the final list.extend call is not understood: %s" % tail)
    return default_of(fn, "copy"), facts, True, mat


def take_copy_flags(stmts, where):
    """replace the `copy` keyword of every `.extend(...)` call by the placeholder FLAG; return the flags in source order"""
    flags = []

    class V(ast.NodeVisitor):
        def visit_Call(self, n):
            self.generic_visit(n)
            if isinstance(n.func, ast.Attribute) and n.func.attr == "extend":
                flags.append(call_flag(n, where))
                n.keywords = [k for k in n.keywords if k.arg != "copy"] + [ast.keyword(arg="copy", value=ast.Name(id="FLAG", ctx=ast.Load()))]
    for s in stmts:
        V().visit(s)
    return flags


GETITEM = [
    "if isinstance(idx, slice):\n    v1 = self.__emptySharedStructure()\n    v2 = super().__getitem__(idx)\n    v1.extend(v2, copy=FLAG)\n    return v1",
    "try:\n    v1 = super().__getitem__(idx)\n    return v1\nexcept TypeError:\n    pass",
    "v3 = isinstance(idx, str)",
    "v4 = v3 or (isiterable(idx) and any((isinstance(v5, str) for v5 in idx)))",
    "if not v4:\n    v6 = idx\n    if type(idx) is tuple:\n        v6 = numpy.r_[idx]\n    v7 = numpy.arange(len(self))[v6]\n    v8 = [list.__getitem__(self, v9) for v9 in v7]\n    v1 = self.__emptySharedStructure()\n    v1.extend(v8, copy=FLAG)\n    return v1",
    "v10 = object()",
    "v11 = {}",
    "for v9, v12 in enumerate(self):\n    v11[v12.label] = v10 if v12.label in v11 else v9",
    "def v13(v14):\n    v15 = v14\n    if type(v14) is str:\n        v15 = v11.get(v14, None)\n        if v15 is None:\n            raise IndexError('Invalid atom label %r.' % v14)\n        if v15 is v10:\n            raise IndexError('Atom label %r is not unique.' % v14)\n    return v15",
    "if v3:\n    v16 = v13(idx)\nelse:\n    v16 = [v13(v9) for v9 in idx]\n    if type(idx) is tuple:\n        v16 = tuple(v16)",
    "v1 = self[v16]",
    "return v1"]


def m_getitem(fn):
    """dispatch: slice -> shared selection; list.__getitem__ (int); numpy index when no string label; labels resolved
    through a map that marks duplicates, then self[idx2]"""
    p = params(fn)
    if p != ["self", "idx"]:
        refuse(fn, "__getitem__%s: unexpected parameters" % p)
    stmts, _ = alpha(body_of(fn), set(p) | GLOBALS)
    flags = take_copy_flags(stmts, fn)
    t = [U(s) for s in stmts]
    if t != GETITEM:
        k = next((i for i, (x, y) in enumerate(zip(t, GETITEM)) if x != y), min(len(t), len(GETITEM)))
        where = stmts[k] if k < len(stmts) else fn
        refuse(where, "__getitem__: statement %d is not the modelled shape: `%s`" % (k, (t[k] if k < len(t) else "<missing>").splitlines()[0]))
    if len(flags) != 2:
        refuse(fn, "__getitem__: expected two extend calls")
    order = ["IKSlice", "IKListGetitem", "IKNumpy", "IKLabels"]
    return order, {"slice_flag": flags[0], "numpy_flag": flags[1], "tuple_r": True, "dups": True, "index_error": True, "recurse": True}


def m_setitem(fn):
    """two accepted layouts.
    store-first (current):  slice: v1 = value; if copy: keep = set(...); v1 = (a if a in keep else COPY(a) for a in value);
                                   vfinal = list(v1); super().__setitem__(idx, vfinal); for a in vfinal: a.lattice = self.lattice
                            scalar: vfinal = <dup>; super().__setitem__(idx, vfinal); vfinal.lattice = self.lattice
    lattice-first (before fix/c0816b): slice: vfinal = filter(_fixlat, v1) consumed by one trailing super().__setitem__;
                            scalar: vfinal = <dup>; vfinal.lattice = self.lattice; trailing store"""
    p = params(fn)
    if p != ["self", "idx", "value", "copy"]:
        refuse(fn, "__setitem__%s: unexpected parameters" % p)
    b = body_of(fn)
    if len(b) not in (1, 2) or not isinstance(b[0], ast.If) or U(b[0].test) != "isinstance(idx, slice)":
        refuse(fn, "__setitem__: expected `if isinstance(idx, slice): ... else: ...`")
    whole, _ = alpha(b, set(p) | GLOBALS)
    sl = list(whole[0].body)
    sc = list(whole[0].orelse)
    f = {}
    fixname = None
    if sl and isinstance(sl[0], ast.FunctionDef):          # lattice-first layout: helper _fixlat
        fix = sl[0]
        a = fix.args.args[0].arg if len(fix.args.args) == 1 else None
        if a is None or U(fix) != "def %s(%s):\n    %s.lattice = self.lattice\n    return %s" % (fix.name, a, a, a):
            refuse(fix, "__setitem__: the helper does not assign self.lattice and return the atom")
        fixname = fix.name
        sl = sl[1:]
    if len(sl) < 3:
        refuse(b[0], "__setitem__: slice branch too short")
    asg = sl[0]
    if not (isinstance(asg, ast.Assign) and U(asg.value) == "value"):
        refuse(asg, "__setitem__: expected `v1 = value`")
    v1 = U(asg.targets[0])
    f["nocopy_value"] = True
    iff = sl[1]
    if not (isinstance(iff, ast.If) and U(iff.test) == "copy" and not iff.orelse and len(iff.body) == 2):
        refuse(iff, "__setitem__: expected `if copy: keep = ...; v1 = (...)`")
    k = iff.body[0]
    kname = U(k.targets[0])
    f["keep"] = "KAssignedSlice" if U(k.value) == "set(super().__getitem__(idx))" else "KOtherSet"
    gt = U(iff.body[1])
    ok = False
    for v in ("v%d" % i for i in range(1, 40)):
        if gt in ("%s = (%s if %s in %s else COPY(%s) for %s in value)" % (v1, v, v, kname, v, v),
                  "%s = [%s if %s in %s else COPY(%s) for %s in value]" % (v1, v, v, kname, v, v)):
            ok = True
    if not ok:
        refuse(iff.body[1], "__setitem__: the copying generator is not `a if a in keep else Atom(a) for a in value`")
    f["copies_others"] = True
    fin = sl[2]
    if not isinstance(fin, ast.Assign):
        refuse(fin, "__setitem__: expected the binding of the stored sequence")
    vfinal = U(fin.targets[0])
    tail_sl = [U(x) for x in sl[3:]]
    store = "super().__setitem__(idx, %s)" % vfinal
    if fixname is not None:
        if U(fin.value) != "filter(%s, %s)" % (fixname, v1) or tail_sl:
            refuse(fin, "__setitem__: expected `vfinal = filter(_fixlat, v1)` as the last statement of the slice branch")
        f["slice_setlat"], f["slice_store_first"] = True, False
    else:
        if U(fin.value) not in ("list(%s)" % v1, "[%s for %s in %s]" % ("x", "x", v1)):
            refuse(fin, "__setitem__: expected `vfinal = list(v1)`")
        loop_ok = False
        for v in ("v%d" % i for i in range(1, 40)):
            if tail_sl == [store, "for %s in %s:\n    %s.lattice = self.lattice" % (v, vfinal, v)]:
                loop_ok, f["slice_store_first"] = True, True
            if tail_sl == ["for %s in %s:\n    %s.lattice = self.lattice" % (v, vfinal, v), store]:
                loop_ok, f["slice_store_first"] = True, False
        if not loop_ok:
            refuse(b[0], "__setitem__: slice branch must store the list and assign self.lattice to every stored atom: %s" % tail_sl)
        f["slice_setlat"] = True
    # scalar branch
    if not sc or not (isinstance(sc[0], ast.Assign) and U(sc[0].targets[0]) == vfinal):
        refuse(b[0], "__setitem__: scalar branch does not bind the stored object")
    f["scalar_dup"] = dupexpr(sc[0].value, "copy", "value", sc[0])
    rest = [U(x) for x in sc[1:]] + [U(x) for x in whole[1:]]
    setlat = "%s.lattice = self.lattice" % vfinal
    if fixname is not None and rest == [setlat, store]:
        f["scalar_store_first"] = False
    elif fixname is None and rest == [store, setlat]:
        f["scalar_store_first"] = True
    elif fixname is None and rest == [setlat, store]:
        f["scalar_store_first"] = False
    else:
        refuse(b[0], "__setitem__: scalar branch / trailing store not understood: %s" % rest)
    if fixname is None and len(whole) != 1:
        refuse(b[-1], "__setitem__: unexpected statement after the branches")
    return default_of(fn, "copy"), f


def expect(fn, want, keep_extra=(), what=None):
    """exact match of the alpha-normalised statements (any of the accepted variants)"""
    t = text(body_of(fn), set(params(fn)) | GLOBALS | set(keep_extra))
    variants = want if isinstance(want[0], list) else [want]
    if t not in variants:
        refuse(fn, "%s: statements %s are not the modelled shape %s" % (what or fn.name, t, variants[0]))
    return variants.index(t)


def generate():
    fn = os.path.join(SRC, FILE)
    tree = ast.parse(open(fn).read(), fn)
    cls = [n for n in tree.body if isinstance(n, ast.ClassDef) and n.name == "Structure"]
    if len(cls) != 1:
        raise TranslatorRefusal("structure.py: class Structure not found exactly once")
    cls = cls[0]
    if [U(b) for b in cls.bases] != ["list"]:
        refuse(cls, "Structure is not a direct subclass of list")
    M = {}
    assigned = {}
    for n in cls.body:
        if isinstance(n, ast.FunctionDef):
            if n.name in M:
                refuse(n, "method %s defined twice" % n.name)
            if n.decorator_list:
                refuse(n, "decorated method %s" % n.name)
            M[n.name] = n
        elif isinstance(n, ast.Assign) and len(n.targets) == 1 and isinstance(n.targets[0], ast.Name):
            assigned[n.targets[0].id] = n

    def need(name):
        if name not in M:
            raise TranslatorRefusal("structure.py: method %s of Structure not found" % name)
        return M[name]

    F = {}
    F["append_default"], F["append_dup"], F["append_setlat"] = m_append_insert(need("append"), "append")
    F["insert_default"], F["insert_dup"], F["insert_setlat"] = m_append_insert(need("insert"), "insert")
    d, ef, sl, mat = m_extend(need("extend"))
    F["extend_default"] = d
    order, gf = m_getitem(need("__getitem__"))
    sd, sf = m_setitem(need("__setitem__"))

    # __emptySharedStructure
    expect(need("__emptySharedStructure"), ["v1 = Structure()", "v1.__dict__.update([(v2, getattr(self, v2)) for v2 in v1.__dict__])", "return v1"])
    # arithmetic
    expect(need("__add__"), ["v1 = COPY(self)", "v1 += other", "return v1"])
    iadd = need("__iadd__")
    ib = body_of(iadd)
    if len(ib) != 2 or U(ib[1]) != "return self" or not (isinstance(ib[0], ast.Expr) and isinstance(ib[0].value, ast.Call)
                                                           and U(ib[0].value.func) == "self.extend" and [U(a) for a in ib[0].value.args] == ["other"]):
        refuse(iadd, "__iadd__: expected `self.extend(other, copy=...); return self`")
    iadd_flag = call_flag(ib[0].value, iadd)
    expect(need("__sub__"), ["v1 = set(other)", "v2 = [v3 for v3, v4 in enumerate(self) if v4 not in v1]", "v5 = COPY(self[v2])", "return v5"])
    expect(need("__isub__"), ["v1 = set(other)", "self[:] = [v2 for v2 in self if v2 not in v1]", "return self"])
    expect(need("__mul__"), ["v1 = COPY(self[:0])", "v1 += n * self.tolist()", "return v1"])
    if "__rmul__" not in assigned or U(assigned["__rmul__"].value) != "__mul__":
        raise TranslatorRefusal("structure.py: `__rmul__ = __mul__` not found")
    imul = need("__imul__")
    mb = body_of(imul)
    if len(mb) != 2 or U(mb[1]) != "return self" or not isinstance(mb[0], ast.If):
        refuse(imul, "__imul__: expected `if <guard>: self[:] = [] else: self.extend((n - 1) * self.tolist(), copy=...); return self`")
    guard = "GLeZero" if U(mb[0].test) in ("n <= 0", "0 >= n", "n < 1", "not n > 0") else "GOther"
    clears = [U(s) for s in mb[0].body] == ["self[:] = []"]
    oc = mb[0].orelse
    if not (len(oc) == 1 and isinstance(oc[0], ast.Expr) and isinstance(oc[0].value, ast.Call) and U(oc[0].value.func) == "self.extend"
            and len(oc[0].value.args) == 1):
        refuse(imul, "__imul__: else branch is not one self.extend(...) call")
    rep = U(oc[0].value.args[0]) in ("(n - 1) * self.tolist()", "self.tolist() * (n - 1)")
    imul_flag = call_flag(oc[0].value, imul)
    if not clears:
        refuse(imul, "__imul__: the guarded branch does not clear the structure")
    # copies
    expect(need("copy"), ["return COPY(self)"])
    cp = need("__copy__")
    if params(cp) != ["self", "target"] or default_of(cp, "target") != "ANone":
        refuse(cp, "__copy__: expected (self, target=None)")
    cb = body_of(cp)
    ct = [U(s) for s in cb]
    if len(cb) < 4 or ct[0] != "if target is None:\n    target = Structure()\nelif target is self:\n    return target" or ct[-1] != "return target":
        refuse(cp, "__copy__: guard / return not understood")
    mid = ct[1:-1]
    if mid[-1] != "target[:] = self":
        refuse(cp, "__copy__: the atoms are not copied by `target[:] = self` as the last step")
    attrs = sorted(mid[:-1])
    if attrs != sorted(["target.title = self.title", "target.lattice = Lattice(self.lattice)", "target.pdffit = copymod.deepcopy(self.pdffit)"]):
        refuse(cp, "__copy__: attribute copies not understood: %s" % attrs)
    # __init__
    init = need("__init__")
    if params(init) != ["self", "atoms", "lattice", "title", "filename", "format"]:
        refuse(init, "__init__: unexpected parameters")
    it = [U(s) for s in body_of(init)]
    want_init = [
        "if filename is not None:\n    if any((atoms, lattice, title)):\n        emsg = 'Cannot use filename and atoms arguments together.'\n        raise ValueError(emsg)\n    readkwargs = format is not None and {'format': format} or {}\n    self.read(filename, **readkwargs)\n    return",
        "if isinstance(atoms, Structure):\n    Structure.__copy__(atoms, self)",
        "if title is not None:\n    self.title = title",
        "if lattice is not None:\n    self.lattice = lattice\nelif self.lattice is None:\n    self.lattice = Lattice()",
        "if not len(self) and atoms is not None:\n    self.extend(atoms)"]
    if it != want_init:
        refuse(init, "__init__: statements not understood: %s" % [x.splitlines()[0] for x in it])
    init_ext = [n for n in ast.walk(body_of(init)[4]) if isinstance(n, ast.Call) and U(n.func) == "self.extend"][0]
    # pickling hooks
    setstate = False
    if "__setstate__" in M:
        expect(M["__setstate__"], ["self.__dict__.update(state)", "self.lattice = self._lattice"])
        setstate = True
    reduce_over = any(k in M for k in ("__reduce__", "__reduce_ex__", "__getstate__", "__getnewargs__", "__getnewargs_ex__", "__deepcopy__", "__new__"))
    # lattice property
    expect(need("_get_lattice"), ["return self._lattice"])
    slt = text(body_of(need("_set_lattice")), {"self", "value"} | GLOBALS)
    loops = "for v1 in self:\n    v1.lattice = value" in slt
    stores = "self._lattice = value" in slt
    if sorted(slt) != sorted(["for v1 in self:\n    v1.lattice = value", "self._lattice = value"]):
        refuse(M["_set_lattice"], "_set_lattice: statements not understood: %s" % slt)
    if "lattice" not in assigned or not U(assigned["lattice"].value).startswith("property(_get_lattice, _set_lattice"):
        raise TranslatorRefusal("structure.py: `lattice = property(_get_lattice, _set_lattice, ...)` not found")
    pl = [U(s) for s in body_of(need("placeInLattice"))]
    place_assigns = "self.lattice = new_lattice" in pl and pl.index("self.lattice = new_lattice") == len(pl) - 2
    place_ret = pl[-1] == "return self"
    if not place_assigns or not place_ret:
        refuse(M["placeInLattice"], "placeInLattice: does not end with `self.lattice = new_lattice; return self`")
    # helpers
    ana = need("addNewAtom")
    at = [U(s) for s in body_of(ana)]
    if len(at) != 3 or at[0] != "kwargs['lattice'] = self.lattice" or at[1] != "a = Atom(*args, **kwargs)" or not at[2].startswith("self.append(a"):
        refuse(ana, "addNewAtom: statements not understood: %s" % at)
    ana_flag = call_flag(body_of(ana)[2].value, ana)
    expect(need("getLastAtom"), [["v1 = self[-1]", "return v1"], ["return self[-1]"]])
    expect(need("tolist"), [["v1 = [v2 for v2 in self]", "return v1"], ["return [v1 for v1 in self]"], ["return list(self)"]])
    expect(need("assignUniqueLabels"), [[
        "v1 = {}", "v2 = set()",
        "for v3 in self:\n    if v3 in v2:\n        continue\n    v4 = atomBareSymbol(v3.element)\n    v1[v4] = v1.get(v4, 0) + 1\n    v3.label = v4 + str(v1[v4])\n    v2.add(v3)"], [
        "v1 = set()", "v2 = {}",
        "for v3 in self:\n    if v3 in v1:\n        continue\n    v4 = atomBareSymbol(v3.element)\n    v2[v4] = v2.get(v4, 0) + 1\n    v3.label = v4 + str(v2[v4])\n    v1.add(v3)"]])
    # which list attributes the class defines itself
    defined = set(M) | set(assigned)
    overrides = sorted(x for x in defined if x in set(dir(list)))

    # the subclass used by the harness must not override any modelled method
    fn2 = os.path.join(SRC, "pdffitstructure.py")
    tree2 = ast.parse(open(fn2).read(), fn2)
    sub = [n for n in tree2.body if isinstance(n, ast.ClassDef) and n.name == "PDFFitStructure"]
    if len(sub) != 1 or [U(b) for b in sub[0].bases] != ["Structure"]:
        raise TranslatorRefusal("pdffitstructure.py: class PDFFitStructure(Structure) not found")
    sub_defs = sorted(n.name for n in sub[0].body if isinstance(n, ast.FunctionDef)) + \
        sorted(t.id for n in sub[0].body if isinstance(n, ast.Assign) for t in n.targets if isinstance(t, ast.Name))
    sub_init = [n for n in sub[0].body if isinstance(n, ast.FunctionDef) and n.name == "__init__"]
    if sub_init:
        sb = [U(x) for x in body_of(sub_init[0])]
        if len(sb) != 2 or not sb[0].startswith("self.pdffit = {") or sb[1] != "Structure.__init__(self, *args, **kwargs)":
            raise TranslatorRefusal("pdffitstructure.py:%d: PDFFitStructure.__init__ is not `self.pdffit = {...}; Structure.__init__(self, *args, **kwargs)`" % sub_init[0].lineno)

    # what a copy of an atom is (Atom(a) / copy.copy(a)): the model's `Dup` copies the payload and the lattice reference
    fa = os.path.join(SRC, "atom.py")
    ta = ast.parse(open(fa).read(), fa)
    acls = [n for n in ta.body if isinstance(n, ast.ClassDef) and n.name == "Atom"]
    if len(acls) != 1:
        raise TranslatorRefusal("atom.py: class Atom not found")
    am = {n.name: n for n in acls[0].body if isinstance(n, ast.FunctionDef)}
    if "__copy__" not in am or "__init__" not in am:
        raise TranslatorRefusal("atom.py: Atom.__copy__ / __init__ not found")
    act = text(body_of(am["__copy__"]), {"self", "target"} | GLOBALS)
    if act != ["if target is None:\n    target = Atom()\nelif target is self:\n    return target", "target.__dict__.update(self.__dict__)",
               "target.xyz = numpy.copy(self.xyz)", "target._U = numpy.copy(self._U)", "return target"]:
        raise TranslatorRefusal("atom.py:%d: Atom.__copy__ is not `__dict__.update` + copies of xyz and _U: %s" % (am["__copy__"].lineno, act))
    ait = text(body_of(am["__init__"]), set(params(am["__init__"])) | GLOBALS)
    if "if isinstance(atype, Atom):\n    atype.__copy__(target=self)\nelif atype is not None:\n    self.element = atype" not in ait:
        raise TranslatorRefusal("atom.py:%d: Atom(atom) does not go through __copy__(target=self)" % am["__init__"].lineno)
    for hook in ("__eq__", "__hash__", "__lt__", "__bool__", "__len__", "__deepcopy__", "__reduce__", "__reduce_ex__", "__getstate__", "__setstate__"):
        if hook in am:
            raise TranslatorRefusal("atom.py:%d: Atom defines %s (the model assumes identity comparison, truthiness and default pickling)" % (am[hook].lineno, hook))
    # whole-column assignment (utils._linkAtomAttribute.fset)
    fu = os.path.join(SRC, "utils.py")
    tu = ast.parse(open(fu).read(), fu)
    lk = [n for n in tu.body if isinstance(n, ast.FunctionDef) and n.name == "_linkAtomAttribute"]
    if len(lk) != 1:
        raise TranslatorRefusal("utils.py: _linkAtomAttribute not found")
    lt = text(body_of(lk[0]), set(params(lk[0])) | GLOBALS | {"property", "repeat", "setitem", "zip"})
    want_lk = ["from itertools import repeat", "from operator import setitem", "v1 = slice(None)",
               "def v2(self):\n    v3 = toarray([getattr(v4, attrname) for v4 in self])\n    return v3",
               "def v5(self, v6):\n    v7 = len(self)\n    if v7 == 0:\n        return\n    v8 = getattr(self[0], attrname)\n    if numpy.isscalar(v8):\n\n        def v9(v4, v10):\n            return setattr(v4, attrname, v10)\n    else:\n\n        def v9(v4, v10):\n            return setitem(getattr(v4, attrname), v1, v10)\n    if numpy.isscalar(v6):\n        v11 = repeat(v6)\n    else:\n        v11 = numpy.broadcast_to(v6, (v7,) + numpy.shape(v8))\n    for v4, v10 in zip(self, v11):\n        v9(v4, v10)\n    return",
               "v12 = property(v2, v5, doc=doc)", "return v12"]
    if lt != want_lk:
        k = next((i for i, (x, y) in enumerate(zip(lt, want_lk)) if x != y), 0)
        raise TranslatorRefusal("utils.py:%d: _linkAtomAttribute statement %d is not the modelled shape" % (lk[0].lineno, k))
    cols = {}
    for name in ("element", "label", "xyz", "occupancy"):
        if name not in assigned or not U(assigned[name].value).startswith("_linkAtomAttribute('%s'," % name):
            raise TranslatorRefusal("structure.py: column view `%s = _linkAtomAttribute('%s', ...)` not found" % (name, name))
    comp = text(body_of(need("_get_composition")), {"self"} | GLOBALS)
    if comp != ["v1 = {}", "for v2 in self:\n    v1[v2.element] = v1.get(v2.element, 0.0) + v2.occupancy", "return v1"]:
        refuse(M["_get_composition"], "_get_composition: statements not understood: %s" % comp)

    fields = [
        ("sh_atom_copy_takes_dict_and_copies_arrays", "true"),
        ("sh_column_assignment_per_atom_broadcast", "true"),
        ("sh_composition_sums_occupancy_per_element", "true"),
        ("sh_subclass_defines", "[" + "; ".join('"%s"' % x for x in sub_defs) + "]"),
        ("sh_append_default", F["append_default"]), ("sh_append_dup", F["append_dup"]), ("sh_append_setlat", B(F["append_setlat"])),
        ("sh_insert_default", F["insert_default"]), ("sh_insert_dup", F["insert_dup"]), ("sh_insert_setlat", B(F["insert_setlat"])),
        ("sh_extend_default", F["extend_default"]),
        ("sh_extend_none_struct", ef["none_struct"]), ("sh_extend_none_other", ef["none_other"]),
        ("sh_extend_true", ef["true"]), ("sh_extend_false", ef["false"]),
        ("sh_extend_setlat", B(sl)), ("sh_extend_materialised", B(mat)),
        ("sh_getitem_order", "[" + "; ".join(order) + "]"),
        ("sh_getitem_slice_flag", gf["slice_flag"]), ("sh_getitem_numpy_flag", gf["numpy_flag"]),
        ("sh_getitem_tuple_via_r", B(gf["tuple_r"])),
        ("sh_getitem_label_map_marks_duplicates", B(gf["dups"])), ("sh_getitem_label_errors_index", B(gf["index_error"])),
        ("sh_getitem_labels_recurse", B(gf["recurse"])),
        ("sh_empty_shared_takes_instance_dict", "true"),
        ("sh_setitem_default", sd), ("sh_setitem_slice_keep", sf["keep"]), ("sh_setitem_slice_copies_others", B(sf["copies_others"])),
        ("sh_setitem_slice_setlat", B(sf["slice_setlat"])), ("sh_setitem_slice_nocopy_takes_value", B(sf["nocopy_value"])),
        ("sh_setitem_scalar_dup", sf["scalar_dup"]),
        ("sh_setitem_scalar_store_before_setlat", B(sf["scalar_store_first"])), ("sh_setitem_slice_store_before_setlat", B(sf["slice_store_first"])),
        ("sh_add_copy_then_iadd", "true"), ("sh_iadd_flag", iadd_flag), ("sh_iadd_returns_self", "true"),
        ("sh_sub_identity_filter_then_copy", "true"), ("sh_isub_slice_assigns_filter", "true"),
        ("sh_mul_copy_empty_slice_then_iadd", "true"), ("sh_rmul_is_mul", "true"),
        ("sh_imul_guard", guard), ("sh_imul_clears", B(clears)), ("sh_imul_flag", imul_flag), ("sh_imul_repeats_minus_one", B(rep)),
        ("sh_copy_is_copymod_copy", "true"), ("sh_copy_default_target_new", "true"), ("sh_copy_self_target_returns", "true"),
        ("sh_copy_new_lattice", "true"), ("sh_copy_slice_assigns_self", "true"),
        ("sh_init_copy_constructor_first", "true"), ("sh_init_lattice_arg_assigned", "true"),
        ("sh_init_default_lattice_when_none", "true"), ("sh_init_extend_when_empty", "true"),
        ("sh_init_extend_flag", call_flag(init_ext, init)),
        ("sh_setstate_relinks", B(setstate)), ("sh_reduce_overridden", B(reduce_over)),
        ("sh_set_lattice_loops_atoms", B(loops)), ("sh_set_lattice_stores", B(stores)),
        ("sh_place_assigns_lattice", B(place_assigns)), ("sh_place_returns_self", B(place_ret)),
        ("sh_addnewatom_flag", ana_flag), ("sh_addnewatom_passes_lattice", "true"),
        ("sh_getlastatom_is_last", "true"), ("sh_tolist_plain", "true"),
        ("sh_unique_labels_skips_repeated_objects", "true"),
        ("sh_list_overrides", "[" + "; ".join('"%s"' % x for x in overrides) + "]"),
    ]
    out = ["(* GENERATED by translate/c08_shapes.py from class Structure in structure.py *)",
           "From Coq Require Import List String Bool.", "From DS Require Import Model.C08_ShapeDefs.",
           "Import ListNotations.", "Open Scope string_scope.", "",
           "Definition gen_shapes : shapes := {|"]
    out.append(";\n".join("  %s := %s" % kv for kv in fields))
    out.append("|}.")
    return {"Gen/C08_Shapes.v": "\n".join(out) + "\n"}


if __name__ == "__main__":
    print(generate()["Gen/C08_Shapes.v"])
