"""Fail-closed translator: statement order of Structure.read / readStr / write and of
PDFFitStructure.read / readStr  ->  Gen/C16_RW.v  (lists of `effect` constructors of
Model/C16_ReadWriteTxn.v).

Only the shapes below are understood; anything else raises TranslatorRefusal("file:line: why").
Local names are tracked by role (parser, parsed structure, text, file handle, space group), so
renaming a local does not change the generated term; import statements have no modelled effect
and emit nothing.

  import ... / from ... import ...             (only diffpy.structure[.parsers], os.path, codecs)
  G = diffpy.structure.parsers.getParser       alias of getParser
  P = getParser(format)                        EGetParser
  N = P.parseFile(filename)                    EParseFile
  N = P.parse(s)                               EParse
  self.__dict__.pop("<name>", None)            EDropInst "<name>"
  for X in ("<n1>", "<n2>", ...):              EDropInst "<n1>"; EDropInst "<n2>"; ...
      self.__dict__.pop(X, None)
  Structure.__init__(self)                     EInitSelf
  if N is None: N = Structure()                EDefaultNewStructure
  if N is not None: <stmts>                    EGuardParsed <stmt> for each
  self.__dict__.update(N.__dict__)             EUpdateDict
  self[:] = N                                  ESetAllItems
  if not self.title: <basename block>          EDefaultTitleFromFilename
  P.filename = filename                        ESetParserFilename
  T = P.tostring(self)                         EToString
  with [codecs.]open(filename, "w"...) as F:   EOpenWrite ... ECloseFile
  F = [codecs.]open(filename, "w"...)          EOpenWrite
  F.write(T)                                   EWriteText
  F.close()                                    ECloseFile
  P = Structure.read(self, filename, format)   EBaseRead      (PDFFitStructure only)
  P = Structure.readStr(self, s, format)       EBaseReadStr   (PDFFitStructure only)
  if self.pdffit is None: self.pdffit = PDFFitStructure().pdffit     ERestoreDefaultPdffit
  SG = getattr(P, "spacegroup", None)          EGetSpacegroup
  if SG: self.pdffit["spcgr"] = SG.short_name  EUpdateSpcgr
  return P / return                            EReturnParser / EReturnNone
"""
import ast
import os

from vlib.core import SRC, TranslatorRefusal

SETUP = True

ALLOWED_IMPORTS = {"diffpy.structure", "diffpy.structure.parsers", "os.path", "os", "codecs"}
SIGNATURES = {
    ("Structure", "read"): (["self", "filename", "format"], ["'auto'"]),
    ("Structure", "readStr"): (["self", "s", "format"], ["'auto'"]),
    ("Structure", "write"): (["self", "filename", "format"], []),
    ("PDFFitStructure", "read"): (["self", "filename", "format"], ["'auto'"]),
    ("PDFFitStructure", "readStr"): (["self", "s", "format"], ["'auto'"]),
}


class _Method:
    def __init__(self, fname, cls, fn):
        self.fname, self.cls, self.fn = fname, cls, fn
        self.getparser = set()      # names bound to parsers.getParser
        self.parser = None          # local holding the parser
        self.new = None             # local holding the parsed structure
        self.text = None            # local holding the serialised text
        self.fp = None              # local holding the open file
        self.sg = None              # local holding the space group
        self.out = []

    def refuse(self, node, why):
        raise TranslatorRefusal("%s:%s: %s.%s: %s" % (self.fname, getattr(node, "lineno", "?"), self.cls, self.fn.name, why))

    # ---- small recognisers -------------------------------------------------
    @staticmethod
    def is_name(n, name):
        return isinstance(n, ast.Name) and n.id == name

    def is_self_dict(self, n):
        return isinstance(n, ast.Attribute) and n.attr == "__dict__" and self.is_name(n.value, "self")

    def is_self_attr(self, n, attr):
        return isinstance(n, ast.Attribute) and n.attr == attr and self.is_name(n.value, "self")

    @staticmethod
    def is_none(n):
        return isinstance(n, ast.Constant) and n.value is None

    def single_target(self, st):
        if len(st.targets) != 1:
            self.refuse(st, "multiple assignment targets")
        return st.targets[0]

    def bind(self, role, target, st):
        if not isinstance(target, ast.Name):
            self.refuse(st, "assignment target for %s is not a plain local" % role)
        if target.id in ("self", "filename", "format", "s") and role != "text":
            self.refuse(st, "local %s shadows an argument" % target.id)
        for other in ("parser", "new", "text", "fp", "sg"):
            if other != role and getattr(self, other) == target.id:
                self.refuse(st, "local %s re-used for a different role" % target.id)
        setattr(self, role, target.id)

    def open_call(self, call, node):
        """[codecs.]open(filename, "w", ...)"""
        if not isinstance(call, ast.Call):
            return False
        f = call.func
        ok = self.is_name(f, "open") or (isinstance(f, ast.Attribute) and f.attr == "open" and self.is_name(f.value, "codecs"))
        if not ok:
            return False
        if len(call.args) < 2 or not self.is_name(call.args[0], "filename"):
            self.refuse(node, "open() of something else than the filename argument")
        mode = call.args[1]
        if not (isinstance(mode, ast.Constant) and mode.value == "w"):
            self.refuse(node, "open() mode is not the literal \"w\"")
        for kw in call.keywords:
            if kw.arg != "encoding":
                self.refuse(node, "unexpected keyword of open(): %s" % kw.arg)
        return True

    # ---- statements ----------------------------------------------------------
    def stmts(self, body, guarded=False, in_with=False):
        for st in body:
            self.stmt(st, guarded, in_with)

    def emit(self, eff, guarded):
        self.out.append("EGuardParsed %s" % (eff if " " not in eff else "(%s)" % eff) if guarded else eff)

    def stmt(self, st, guarded, in_with):
        if isinstance(st, ast.Expr) and isinstance(st.value, ast.Constant) and isinstance(st.value.value, str):
            return                                            # docstring
        if isinstance(st, ast.Import):
            for a in st.names:
                if a.name not in ALLOWED_IMPORTS or a.asname:
                    self.refuse(st, "import of %s" % a.name)
            return
        if isinstance(st, ast.ImportFrom):
            if st.module not in ALLOWED_IMPORTS or st.level:
                self.refuse(st, "import from %s" % st.module)
            for a in st.names:
                if st.module == "diffpy.structure.parsers" and a.name == "getParser":
                    self.getparser.add(a.asname or a.name)
                else:
                    self.refuse(st, "import of %s from %s" % (a.name, st.module))
            return
        if isinstance(st, ast.Return):
            if guarded or in_with:
                self.refuse(st, "return inside a block")
            if st.value is None:
                self.out.append("EReturnNone")
            elif self.parser and self.is_name(st.value, self.parser):
                self.out.append("EReturnParser")
            else:
                self.refuse(st, "return of something else than the parser")
            return
        if isinstance(st, ast.Assign):
            return self.assign(st, guarded, in_with)
        if isinstance(st, ast.Expr) and isinstance(st.value, ast.Call):
            return self.call_stmt(st, guarded, in_with)
        if isinstance(st, ast.If):
            return self.if_stmt(st, guarded, in_with)
        if isinstance(st, ast.With):
            return self.with_stmt(st, guarded, in_with)
        if isinstance(st, ast.For):
            return self.for_stmt(st, guarded, in_with)
        self.refuse(st, "statement not understood: " + type(st).__name__)

    def assign(self, st, guarded, in_with):
        tgt, val = self.single_target(st), st.value
        # G = diffpy.structure.parsers.getParser
        if isinstance(val, ast.Attribute) and ast.unparse(val) == "diffpy.structure.parsers.getParser":
            if not isinstance(tgt, ast.Name) or guarded or in_with:
                self.refuse(st, "alias of getParser in an unexpected place")
            self.getparser.add(tgt.id)
            return
        # P.filename = filename
        if isinstance(tgt, ast.Attribute) and tgt.attr == "filename" and self.parser and self.is_name(tgt.value, self.parser):
            if not self.is_name(val, "filename") or guarded:
                self.refuse(st, "parser filename set to something else than the filename argument")
            self.out.append("ESetParserFilename")
            return
        # self[:] = N
        if isinstance(tgt, ast.Subscript) and self.is_name(tgt.value, "self"):
            sl = tgt.slice
            if not (isinstance(sl, ast.Slice) and sl.lower is None and sl.upper is None and sl.step is None):
                self.refuse(st, "item assignment that is not self[:]")
            if not (self.new and self.is_name(val, self.new)):
                self.refuse(st, "self[:] assigned from something else than the parsed structure")
            self.emit("ESetAllItems", guarded)
            return
        if not isinstance(val, ast.Call):
            self.refuse(st, "assignment not understood: " + ast.unparse(st)[:70])
        f = val.func
        # P = getParser(format)
        if isinstance(f, ast.Name) and f.id in self.getparser:
            if len(val.args) != 1 or val.keywords or not self.is_name(val.args[0], "format") or guarded or in_with:
                self.refuse(st, "getParser not called as getParser(format)")
            self.bind("parser", tgt, st)
            self.out.append("EGetParser")
            return
        # N = P.parse(s) / P.parseFile(filename);  T = P.tostring(self)
        if isinstance(f, ast.Attribute) and self.parser and self.is_name(f.value, self.parser):
            if val.keywords or len(val.args) != 1:
                self.refuse(st, "parser method called with unexpected arguments")
            a = val.args[0]
            if f.attr == "parse" and self.is_name(a, "s") and self.fn.name == "readStr" and not guarded:
                self.bind("new", tgt, st)
                self.out.append("EParse")
                return
            if f.attr == "parseFile" and self.is_name(a, "filename") and self.fn.name == "read" and not guarded:
                self.bind("new", tgt, st)
                self.out.append("EParseFile")
                return
            if f.attr == "tostring" and self.is_name(a, "self") and self.fn.name == "write" and not guarded:
                self.bind("text", tgt, st)
                self.out.append("EToString")
                return
            self.refuse(st, "parser method not understood: " + ast.unparse(val)[:60])
        # F = open(filename, "w")
        if self.open_call(val, st):
            if guarded or in_with:
                self.refuse(st, "open() inside a block")
            self.bind("fp", tgt, st)
            self.out.append("EOpenWrite")
            return
        # P = Structure.read(self, filename, format) / Structure.readStr(self, s, format)
        if isinstance(f, ast.Attribute) and self.is_name(f.value, "Structure") and self.cls == "PDFFitStructure" \
                and f.attr == self.fn.name and f.attr in ("read", "readStr"):
            want = ["self", "filename", "format"] if f.attr == "read" else ["self", "s", "format"]
            got = [x.id if isinstance(x, ast.Name) else None for x in val.args]
            kws = {k.arg: (k.value.id if isinstance(k.value, ast.Name) else None) for k in val.keywords}
            if got + [kws.get(n) for n in want[len(got):]] != want or len(got) + len(kws) != 3 or guarded or in_with:
                self.refuse(st, "base method not called with the method's own arguments")
            self.bind("parser", tgt, st)
            self.out.append("EBaseRead" if f.attr == "read" else "EBaseReadStr")
            return
        # SG = getattr(P, "spacegroup", None)
        if self.is_name(f, "getattr") and len(val.args) == 3 and self.parser and self.is_name(val.args[0], self.parser) \
                and isinstance(val.args[1], ast.Constant) and val.args[1].value == "spacegroup" and self.is_none(val.args[2]) \
                and not val.keywords and not guarded:
            self.bind("sg", tgt, st)
            self.out.append("EGetSpacegroup")
            return
        self.refuse(st, "assignment not understood: " + ast.unparse(st)[:70])

    def call_stmt(self, st, guarded, in_with):
        c = st.value
        f = c.func
        src = ast.unparse(c)
        if src == "Structure.__init__(self)":
            self.emit("EInitSelf", guarded)
            return
        if isinstance(f, ast.Attribute) and self.is_self_dict(f.value):
            if f.attr == "pop" and len(c.args) == 2 and not c.keywords and isinstance(c.args[0], ast.Constant) \
                    and isinstance(c.args[0].value, str) and c.args[0].value.isidentifier() and self.is_none(c.args[1]):
                self.emit('EDropInst "%s"' % c.args[0].value, guarded)
                return
            if f.attr == "update" and len(c.args) == 1 and not c.keywords and self.new \
                    and isinstance(c.args[0], ast.Attribute) and c.args[0].attr == "__dict__" and self.is_name(c.args[0].value, self.new):
                self.emit("EUpdateDict", guarded)
                return
            self.refuse(st, "operation on self.__dict__ not understood: " + src[:60])
        if isinstance(f, ast.Attribute) and self.fp and self.is_name(f.value, self.fp) and not guarded:
            if f.attr == "write" and len(c.args) == 1 and not c.keywords and self.text and self.is_name(c.args[0], self.text):
                self.out.append("EWriteText")
                return
            if f.attr == "close" and not c.args and not c.keywords and not in_with:
                self.out.append("ECloseFile")
                return
        self.refuse(st, "call not understood: " + src[:70])

    def if_stmt(self, st, guarded, in_with):
        if st.orelse or guarded or in_with:
            self.refuse(st, "else branch or nested if")
        t = st.test
        # if N is not None:
        if isinstance(t, ast.Compare) and len(t.ops) == 1 and isinstance(t.ops[0], ast.IsNot) and self.new \
                and self.is_name(t.left, self.new) and self.is_none(t.comparators[0]):
            self.stmts(st.body, guarded=True)
            return
        # if N is None: N = Structure()
        if isinstance(t, ast.Compare) and len(t.ops) == 1 and isinstance(t.ops[0], ast.Is) and self.new \
                and self.is_name(t.left, self.new) and self.is_none(t.comparators[0]):
            if len(st.body) == 1 and ast.unparse(st.body[0]) == "%s = Structure()" % self.new and self.cls == "Structure":
                self.out.append("EDefaultNewStructure")
                return
            self.refuse(st, "None-result block is not `%s = Structure()`" % self.new)
        # if not self.title: <title from file name>
        if isinstance(t, ast.UnaryOp) and isinstance(t.op, ast.Not) and self.is_self_attr(t.operand, "title"):
            self.title_block(st)
            self.out.append("EDefaultTitleFromFilename")
            return
        # if self.pdffit is None: self.pdffit = PDFFitStructure().pdffit
        if isinstance(t, ast.Compare) and len(t.ops) == 1 and isinstance(t.ops[0], ast.Is) and self.is_self_attr(t.left, "pdffit") \
                and self.is_none(t.comparators[0]):
            if len(st.body) == 1 and ast.unparse(st.body[0]) == "self.pdffit = PDFFitStructure().pdffit" and self.cls == "PDFFitStructure":
                self.out.append("ERestoreDefaultPdffit")
                return
            self.refuse(st, "pdffit default block not understood")
        # if SG: self.pdffit["spcgr"] = SG.short_name
        if self.sg and self.is_name(t, self.sg):
            if len(st.body) == 1 and ast.unparse(st.body[0]) in ("self.pdffit['spcgr'] = %s.short_name" % self.sg,):
                self.out.append("EUpdateSpcgr")
                return
            self.refuse(st, "space-group update block not understood")
        self.refuse(st, "condition not understood: " + ast.unparse(t)[:60])

    def for_stmt(self, st, guarded, in_with):
        """for X in ("a", "b"): self.__dict__.pop(X, None)   -- unrolled"""
        if st.orelse or in_with or not isinstance(st.target, ast.Name) or not isinstance(st.iter, (ast.Tuple, ast.List)):
            self.refuse(st, "loop not understood")
        names = []
        for e in st.iter.elts:
            if not (isinstance(e, ast.Constant) and isinstance(e.value, str) and e.value.isidentifier()):
                self.refuse(st, "loop over something else than attribute-name literals")
            names.append(e.value)
        ok = len(st.body) == 1 and isinstance(st.body[0], ast.Expr) and isinstance(st.body[0].value, ast.Call)
        if ok:
            c = st.body[0].value
            ok = isinstance(c.func, ast.Attribute) and c.func.attr == "pop" and self.is_self_dict(c.func.value) and len(c.args) == 2 \
                and not c.keywords and self.is_name(c.args[0], st.target.id) and self.is_none(c.args[1])
        if not ok:
            self.refuse(st, "loop body is not self.__dict__.pop(<loop variable>, None)")
        for n in names:
            self.emit('EDropInst "%s"' % n, guarded)

    def title_block(self, st):
        body = [b for b in st.body if not isinstance(b, (ast.Import, ast.ImportFrom))]
        for b in st.body:
            if isinstance(b, (ast.Import, ast.ImportFrom)):
                self.stmt(b, False, False)
        if self.fn.name != "read":
            self.refuse(st, "title from file name outside read()")
        ok = len(body) == 3 and all(isinstance(b, ast.Assign) and len(b.targets) == 1 for b in body)
        if ok:
            t0, t1, t2 = (b.targets[0] for b in body)
            ok = isinstance(t0, ast.Name) and isinstance(t1, ast.Name) and self.is_self_attr(t2, "title") \
                and ast.unparse(body[0].value) == "os.path.basename(filename)" \
                and ast.unparse(body[1].value) == "os.path.splitext(%s)[0]" % t0.id \
                and self.is_name(body[2].value, t1.id)
        if not ok:
            self.refuse(st, "title block is not basename/splitext of the filename argument")

    def with_stmt(self, st, guarded, in_with):
        if guarded or in_with or len(st.items) != 1:
            self.refuse(st, "nested or multiple with")
        it = st.items[0]
        if not self.open_call(it.context_expr, st) or it.optional_vars is None:
            self.refuse(st, "with block over something else than open(filename, \"w\") as F")
        self.bind("fp", it.optional_vars, st)
        self.out.append("EOpenWrite")
        self.stmts(st.body, guarded=False, in_with=True)
        self.out.append("ECloseFile")

    def run(self):
        fn = self.fn
        want, defaults = SIGNATURES[(self.cls, fn.name)]
        a = fn.args
        if [x.arg for x in a.args] != want or a.vararg or a.kwarg or a.kwonlyargs or a.posonlyargs \
                or [ast.unparse(d) for d in a.defaults] != defaults or fn.decorator_list:
            self.refuse(fn, "unexpected signature or decorator")
        self.stmts(fn.body)
        return self.out


def _methods(path, clsname, names):
    fname = os.path.basename(path)
    tree = ast.parse(open(path).read(), path)
    cs = [n for n in tree.body if isinstance(n, ast.ClassDef) and n.name == clsname]
    if len(cs) != 1:
        raise TranslatorRefusal("%s: class %s not found exactly once" % (fname, clsname))
    out = {}
    for name in names:
        fs = [n for n in cs[0].body if isinstance(n, ast.FunctionDef) and n.name == name]
        if len(fs) != 1:
            raise TranslatorRefusal("%s: %s.%s not defined exactly once" % (fname, clsname, name))
        out[name] = _Method(fname, clsname, fs[0]).run()
    # a later re-binding of the method name in the class body (e.g. read = other) would bypass the body
    for n in cs[0].body:
        if isinstance(n, ast.Assign):
            for t in n.targets:
                if isinstance(t, ast.Name) and t.id in names:
                    raise TranslatorRefusal("%s:%s: %s.%s re-bound in the class body" % (fname, n.lineno, clsname, t.id))
    return out


def _fresh_literal(n):
    """a literal that builds NEW objects on every evaluation and contains no reference to a shared container"""
    if isinstance(n, ast.Constant):
        return True
    if isinstance(n, (ast.List, ast.Tuple)):
        return all(_fresh_literal(e) for e in n.elts)
    if isinstance(n, ast.Dict):
        return all(k is not None and _fresh_literal(k) and _fresh_literal(v) for k, v in zip(n.keys, n.values))
    if isinstance(n, ast.BinOp) and isinstance(n.op, ast.Mult):          # 6 * [0.0]
        return _fresh_literal(n.left) and _fresh_literal(n.right)
    if isinstance(n, ast.UnaryOp) and isinstance(n.operand, ast.Constant):
        return True
    return False


def _no_shared_defaults(path, clsname, init_attrs):
    """The model (and the property) need the metadata containers of two objects to be two objects:
    - no class-level attribute of the class may be a mutable container (dict / list / set literal or constructor call,
      comprehension): such a default is ONE object shared by all instances;
    - __init__ (when the class has one) must build every attribute in `init_attrs` from a literal made of constants
      (nested dict / list literals, `n * [const]`), not from a copy of something that lives longer than the call."""
    fname = os.path.basename(path)
    tree = ast.parse(open(path).read(), path)
    cs = [n for n in tree.body if isinstance(n, ast.ClassDef) and n.name == clsname]
    if len(cs) != 1:
        raise TranslatorRefusal("%s: class %s not found exactly once" % (fname, clsname))
    for n in cs[0].body:
        targets, value = [], None
        if isinstance(n, ast.Assign):
            targets, value = n.targets, n.value
        elif isinstance(n, ast.AnnAssign) and n.value is not None:
            targets, value = [n.target], n.value
        if value is None:
            continue
        mutable = isinstance(value, (ast.Dict, ast.List, ast.Set, ast.ListComp, ast.DictComp, ast.SetComp)) or (
            isinstance(value, ast.Call) and ast.unparse(value.func) in ("dict", "list", "set", "defaultdict", "OrderedDict",
                                                                        "collections.defaultdict", "collections.OrderedDict", "bytearray"))
        if mutable:
            raise TranslatorRefusal("%s:%s: %s.%s is a class-level mutable container: one object shared by every instance (an in-place edit "
                                    "through one structure would show up in every later read)" % (fname, n.lineno, clsname, ast.unparse(targets[0])))
    inits = [n for n in cs[0].body if isinstance(n, ast.FunctionDef) and n.name == "__init__"]
    if not init_attrs:
        return
    if len(inits) != 1:
        raise TranslatorRefusal("%s: %s.__init__ not defined exactly once" % (fname, clsname))
    found = set()
    for st in ast.walk(inits[0]):
        if isinstance(st, ast.Assign):
            for t in st.targets:
                if isinstance(t, ast.Attribute) and isinstance(t.value, ast.Name) and t.value.id == "self" and t.attr in init_attrs:
                    if not _fresh_literal(st.value):
                        raise TranslatorRefusal("%s:%s: %s.__init__ builds self.%s from `%s`, not from a literal of constants: nested containers "
                                                "could be shared between instances" % (fname, st.lineno, clsname, t.attr, ast.unparse(st.value)[:60]))
                    found.add(t.attr)
    missing = set(init_attrs) - found
    if missing:
        raise TranslatorRefusal("%s:%s: %s.__init__ does not assign %s" % (fname, inits[0].lineno, clsname, sorted(missing)))


def effect_lists():
    _no_shared_defaults(os.path.join(SRC, "structure.py"), "Structure", [])
    _no_shared_defaults(os.path.join(SRC, "pdffitstructure.py"), "PDFFitStructure", ["pdffit"])
    s = _methods(os.path.join(SRC, "structure.py"), "Structure", ["read", "readStr", "write"])
    p = _methods(os.path.join(SRC, "pdffitstructure.py"), "PDFFitStructure", ["read", "readStr"])
    return {"structure_read": s["read"], "structure_readstr": s["readStr"], "structure_write": s["write"],
            "pdffit_read": p["read"], "pdffit_readstr": p["readStr"]}


def generate():
    ls = effect_lists()
    out = ["(* GENERATED by translate/c16_rw.py from structure.py and pdffitstructure.py: statement order of",
           "   Structure.read / readStr / write and PDFFitStructure.read / readStr *)",
           "From Coq Require Import List String.", "From DS Require Import Model.C16_ReadWriteTxn.",
           "Import ListNotations.", "Open Scope string_scope.", ""]
    for k in ("structure_read", "structure_readstr", "structure_write", "pdffit_read", "pdffit_readstr"):
        out.append("Definition %s : list effect :=\n  [ %s ]." % (k, ";\n    ".join(ls[k])))
        out.append("")
    return {"Gen/C16_RW.v": "\n".join(out)}


if __name__ == "__main__":
    print(generate()["Gen/C16_RW.v"])
