"""Fail-closed translator: parsers/p_cif.py -> Gen/C07_CifSpec.v   (property C07)

Extracted as DATA (consumed by Model/C07_CifRead.v, so an edit of the source changes the model):
  * the tuple of names in `_atom_setters = dict.fromkeys((...))` and the case-folding loop after it;
  * every `_tr_*` translator as (target attribute, factor, leading_float default):
        return                                              -> TIgnore
        a.<U11..U23|Uisoequiv|occupancy> = [P_cif.BtoU *] leading_float(value[, d])
        a.xyz[i] = leading_float(value) / a.xyz_cartn[i] = leading_float(value)
        a.anisotropy = value not in (<names>)               -> TAdpType + the names
        the label and type_symbol translators (fixed shapes, the `_psymb` pattern is checked literally)
        `_tr_b = _tr_a` aliases
  * `BtoU = 1.0 / (8 * numpy.pi**2)` as an arithmetic term;
  * which reader of the constant part `getSymOp` uses (eval / numeric parser) and which labelling scheme
    `_expandAsymmetricUnit` uses (plain `_k` suffix / suffix skipping taken labels).
Checked by SHAPE (normalised AST, local names canonicalised, docstrings dropped) against the templates the hand-written
model was made from: `_get_atom_setters`, `_parseCifBlock`, `_parse_lattice`, `_parse_atom_site_label`,
`_parse_atom_site_aniso_label`, `_parse_space_group_symop_operation_xyz`, `_expandAsymmetricUnit`, `leading_float`,
`rx_float`, `symvec`, `getSymOp` (+ `_parseSymOpTranslation` and its patterns when present).
Anything else raises TranslatorRefusal naming the line.
"""
import ast
import hashlib
import os

from vlib.core import SRC, TranslatorRefusal

SETUP = True
FN = os.path.join("parsers", "p_cif.py")

U_ATTRS = {"U11": "N11", "U22": "N22", "U33": "N33", "U12": "N12", "U13": "N13", "U23": "N23"}
PSYMB = r"(\d+-)?([a-zA-Z]+)(\d[+-])?"
RX_FLOAT = r"[-+]?(\d+(\.\d*)?|\.\d+)([eE][-+]?\d+)?"
RX_SPLIT = "(?i)([+-]?[xyz])"


def _refuse(node, why):
    raise TranslatorRefusal("%s:%s: %s" % (FN, getattr(node, "lineno", "?"), why))


def cstr(s):
    if any(ord(c) < 32 or ord(c) > 126 or c == '"' for c in s):
        raise TranslatorRefusal("%s: string literal %r outside printable ASCII" % (FN, s))
    return '"%s"' % s


def strip_doc(body):
    return [s for s in body if not (isinstance(s, ast.Expr) and isinstance(s.value, ast.Constant) and isinstance(s.value.value, str))]


class _Canon(ast.NodeTransformer):
    """Rename function-local names (arguments, assigned names, loop/with/except targets) by first appearance."""

    def __init__(self, local):
        self.local = local
        self.map = {}

    def _n(self, name):
        if name in self.local:
            return self.map.setdefault(name, "v%d" % len(self.map))
        return name

    def visit_Name(self, node):
        return ast.copy_location(ast.Name(id=self._n(node.id), ctx=node.ctx), node)

    def visit_arg(self, node):
        return ast.copy_location(ast.arg(arg=self._n(node.arg), annotation=None), node)

    def visit_ExceptHandler(self, node):
        self.generic_visit(node)
        if node.name:
            node.name = self._n(node.name)
        return node


def _locals_of(f):
    names = set(a.arg for a in f.args.args)
    for n in ast.walk(f):
        if isinstance(n, ast.Name) and isinstance(n.ctx, (ast.Store, ast.Del)):
            names.add(n.id)
        if isinstance(n, ast.ExceptHandler) and n.name:
            names.add(n.name)
        if isinstance(n, (ast.Import, ast.ImportFrom)):
            for a in n.names:
                names.discard((a.asname or a.name).split(".")[0])
    # imported names stay global
    for n in ast.walk(f):
        if isinstance(n, (ast.Import, ast.ImportFrom)):
            for a in n.names:
                names.discard((a.asname or a.name).split(".")[0])
    return names


def shape(f):
    """Normalised text of a function: docstrings and `pass` dropped, locals renamed, unparsed."""
    g = ast.parse(ast.unparse(f)).body[0]
    for n in ast.walk(g):
        if hasattr(n, "body") and isinstance(n.body, list):
            b = [s for s in strip_doc(n.body) if not isinstance(s, ast.Pass)]
            # a bare trailing `return` carries no meaning
            if isinstance(n, ast.FunctionDef) and b and isinstance(b[-1], ast.Return) and b[-1].value is None:
                b = b[:-1]
            n.body = b or [ast.Pass()]
    g = _Canon(_locals_of(g)).visit(g)
    g.name = "f"
    g.decorator_list = []
    ast.fix_missing_locations(g)
    return ast.unparse(g)


def digest(text):
    return hashlib.sha256(text.encode()).hexdigest()[:16]


# normalised shapes the model was written from (see tools at the end of this file: `python -m translate.c07_cif --shapes`)
TEMPLATES = {
    "_get_atom_setters": {"ALL": None},
    "_parseCifBlock": {"ALL": None},
    "_parse_lattice": {"ALL": None},
    "_parse_atom_site_label": {"ALL": None},
    "_parse_atom_site_aniso_label": {"ALL": None},
    "_parse_space_group_symop_operation_xyz": {"ALL": None},
    "_expandAsymmetricUnit": {"LSPlain": None, "LSFresh": None},
    "leading_float": {"ALL": None},
    "getSymOp": {"SREval": None, "SRNumeric": None},
    "_parseSymOpTranslation": {"ALL": None},
}
# filled from the companion file so that the digests stay readable in one place
from translate import c07_shapes as _shapes  # noqa: E402
for _k, _v in _shapes.DIGESTS.items():
    TEMPLATES[_k] = dict(_v)


def _match_shape(name, f):
    d = digest(shape(f))
    for tag, want in TEMPLATES[name].items():
        if want == d:
            return tag
    _refuse(f, "the body of %s no longer has the shape the C07 model was written from (digest %s)" % (name, d))


# ---- arithmetic term for BtoU -------------------------------------------------------------------
def arith(e):
    if isinstance(e, ast.Constant) and isinstance(e.value, (int, float)) and not isinstance(e.value, bool):
        if float(e.value) != int(e.value):
            _refuse(e, "non-integer constant in BtoU")
        return "(tofZ O %d)" % int(e.value)
    if isinstance(e, ast.Attribute) and ast.unparse(e) == "numpy.pi":
        return "pi"
    if isinstance(e, ast.BinOp):
        if isinstance(e.op, ast.Pow):
            if not (isinstance(e.right, ast.Constant) and e.right.value == 2):
                _refuse(e, "only ** 2 is understood")
            b = arith(e.left)
            return "(tmul O %s %s)" % (b, b)
        op = {ast.Add: "tadd", ast.Sub: "tsub", ast.Mult: "tmul", ast.Div: "tdiv"}.get(type(e.op))
        if op is None:
            _refuse(e, "operator not understood in BtoU")
        return "(%s O %s %s)" % (op, arith(e.left), arith(e.right))
    _refuse(e, "expression not understood in BtoU: " + ast.unparse(e))


# ---- the _tr_* translators ------------------------------------------------------------------------
def dec_of(node):
    """leading_float default as exact decimal (mantissa, exponent)."""
    if not (isinstance(node, ast.Constant) and isinstance(node.value, (int, float)) and not isinstance(node.value, bool)):
        _refuse(node, "leading_float default is not a numeric literal")
    from decimal import Decimal
    d = Decimal(repr(node.value))
    sign, digits, exp = d.as_tuple()
    m = int("".join(map(str, digits))) * (-1 if sign else 1)
    return "(Dec %s %s)" % (zl(m), zl(exp))


def zl(x):
    return "(%d)" % x if x < 0 else "%d" % x


def rhs_number(e, arg):
    """[P_cif.BtoU *] leading_float(value[, d])  ->  (scaling, default)"""
    scale = "SOne"
    if isinstance(e, ast.BinOp) and isinstance(e.op, ast.Mult):
        if ast.unparse(e.left) != "P_cif.BtoU":
            _refuse(e, "factor is not P_cif.BtoU")
        scale = "SBtoU"
        e = e.right
    if not (isinstance(e, ast.Call) and isinstance(e.func, ast.Name) and e.func.id == "leading_float" and not e.keywords
            and 1 <= len(e.args) <= 2 and isinstance(e.args[0], ast.Name) and e.args[0].id == arg):
        _refuse(e, "value is not leading_float(%s[, default])" % arg)
    default = dec_of(e.args[1]) if len(e.args) == 2 else "(Dec 0 0)"
    return scale, default


LABEL_SHAPE = "def f(v0, v1):\n    v0.label = str(v1)\n    if not v0.element:\n        P_cif._tr_atom_site_type_symbol(v0, v1)"
TYPE_SHAPE = ("def f(v0, v1):\n    v2 = P_cif._psymb.match(v1)\n    v3 = v2 and v2.group(0) or v1\n    v3 = str(v3)\n"
              "    v0.element = v3[:1].upper() + v3[1:].lower()")


def translate_setter(f):
    """-> (coq setter term, iso names or None)"""
    if len(f.args.args) != 2 or f.args.vararg or f.args.kwarg or f.args.kwonlyargs or f.args.defaults:
        _refuse(f, "translator does not take exactly (a, value)")
    a, v = f.args.args[0].arg, f.args.args[1].arg
    body = strip_doc(f.body)
    if len(body) == 1 and isinstance(body[0], ast.Return) and body[0].value is None:
        return "Setter TIgnore SOne (Dec 0 0)", None
    sh = shape(f)
    if sh == LABEL_SHAPE:
        return "Setter TLabel SOne (Dec 0 0)", None
    if sh == TYPE_SHAPE:
        return "Setter TTypeSymbol SOne (Dec 0 0)", None
    if len(body) != 1 or not isinstance(body[0], ast.Assign) or len(body[0].targets) != 1:
        _refuse(f, "translator body is not a single assignment")
    tgt, val = body[0].targets[0], body[0].value
    if isinstance(tgt, ast.Attribute) and isinstance(tgt.value, ast.Name) and tgt.value.id == a:
        if tgt.attr == "anisotropy":
            if not (isinstance(val, ast.Compare) and len(val.ops) == 1 and isinstance(val.ops[0], ast.NotIn) and isinstance(val.left, ast.Name)
                    and val.left.id == v and isinstance(val.comparators[0], ast.Tuple)
                    and all(isinstance(x, ast.Constant) and isinstance(x.value, str) for x in val.comparators[0].elts)):
                _refuse(f, "anisotropy is not `value not in (<strings>)`")
            return "Setter TAdpType SOne (Dec 0 0)", [x.value for x in val.comparators[0].elts]
        scale, default = rhs_number(val, v)
        if tgt.attr in U_ATTRS:
            return "Setter (TUij %s) %s %s" % (U_ATTRS[tgt.attr], scale, default), None
        if tgt.attr == "Uisoequiv":
            return "Setter TUisoequiv %s %s" % (scale, default), None
        if tgt.attr == "occupancy":
            return "Setter TOccupancy %s %s" % (scale, default), None
        _refuse(f, "assignment to unknown attribute a.%s" % tgt.attr)
    if (isinstance(tgt, ast.Subscript) and isinstance(tgt.value, ast.Attribute) and isinstance(tgt.value.value, ast.Name)
            and tgt.value.value.id == a and tgt.value.attr in ("xyz", "xyz_cartn") and isinstance(tgt.slice, ast.Constant)
            and tgt.slice.value in (0, 1, 2) and not isinstance(tgt.slice.value, bool)):
        scale, default = rhs_number(val, v)
        kind = "TFract" if tgt.value.attr == "xyz" else "TCartn"
        return "Setter (%s i%d) %s %s" % (kind, tgt.slice.value, scale, default), None
    _refuse(f, "assignment target not understood: " + ast.unparse(tgt))


def caught_errors(methods):
    """Names in the `except (...) as err:` clause of _parseCifDataSource that become StructureFormatError."""
    if "_parseCifDataSource" not in methods:
        raise TranslatorRefusal("%s: method _parseCifDataSource not found" % FN)
    f = methods["_parseCifDataSource"]
    tries = [n for n in ast.walk(f) if isinstance(n, ast.Try)]
    if len(tries) != 1 or len(tries[0].handlers) != 1 or tries[0].orelse or tries[0].finalbody:
        _refuse(f, "_parseCifDataSource does not have exactly one try / one except clause")
    h = tries[0].handlers[0]
    want = ("exc_type, exc_value, exc_traceback = sys.exc_info()\nemsg = str(%s).strip()\ne = StructureFormatError(emsg)\n"
            "raise e.with_traceback(exc_traceback)" % h.name)
    if "\n".join(ast.unparse(x) for x in h.body) != want:
        _refuse(h, "the except clause of _parseCifDataSource no longer re-raises StructureFormatError in the known way")
    t = h.type
    elts = t.elts if isinstance(t, ast.Tuple) else [t]
    names = []
    for e in elts:
        if not isinstance(e, ast.Name):
            _refuse(h, "exception class is not a plain name")
        names.append(e.id)
    # the loop over blocks inside the try must still call _parseCifBlock
    if "self._parseCifBlock(blockname)" not in ast.unparse(tries[0]):
        _refuse(f, "_parseCifBlock is no longer called inside the try block")
    return names


def load():
    path = os.path.join(SRC, FN)
    src = open(path).read()
    tree = ast.parse(src, path)
    cls = [s for s in tree.body if isinstance(s, ast.ClassDef) and s.name == "P_cif"]
    if len(cls) != 1:
        raise TranslatorRefusal("%s: class P_cif not found exactly once" % FN)
    cls = cls[0]
    names, btou, bodies, aliases, iso = None, None, {}, {}, None
    pending_static = set()
    body = strip_doc(cls.body)
    i = 0
    fold_seen = False
    psymb_seen = False
    methods = {}
    while i < len(body):
        st = body[i]
        i += 1
        if isinstance(st, ast.Assign) and len(st.targets) == 1 and isinstance(st.targets[0], ast.Name):
            nm = st.targets[0].id
            u = ast.unparse(st.value)
            if nm == "_atom_setters":
                v = st.value
                if not (isinstance(v, ast.Call) and ast.unparse(v.func) == "dict.fromkeys" and len(v.args) == 1 and not v.keywords
                        and isinstance(v.args[0], ast.Tuple) and all(isinstance(e, ast.Constant) and isinstance(e.value, str) for e in v.args[0].elts)):
                    _refuse(st, "_atom_setters is not dict.fromkeys((<string literals>))")
                names = [e.value for e in v.args[0].elts]
            elif nm == "BtoU":
                btou = arith(st.value)
            elif nm == "_psymb":
                if u != "re.compile(%r)" % PSYMB:
                    _refuse(st, "_psymb pattern changed: " + u)
                psymb_seen = True
            elif nm.startswith("_tr_"):
                if u == "staticmethod(%s)" % nm:
                    if nm not in pending_static:
                        _refuse(st, "staticmethod() of an unknown translator")
                    pending_static.discard(nm)
                elif isinstance(st.value, ast.Name) and st.value.id in bodies:
                    aliases[nm] = st.value.id
                else:
                    _refuse(st, "translator assignment not understood: " + u)
            elif nm in ("_get_atom_setters",):
                if u != "staticmethod(%s)" % nm:
                    _refuse(st, "unexpected assignment to " + nm)
            else:
                _refuse(st, "unexpected class-level assignment to " + nm)
        elif isinstance(st, ast.For):
            want = "for k in list(_atom_setters.keys()):\n    _atom_setters[k] = _atom_setters[k.lower()] = k"
            if ast.unparse(st) != want or names is None:
                _refuse(st, "case-folding loop of _atom_setters changed")
            fold_seen = True
        elif isinstance(st, ast.Delete):
            if ast.unparse(st) != "del k":
                _refuse(st, "unexpected del")
        elif isinstance(st, ast.FunctionDef):
            if st.name.startswith("_tr_"):
                term, isov = translate_setter(st)
                bodies[st.name] = term
                if isov is not None:
                    iso = isov
                pending_static.add(st.name)
            else:
                methods[st.name] = st
        else:
            _refuse(st, "unexpected class-level statement")
    if names is None or btou is None or not fold_seen or not psymb_seen:
        raise TranslatorRefusal("%s: _atom_setters / BtoU / case-folding loop / _psymb not all found" % FN)
    if pending_static:
        raise TranslatorRefusal("%s: translators never wrapped in staticmethod: %s" % (FN, sorted(pending_static)))
    for k, v in aliases.items():
        bodies[k] = bodies[v]
    for n in names:
        if n not in bodies:
            raise TranslatorRefusal("%s: _atom_setters names %s but the class defines no such translator" % (FN, n))
    if iso is None:
        raise TranslatorRefusal("%s: no adp-type translator found" % FN)
    # shapes of the control flow
    tags = {}
    for m in ("_get_atom_setters", "_parseCifBlock", "_parse_lattice", "_parse_atom_site_label", "_parse_atom_site_aniso_label",
              "_parse_space_group_symop_operation_xyz", "_expandAsymmetricUnit"):
        if m not in methods:
            raise TranslatorRefusal("%s: method %s not found" % (FN, m))
        tags[m] = _match_shape(m, methods[m])
    funcs = {s.name: s for s in tree.body if isinstance(s, ast.FunctionDef)}
    for m in ("leading_float", "getSymOp"):
        if m not in funcs:
            raise TranslatorRefusal("%s: function %s not found" % (FN, m))
        tags[m] = _match_shape(m, funcs[m])
    consts = {}
    for s in tree.body:
        if isinstance(s, ast.Assign) and len(s.targets) == 1:
            consts.setdefault(ast.unparse(s.targets[0]), []).append(ast.unparse(s.value))
    if consts.get("rx_float") != ["re.compile(%r)" % RX_FLOAT]:
        raise TranslatorRefusal("%s: rx_float changed: %s" % (FN, consts.get("rx_float")))
    want_symvec = {
        "symvec": ["{'x': numpy.array([1, 0, 0], dtype=float), 'y': numpy.array([0, 1, 0], dtype=float), 'z': numpy.array([0, 0, 1], dtype=float), "
                   "'-x': numpy.array([-1, 0, 0], dtype=float), '-y': numpy.array([0, -1, 0], dtype=float), '-z': numpy.array([0, 0, -1], dtype=float)}"],
        "symvec['+x']": ["symvec['x']"], "symvec['+y']": ["symvec['y']"], "symvec['+z']": ["symvec['z']"],
    }
    for k, v in want_symvec.items():
        if consts.get(k) != v:
            raise TranslatorRefusal("%s: %s changed" % (FN, k))
    if tags["getSymOp"] == "SRNumeric":
        if "_parseSymOpTranslation" not in funcs:
            raise TranslatorRefusal("%s: _parseSymOpTranslation not found" % FN)
        _match_shape("_parseSymOpTranslation", funcs["_parseSymOpTranslation"])
        for k, v in _shapes.SYMOP_PATTERNS.items():
            if consts.get(k) != [v]:
                raise TranslatorRefusal("%s: pattern %s changed: %s" % (FN, k, consts.get(k)))
    caught = caught_errors(methods)
    return {"names": names, "bodies": bodies, "iso": iso, "btou": btou, "symop_reader": tags["getSymOp"],
            "label_scheme": tags["_expandAsymmetricUnit"], "caught": caught, "setter_order": tags["_parse_atom_site_label"]}


def generate():
    d = load()
    out = ["(* GENERATED by translate/c07_cif.py from parsers/p_cif.py - do not edit *)",
           "From Coq Require Import ZArith List String.",
           "From DS Require Import Base.C09_GNum Model.C09_AtomADP Model.C07_Text Model.C07_SpecDefs.",
           "Import ListNotations.", "Open Scope Z_scope.", "Open Scope string_scope.", "",
           "(* the tuple of dict.fromkeys; the loop after it adds the lower-case spelling of each name as a key of the same value *)",
           "Definition setter_names : list string := [", "  " + ";\n  ".join(cstr(n) for n in d["names"]), "].", "",
           "(* what each translator does: target, factor, leading_float default *)",
           "Definition setter_bodies : list (string * setter) := [",
           "  " + ";\n  ".join("(%s, %s)" % (cstr(n), d["bodies"][n]) for n in sorted(d["bodies"])), "].", "",
           "Definition iso_adp_values : list string := [%s]." % "; ".join(cstr(x) for x in d["iso"]), "",
           "(* P_cif.BtoU *)",
           "Definition cif_BtoU {T : Type} (O : ops T) (pi : T) : T := %s." % d["btou"], "",
           "(* exceptions that _parseCifDataSource turns into StructureFormatError *)",
           "Definition caught_errors : list string := [%s]." % "; ".join(cstr(x) for x in d["caught"]), "",
           "Definition the_symop_reader : symop_reader := %s." % d["symop_reader"],
           "Definition the_label_scheme : label_scheme := %s." % d["label_scheme"],
           "Definition the_setter_order : setter_order := %s." % d["setter_order"], ""]
    return {"Gen/C07_CifSpec.v": "\n".join(out)}


if __name__ == "__main__":
    import sys
    if "--shapes" in sys.argv:
        path = os.path.join(SRC, FN)
        tree = ast.parse(open(path).read(), path)
        cls = [s for s in tree.body if isinstance(s, ast.ClassDef) and s.name == "P_cif"][0]
        fs = {s.name: s for s in cls.body if isinstance(s, ast.FunctionDef)}
        fs.update({s.name: s for s in tree.body if isinstance(s, ast.FunctionDef)})
        for n in TEMPLATES:
            if n in fs:
                print("#", n, digest(shape(fs[n])))
                if "-v" in sys.argv:
                    print(shape(fs[n]))
    else:
        print(generate()["Gen/C07_CifSpec.v"])
