"""Fail-closed translator: spacegroups.py lookup code -> Gen/LookupSpec.v

* `_buildSGLookupTable`: `T.clear()`, then loops `for sg in SpaceGroupList:` whose bodies are
  `T.setdefault(<key expr of sg>, sg)`, an alias list literal and the alias loop
  (`hmbare = hm.replace(" ", ""); T.setdefault(a, T[hmbare])`), the final assert.  Emitted as `builder : list phase`.
* `GetSpaceGroup`: straight-line code with early returns over a closed set of string operations,
  emitted as a Gallina function `get_space_group (T : table) (sgid : key) : option setting`.
* `_getSGHashLookupTable`, `_hashSymOpList`, `FindSpaceGroup`: recognised by shape (sorted str(op) tuple hashed,
  one entry per setting, membership test, order comparison); any other shape is refused.
"""
import ast
import os

from vlib.core import SRC, TranslatorRefusal

SETUP = True
FN = "spacegroups.py"


def _refuse(node, why):
    raise TranslatorRefusal("%s:%s: %s" % (FN, getattr(node, "lineno", "?"), why))


def _func(tree, name):
    fs = [st for st in tree.body if isinstance(st, ast.FunctionDef) and st.name == name]
    if len(fs) != 1:
        raise TranslatorRefusal("%s: function %s not found exactly once" % (FN, name))
    return fs[0]


def _body(f):
    return [s for s in f.body if not (isinstance(s, ast.Expr) and isinstance(s.value, ast.Constant) and isinstance(s.value.value, str))]


def cstr(s):
    if any(ord(c) < 32 or ord(c) > 126 or c == '"' for c in s):
        raise TranslatorRefusal("%s: string literal %r outside printable ASCII" % (FN, s))
    return '"%s"' % s


# ---- key expressions of the builder loops ---------------------------------
def key_kind(e, var):
    u = ast.unparse(e)
    table = {
        "%s.number" % var: "KKNumber",
        "str(%s.number)" % var: "KKStrNumber",
        "%s.short_name" % var: "KKShort",
        "%s.pdb_name" % var: "KKPdb",
        "%s.pdb_name.replace(' ', '')" % var: "KKPdbNoSpace",
        "%s.short_name.replace(' ', '')" % var: "KKShortNoSpace",
    }
    if u not in table:
        _refuse(e, "unrecognised key expression " + u)
    return table[u]


def translate_builder(tree, tname="_sg_lookup_table"):
    f = _func(tree, "_buildSGLookupTable")
    phases = []
    body = _body(f)
    shared = tname
    # two recognised shapes: fill the shared table in place after clear(), or fill a local dict and publish it at the end
    if body and ast.unparse(body[0]) == "%s.clear()" % tname:
        pass
    elif body and isinstance(body[0], ast.Assign) and isinstance(body[0].targets[0], ast.Name) and ast.unparse(body[0].value) == "{}":
        tname = body[0].targets[0].id
        pub = [k for k, st in enumerate(body) if ast.unparse(st) == "%s.update(%s)" % (shared, tname)]
        if len(pub) != 1 or any(not (isinstance(st, ast.Return) and st.value is None) for st in body[pub[0] + 1:]):
            _refuse(f, "local table %s is not published by one final %s.update(%s)" % (tname, shared, tname))
        body = body[:pub[0]] + body[pub[0] + 1:]
    else:
        _refuse(f, "builder starts neither with %s.clear() nor with a local `table = {}`" % tname)
    i = 1
    alias_list = None
    while i < len(body):
        st = body[i]
        if isinstance(st, ast.For) and ast.unparse(st.iter) == "SpaceGroupList" and isinstance(st.target, ast.Name) and not st.orelse:
            kinds = []
            for b in st.body:
                if not (isinstance(b, ast.Expr) and isinstance(b.value, ast.Call) and ast.unparse(b.value.func) == "%s.setdefault" % tname
                        and len(b.value.args) == 2 and not b.value.keywords and ast.unparse(b.value.args[1]) == st.target.id):
                    _refuse(b, "loop statement is not %s.setdefault(<key>, %s)" % (tname, st.target.id))
                kinds.append(key_kind(b.value.args[0], st.target.id))
            phases.append("PLoop [%s]" % "; ".join(kinds))
        elif isinstance(st, ast.Assign) and len(st.targets) == 1 and isinstance(st.targets[0], ast.Name) and isinstance(st.value, ast.List):
            if alias_list is not None:
                _refuse(st, "second list literal in builder")
            pairs = []
            for e in st.value.elts:
                if not (isinstance(e, ast.Tuple) and len(e.elts) == 2 and all(isinstance(x, ast.Constant) and isinstance(x.value, str) for x in e.elts)):
                    _refuse(e, "alias entry is not a pair of string literals")
                pairs.append((e.elts[0].value, e.elts[1].value))
            alias_list = (st.targets[0].id, pairs)
        elif isinstance(st, ast.For) and alias_list is not None and ast.unparse(st.iter) == alias_list[0]:
            if not (isinstance(st.target, ast.Tuple) and len(st.target.elts) == 2 and all(isinstance(x, ast.Name) for x in st.target.elts)):
                _refuse(st, "alias loop target")
            a, hm = (x.id for x in st.target.elts)
            # the local holding the blank-free symbol may have any name
            loc = st.body[0].targets[0].id if (st.body and isinstance(st.body[0], ast.Assign) and len(st.body[0].targets) == 1
                                               and isinstance(st.body[0].targets[0], ast.Name)) else "hmbare"
            want = ["%s = %s.replace(' ', '')" % (loc, hm), "%s.setdefault(%s, %s[%s])" % (tname, a, tname, loc)]
            if loc in (a, hm, tname) or [ast.unparse(b) for b in st.body] != want:
                _refuse(st, "alias loop body is not `hmbare = hm.replace(' ', ''); T.setdefault(a, T[hmbare])`")
            phases.append("PAliases [%s]" % "; ".join("(%s, %s)" % (cstr(x), cstr(y)) for x, y in alias_list[1]))
        elif isinstance(st, ast.Assert) and ast.unparse(st.test) == "None not in %s" % tname:
            pass
        elif isinstance(st, ast.Return) and st.value is None:
            pass
        else:
            _refuse(st, "unrecognised builder statement: " + ast.unparse(st)[:70])
        i += 1
    return phases


# ---- GetSpaceGroup ---------------------------------------------------------
def sexpr(e, env):
    """String expression -> Gallina term."""
    if isinstance(e, ast.Name):
        if e.id not in env:
            _refuse(e, "unknown name " + e.id)
        return env[e.id]
    if isinstance(e, ast.BinOp) and isinstance(e.op, ast.Add):
        return "(%s ++ %s)" % (sexpr(e.left, env), sexpr(e.right, env))
    if isinstance(e, ast.Call) and isinstance(e.func, ast.Attribute):
        recv = sexpr(e.func.value, env)
        m = e.func.attr
        args = e.args
        if m == "strip" and not args and not e.keywords:
            return "(py_strip %s)" % recv
        if m == "upper" and not args:
            return "(py_upper %s)" % recv
        if m == "lower" and not args:
            return "(py_lower %s)" % recv
        if m == "replace" and len(args) == 2 and all(isinstance(a, ast.Constant) and isinstance(a.value, str) for a in args):
            if (args[0].value, args[1].value) == (" ", ""):
                return "(py_remove_spaces %s)" % recv
        _refuse(e, "unrecognised string method " + ast.unparse(e)[:60])
    if isinstance(e, ast.Subscript) and isinstance(e.slice, ast.Slice) and e.slice.step is None:
        lo, hi = e.slice.lower, e.slice.upper
        recv = sexpr(e.value, env)
        if lo is None and isinstance(hi, ast.Constant) and hi.value == 1:
            return "(py_first1 %s)" % recv
        if hi is None and isinstance(lo, ast.Constant) and lo.value == 1:
            return "(py_from1 %s)" % recv
        _refuse(e, "unrecognised slice")
    _refuse(e, "unrecognised string expression " + ast.unparse(e)[:60])


def translate_get(tree, tname="_sg_lookup_table"):
    f = _func(tree, "GetSpaceGroup")
    if [a.arg for a in f.args.args] != ["sgid"]:
        _refuse(f, "GetSpaceGroup signature")
    body = _body(f)

    def go(i, env, isstr):
        if i >= len(body):
            _refuse(f, "GetSpaceGroup falls off the end")
        st = body[i]
        u = ast.unparse(st)
        if u == "if not %s:\n    _buildSGLookupTable()" % tname:
            return go(i + 1, env, isstr)
        if isinstance(st, ast.If) and not st.orelse and len(st.body) == 1:
            t = ast.unparse(st.test)
            b = st.body[0]
            # membership test with return
            if isinstance(st.test, ast.Compare) and len(st.test.ops) == 1 and isinstance(st.test.ops[0], ast.In) \
                    and ast.unparse(st.test.comparators[0]) == tname and isinstance(b, ast.Return) \
                    and ast.unparse(b.value) == "%s[%s]" % (tname, ast.unparse(st.test.left)):
                k = st.test.left
                if isinstance(k, ast.Name) and k.id == "sgid" and not isstr:
                    key = "sgid"
                else:
                    key = "(KStr %s)" % sexpr(k, env)
                return "match lookup T %s with Some s => Some s | None =>\n  %s end" % (key, go(i + 1, env, isstr))
            if t == "not isinstance(sgid, str)" and isinstance(b, ast.Raise):
                env2 = dict(env)
                env2["sgid"] = "sgid_s"
                return "match sgid with KNum _ => None | KStr sgid_s =>\n  %s end" % go(i + 1, env2, True)
            _refuse(st, "unrecognised if: " + t)
        if isinstance(st, ast.Assign) and len(st.targets) == 1 and isinstance(st.targets[0], ast.Name):
            name = st.targets[0].id
            if name == "emsg":
                return go(i + 1, env, isstr)
            if not isstr:
                _refuse(st, "string operation before the isinstance(sgid, str) guard")
            fresh = "%s_%d" % (name, i)
            term = sexpr(st.value, env)
            env2 = dict(env)
            env2[name] = fresh
            return "let %s := %s in\n  %s" % (fresh, term, go(i + 1, env2, isstr))
        if isinstance(st, ast.Raise):
            if not (isinstance(st.exc, ast.Call) and ast.unparse(st.exc.func) == "ValueError"):
                _refuse(st, "raises something other than ValueError")
            return "None"
        _refuse(st, "unrecognised statement: " + u[:70])

    return go(0, {}, False)


def check_find(tree):
    """The operation-list lookup must have exactly the recognised shape."""
    want = {
        "_hashSymOpList": ["ssop = sorted((str(o) for o in symops))", "rv = hash(tuple(ssop))", "return rv"],
        "_getSGHashLookupTable": [["if _sg_hash_lookup_table:\n    return _sg_hash_lookup_table",
                                   "for sg in SpaceGroupList:\n    h = _hashSymOpList(sg.symop_list)\n    _sg_hash_lookup_table[h] = sg",
                                   "assert len(_sg_hash_lookup_table) == len(SpaceGroupList)",
                                   "return _getSGHashLookupTable()"],
                                  ["if _sg_hash_lookup_table:\n    return _sg_hash_lookup_table",
                                   "table = {}",
                                   "for sg in SpaceGroupList:\n    h = _hashSymOpList(sg.symop_list)\n    table[h] = sg",
                                   "assert len(table) == len(SpaceGroupList)",
                                   "_sg_hash_lookup_table.update(table)",
                                   "return _sg_hash_lookup_table"]],
        "FindSpaceGroup": ["tb = _getSGHashLookupTable()", "hh = _hashSymOpList(symops)",
                           "if hh not in tb:\n    raise ValueError('Cannot find SpaceGroup for the specified symops.')",
                           "rv = tb[hh]",
                           "if not shuffle:\n    zz = zip_longest(rv.iter_symops(), symops, fillvalue='')\n"
                           "    sameorder = all((str(o0) == str(o1) for o0, o1 in zz))\n"
                           "    if not sameorder:\n        rv = copy.copy(rv)\n        rv.symop_list = symops",
                           "return rv"],
    }
    alt = {"_hashSymOpList": [["ssop = sorted((str(o) for o in symops))", "rv = hash(tuple(ssop))", "return rv"]]}
    for name, stmts in want.items():
        got = [ast.unparse(s) for s in _body(_func(tree, name))]
        if stmts and isinstance(stmts[0], list):
            if got in stmts:
                continue
            stmts = stmts[-1]
        if got != stmts:
            for a, b in zip(got + ["<missing>"] * 9, stmts):
                if a != b:
                    raise TranslatorRefusal("%s: %s differs from the recognised shape at `%s` (expected `%s`)" % (FN, name, a[:80], b[:80]))
            raise TranslatorRefusal("%s: %s has extra statements" % (FN, name))
    # SymOp.__str__ : "%6.3f" rendering of the 12 numbers
    fn2 = os.path.join(SRC, "spacegroupmod.py")
    t2 = ast.parse(open(fn2).read(), fn2)
    cls = [c for c in t2.body if isinstance(c, ast.ClassDef) and c.name == "SymOp"]
    if len(cls) != 1:
        raise TranslatorRefusal("spacegroupmod.py: class SymOp not found")
    strf = [m for m in cls[0].body if isinstance(m, ast.FunctionDef) and m.name == "__str__"]
    if len(strf) != 1:
        raise TranslatorRefusal("spacegroupmod.py: SymOp.__str__ not found")
    got = [ast.unparse(s) for s in _body(strf[0])]
    rows = []
    for r in range(3):
        op = "x =" if r == 0 else "x +="
        rows.append("%s '[%%6.3f %%6.3f %%6.3f %%6.3f]\\n' %% (self.R[%d, 0], self.R[%d, 1], self.R[%d, 2], self.t[%d])" % (op, r, r, r, r))
    rows.append("return x")
    if got != rows:
        raise TranslatorRefusal("spacegroupmod.py: SymOp.__str__ differs from the recognised `%6.3f` rendering: " + " | ".join(got)[:200])


def generate():
    path = os.path.join(SRC, FN)
    tree = ast.parse(open(path).read(), path)
    phases = translate_builder(tree)
    getf = translate_get(tree)
    check_find(tree)
    out = ["(* GENERATED by translate/lookupspec.py from spacegroups.py *)",
           "From Coq Require Import ZArith List String.", "From DS Require Import Base.SGDefs Model.C11_LookupDefs.",
           "Import ListNotations.", "Open Scope string_scope.", "",
           "Definition builder : list phase := [\n  " + ";\n  ".join(phases) + "\n].", "",
           "Definition get_space_group (T : table) (sgid : key) : option setting :=\n  " + getf + ".", ""]
    return {"Gen/LookupSpec.v": "\n".join(out)}


if __name__ == "__main__":
    print(generate()["Gen/LookupSpec.v"])
