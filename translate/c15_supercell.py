"""Fail-closed translator: expansion/supercell_mod.supercell -> Gen/C15_Spec.v

Extracted (and consumed by Model/C15_Supercell.v):
  * the argument checks that raise ValueError: `len(mno) != N`, `min(mno) < B`, their order, and the `int()` conversion
  * the shortcut `if mno == (1, 1, 1): return newS` with newS = Structure(S)
  * the loop nest of the index list comprehension (which multiplier bounds which loop, order of the tuple), as a Gallina term
  * the nesting "for a in S: for ijk in ijklist" (images grouped by parent)
  * the coordinate formula `(a.xyz + ijk) / mnofloats` (element-wise), as a Gallina term over the generic operations
  * the call shape `newS.lattice.setLatPar(a=mno[0] * S.lattice.a, ...)`: which cell parameters are passed and with which factor
Local names may be chosen freely and independent statements may be reordered; anything else is refused.
"""
import ast
import os

from vlib.core import SRC, TranslatorRefusal

SETUP = True
FN = "expansion/supercell_mod.py"


def refuse(node, why):
    raise TranslatorRefusal("%s:%s: %s" % (FN, getattr(node, "lineno", "?"), why))


def is_doc(st):
    return isinstance(st, ast.Expr) and isinstance(st.value, ast.Constant) and isinstance(st.value.value, str)


def raises(body, exc):
    """body = [optional assignments of a message..., raise exc(...)]"""
    if not body:
        return False
    last = body[-1]
    if not (isinstance(last, ast.Raise) and last.exc is not None):
        return False
    e = last.exc
    name = e.func.id if isinstance(e, ast.Call) and isinstance(e.func, ast.Name) else (e.id if isinstance(e, ast.Name) else None)
    for st in body[:-1]:
        if not (isinstance(st, ast.Assign) and isinstance(st.value, (ast.Constant, ast.JoinedStr))):
            return False
    return name == exc


class Tr:
    def __init__(self):
        path = os.path.join(SRC, "expansion", "supercell_mod.py")
        self.tree = ast.parse(open(path).read(), path)
        self.spec = {}

    def run(self):
        imports = {}
        for st in self.tree.body:
            if isinstance(st, ast.ImportFrom):
                for x in st.names:
                    imports[x.asname or x.name] = (st.module, x.name)
            if isinstance(st, ast.Import):
                for x in st.names:
                    imports[x.asname or x.name] = (x.name, None)
        if imports.get("numpy") != ("numpy", None):
            raise TranslatorRefusal(FN + ": `import numpy` not found")
        for n in ("Atom", "Structure"):
            if imports.get(n) != ("diffpy.structure", n):
                raise TranslatorRefusal(FN + ": `from diffpy.structure import %s` not found" % n)
        f = [st for st in self.tree.body if isinstance(st, ast.FunctionDef) and st.name == "supercell"]
        if len(f) != 1:
            raise TranslatorRefusal(FN + ": function supercell not found exactly once")
        f = f[0]
        if [a.arg for a in f.args.args] != ["S", "mno"] or f.args.defaults or f.args.vararg or f.args.kwarg:
            refuse(f, "signature is not supercell(S, mno)")
        body = [st for st in f.body if not is_doc(st)]
        sp = self.spec
        phase = 0
        names = {}        # role -> local name
        mno_int = False   # after the int conversion `mno` denotes the integer triple

        def need_phase(st, p):
            nonlocal phase
            if p < phase:
                refuse(st, "statement out of the understood order: " + ast.unparse(st)[:70])
            phase = p

        for st in body:
            src = ast.unparse(st)
            # ---- phase 0: ValueError checks (if / elif chain)
            if isinstance(st, ast.If) and "checks" not in sp and self.is_check(st.test):
                need_phase(st, 0)
                checks = []
                cur = st
                while True:
                    kind = self.is_check(cur.test)
                    if not kind or not raises(cur.body, "ValueError"):
                        refuse(cur, "argument check does not raise ValueError: " + ast.unparse(cur.test))
                    checks.append(kind)
                    if len(cur.orelse) == 1 and isinstance(cur.orelse[0], ast.If):
                        cur = cur.orelse[0]
                    elif not cur.orelse:
                        break
                    else:
                        refuse(cur, "unexpected else branch of the argument checks")
                sp["checks"] = checks
                continue
            if isinstance(st, ast.If) and "checks" in sp and self.is_check(st.test):
                need_phase(st, 0)
                kind = self.is_check(st.test)
                if st.orelse or not raises(st.body, "ValueError"):
                    refuse(st, "argument check does not raise ValueError")
                sp["checks"].append(kind)
                continue
            # ---- phase 1: isinstance check -> TypeError
            if isinstance(st, ast.If) and ast.unparse(st.test) == "not isinstance(S, Structure)":
                need_phase(st, 1)
                if st.orelse or not raises(st.body, "TypeError"):
                    refuse(st, "type check does not raise TypeError")
                sp["typecheck"] = True
                continue
            # ---- phase 2: int conversion, copy of S
            if isinstance(st, ast.Assign) and src.replace(" ", "") == "mno=(int(mno[0]),int(mno[1]),int(mno[2]))":
                need_phase(st, 2)
                if "checks" not in sp:
                    refuse(st, "int conversion before the argument checks")
                mno_int = True
                continue
            if isinstance(st, ast.Assign) and len(st.targets) == 1 and isinstance(st.targets[0], ast.Name) \
                    and ast.unparse(st.value) == "Structure(S)":
                need_phase(st, 2)
                names["newS"] = st.targets[0].id
                continue
            # ---- phase 3: shortcut
            if isinstance(st, ast.If) and isinstance(st.test, ast.Compare) and ast.unparse(st.test.left) == "mno" \
                    and len(st.test.ops) == 1 and isinstance(st.test.ops[0], ast.Eq) and isinstance(st.test.comparators[0], ast.Tuple):
                need_phase(st, 3)
                if not mno_int or "newS" not in names:
                    refuse(st, "shortcut before int conversion / copy")
                tup = st.test.comparators[0].elts
                if len(tup) != 3 or not all(isinstance(e, ast.Constant) and type(e.value) is int for e in tup):
                    refuse(st, "shortcut triple is not three integer literals")
                if st.orelse or len(st.body) != 1 or ast.unparse(st.body[0]) != "return " + names["newS"]:
                    refuse(st, "shortcut does not `return %s`" % names["newS"])
                sp["shortcut"] = tuple(e.value for e in tup)
                continue
            # ---- phase 4: preparations
            if isinstance(st, ast.Assign) and len(st.targets) == 1 and isinstance(st.targets[0], ast.Name) and isinstance(st.value, ast.ListComp):
                need_phase(st, 4)
                if not mno_int:
                    refuse(st, "index list before the int conversion")
                names["ijklist"] = st.targets[0].id
                sp["nest"], sp["tuple"] = self.comprehension(st.value)
                continue
            if isinstance(st, ast.Assign) and len(st.targets) == 1 and isinstance(st.targets[0], ast.Name) \
                    and ast.unparse(st.value).replace(" ", "") in ("numpy.array(mno,dtype=float)", "numpy.array(mno,float)"):
                need_phase(st, 4)
                if not mno_int:
                    refuse(st, "float copy of mno before the int conversion")
                names["mnofloats"] = st.targets[0].id
                continue
            if isinstance(st, ast.Assign) and len(st.targets) == 1 and isinstance(st.targets[0], ast.Name) and ast.unparse(st.value) == "[]":
                need_phase(st, 4)
                names["newAtoms"] = st.targets[0].id
                continue
            # ---- phase 5: the loop
            if isinstance(st, ast.For):
                need_phase(st, 5)
                for r in ("ijklist", "mnofloats", "newAtoms", "newS"):
                    if r not in names:
                        refuse(st, "loop before %s is defined" % r)
                self.loop(st, names)
                continue
            # ---- phase 6: install atoms, scale the cell
            if isinstance(st, ast.Expr) and isinstance(st.value, ast.Call):
                c = st.value
                fsrc = ast.unparse(c.func)
                if "newS" in names and fsrc == names["newS"] + ".__setitem__":
                    need_phase(st, 6)
                    if "coord" not in sp:
                        refuse(st, "atoms installed before they are built")
                    ok = (len(c.args) == 2 and ast.unparse(c.args[0]) == "slice(None)" and ast.unparse(c.args[1]) == names["newAtoms"]
                          and [(k.arg, ast.unparse(k.value)) for k in c.keywords] == [("copy", "False")])
                    if not ok:
                        refuse(st, "unrecognised installation of the new atoms: " + src)
                    sp["install"] = True
                    continue
                if "newS" in names and fsrc == names["newS"] + ".lattice.setLatPar":
                    need_phase(st, 6)
                    if not mno_int:
                        refuse(st, "setLatPar before the int conversion")
                    sp["latpar"] = self.latpar(c)
                    continue
            if isinstance(st, ast.Assign) and len(st.targets) == 1 and isinstance(st.targets[0], ast.Subscript) and "newS" in names \
                    and ast.unparse(st.targets[0]) == names["newS"] + "[:]":
                refuse(st, "slice assignment copies the new atoms again (copy semantics changed)")
            # ---- phase 7: return
            if isinstance(st, ast.Return):
                need_phase(st, 7)
                if "newS" not in names or ast.unparse(st.value) != names["newS"]:
                    refuse(st, "does not return the new structure")
                sp["returns"] = True
                continue
            refuse(st, "unrecognised statement: " + src[:80])
        for k in ("checks", "shortcut", "nest", "coord", "install", "latpar", "returns"):
            if k not in sp:
                raise TranslatorRefusal("%s: supercell lacks the %s part" % (FN, k))
        if [c[0] for c in sp["checks"]] != ["len", "min"]:
            raise TranslatorRefusal("%s: argument checks are %s, expected length then minimum" % (FN, sp["checks"]))
        return sp

    @staticmethod
    def is_check(t):
        if isinstance(t, ast.Compare) and len(t.ops) == 1 and isinstance(t.comparators[0], ast.Constant) and type(t.comparators[0].value) is int:
            l = ast.unparse(t.left)
            if l == "len(mno)" and isinstance(t.ops[0], ast.NotEq):
                return ("len", t.comparators[0].value)
            if l == "min(mno)" and isinstance(t.ops[0], ast.Lt):
                return ("min", t.comparators[0].value)
        return None

    def comprehension(self, lc):
        gens = lc.generators
        nest = []
        var = {}
        for g in gens:
            if g.ifs or g.is_async or not isinstance(g.target, ast.Name):
                refuse(lc, "unrecognised comprehension clause")
            it = g.iter
            ok = (isinstance(it, ast.Call) and ast.unparse(it.func) == "range" and len(it.args) == 1 and not it.keywords
                  and isinstance(it.args[0], ast.Subscript) and ast.unparse(it.args[0].value) == "mno"
                  and isinstance(it.args[0].slice, ast.Constant) and it.args[0].slice.value in (0, 1, 2))
            if not ok:
                refuse(lc, "comprehension range is not range(mno[k]): " + ast.unparse(it))
            var[g.target.id] = it.args[0].slice.value
            nest.append((g.target.id, it.args[0].slice.value))
        if len(nest) != 3 or sorted(k for _, k in nest) != [0, 1, 2]:
            refuse(lc, "comprehension does not loop once over each of mno[0], mno[1], mno[2]")
        if not (isinstance(lc.elt, ast.Tuple) and len(lc.elt.elts) == 3 and all(isinstance(e, ast.Name) and e.id in var for e in lc.elt.elts)):
            refuse(lc, "comprehension element is not a triple of the loop variables")
        tup = [e.id for e in lc.elt.elts]
        if [var[v] for v in tup] != [0, 1, 2]:
            refuse(lc, "triple component k does not run over range(mno[k]): the shift would be applied to the wrong axis")
        return nest, tup

    def loop(self, st, names):
        sp = self.spec
        if st.orelse or not isinstance(st.target, ast.Name) or len(st.body) != 1 or not isinstance(st.body[0], ast.For):
            refuse(st, "the image loop is not two nested for loops")
        inner = st.body[0]
        if inner.orelse or not isinstance(inner.target, ast.Name):
            refuse(inner, "unrecognised inner loop")
        its = (ast.unparse(st.iter), ast.unparse(inner.iter))
        # both nestings are translated; which one the source uses decides whether images are grouped by parent
        if its == ("S", names["ijklist"]):
            a, ijk = st.target.id, inner.target.id
            sp["atoms_outer"] = True
        elif its == (names["ijklist"], "S"):
            ijk, a = st.target.id, inner.target.id
            sp["atoms_outer"] = False
        else:
            refuse(st, "the nested loops are not over the atoms of S and the index list (got %s, %s)" % its)
        dup = None
        seen = []
        for s2 in inner.body:
            src = ast.unparse(s2)
            if isinstance(s2, ast.Assign) and isinstance(s2.targets[0], ast.Name) and ast.unparse(s2.value) == "Atom(%s)" % a:
                dup = s2.targets[0].id
                seen.append("copy")
            elif isinstance(s2, ast.Assign) and dup and ast.unparse(s2.targets[0]) == dup + ".xyz":
                sp["coord"] = self.coord(s2.value, a, ijk, names["mnofloats"])
                seen.append("xyz")
            elif dup and src == "%s.append(%s)" % (names["newAtoms"], dup):
                seen.append("append")
            else:
                refuse(s2, "unrecognised statement in the image loop: " + src[:80])
        if seen != ["copy", "xyz", "append"]:
            refuse(inner, "image loop is not copy / set xyz / append (got %s)" % seen)

    def coord(self, e, a, ijk, mf):
        """element-wise arithmetic over a.xyz, ijk, mnofloats -> Gallina over x, t, m"""
        if isinstance(e, ast.BinOp) and isinstance(e.op, (ast.Add, ast.Sub, ast.Mult, ast.Div)):
            f = {"Add": "tadd", "Sub": "tsub", "Mult": "tmul", "Div": "tdiv"}[type(e.op).__name__]
            return "(%s O %s %s)" % (f, self.coord(e.left, a, ijk, mf), self.coord(e.right, a, ijk, mf))
        src = ast.unparse(e)
        if src == a + ".xyz":
            return "x"
        if src == ijk:
            return "t"
        if src == mf:
            return "m"
        if isinstance(e, ast.Constant) and type(e.value) is int:
            return "(tofZ O %d)" % e.value if e.value >= 0 else "(tofZ O (%d))" % e.value
        refuse(e, "unrecognised term in the coordinate formula: " + src)

    def latpar(self, c):
        if c.args:
            refuse(c, "positional arguments in setLatPar")
        out = {}
        for k in c.keywords:
            if k.arg not in ("a", "b", "c"):
                refuse(c, "setLatPar changes %s (angles/orientation must stay)" % k.arg)
            v = k.value
            if not (isinstance(v, ast.BinOp) and isinstance(v.op, ast.Mult)):
                refuse(c, "cell length %s is not a product" % k.arg)
            parts = [ast.unparse(v.left), ast.unparse(v.right)]
            cellp = "S.lattice." + k.arg
            if cellp not in parts:
                refuse(c, "new %s is not a multiple of the old %s" % (k.arg, k.arg))
            parts.remove(cellp)
            want = "mno[%d]" % "abc".index(k.arg)
            if parts != [want]:
                refuse(c, "new %s is multiplied by %s, expected %s" % (k.arg, parts[0], want))
            out[k.arg] = "abc".index(k.arg)
        if sorted(out) != ["a", "b", "c"]:
            refuse(c, "setLatPar does not set all of a, b, c")
        return out


def spec():
    return Tr().run()


def generate():
    sp = spec()
    (v0, k0), (v1, k1), (v2, k2) = sp["nest"]
    tup = sp["tuple"]
    # variables are named after the multiplier they range over: n0, n1, n2
    ren = {v0: "n%d" % k0, v1: "n%d" % k1, v2: "n%d" % k2}
    elt = "(%s, %s, %s)" % tuple(ren[v] for v in tup)
    nestdef = ("flat_map (fun %s => flat_map (fun %s => map (fun %s => %s) (seq 0 m%d)) (seq 0 m%d)) (seq 0 m%d)"
               % (ren[v0], ren[v1], ren[v2], elt, k2, k1, k0))
    ln = dict(sp["checks"])
    out = ["(* GENERATED by translate/c15_supercell.py from expansion/supercell_mod.py - do not edit *)",
           "From Coq Require Import ZArith List.", "From DS Require Import Base.C09_GNum.", "Import ListNotations.", "",
           "(* `if len(mno) != %d: raise ValueError` then `elif min(mno) < %d: raise ValueError`, then int() of each entry *)" % (ln["len"], ln["min"]),
           "Definition c15_len : nat := %d." % ln["len"],
           "Definition c15_min : Z := %d." % ln["min"],
           "(* `if mno == %s: return Structure(S)` *)" % (sp["shortcut"],),
           "Definition c15_shortcut : Z * Z * Z := (%d%%Z, %d%%Z, %d%%Z)." % sp["shortcut"],
           "(* [(i, j, k) for .. in range(mno[..]) ..]: loop nest outermost first, triple component k over range(mno[k]) *)",
           "Definition c15_ijklist (m0 m1 m2 : nat) : list (nat * nat * nat) :=\n  %s." % nestdef,
           "(* nesting of the image loop as written: %s *)" % ("for a in S: for ijk in ijklist  (images grouped by parent atom)" if sp["atoms_outer"]
                                                                  else "for ijk in ijklist: for a in S  (images grouped by shift, NOT by parent)"),
           "Definition c15_atoms_outer : bool := %s." % ("true" if sp["atoms_outer"] else "false"),
           "(* adup.xyz = ... element-wise: x = a.xyz[k], t = ijk[k], m = float(mno[k]) *)",
           "Definition c15_coord {T : Type} (O : ops T) (x t m : T) : T := %s." % sp["coord"],
           "(* newS.lattice.setLatPar(a=mno[0]*S.lattice.a, b=mno[1]*S.lattice.b, c=mno[2]*S.lattice.c): only a, b, c are passed *)",
           "Definition c15_newabc {T : Type} (O : ops T) (m0 m1 m2 a b c : T) : T * T * T :=",
           "  (tmul O m%d a, tmul O m%d b, tmul O m%d c)." % (sp["latpar"]["a"], sp["latpar"]["b"], sp["latpar"]["c"]), ""]
    return {"Gen/C15_Spec.v": "\n".join(out)}


if __name__ == "__main__":
    print(generate()["Gen/C15_Spec.v"])
