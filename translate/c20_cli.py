"""Fail-closed translator: apps/transtru.py:main (+ the format registry) -> Gen/C20_CliSpec.v

Only the statement forms that occur in `main` (pinned shape and the repaired shape) are understood;
anything else raises TranslatorRefusal("transtru.py:<line>: why").  Recognised:

  import getopt | from diffpy.structure.parsers import inputFormats, outputFormats      (no effect)
  opts, args = getopt.getopt(sys.argv[1:], "<letters>", [<long names>])                 SGetopt
  for o, a in opts: <if/elif chain>                                                     SForOpts
  if <cond>: ... [elif/else]                                                            SIf
      <cond> ::= len(args) < N | <e> in <set> | <e> not in <set> | <e> == <e>
      <set>  ::= (str, ...) | [str, ...] | inputFormats() | outputFormats()
  x, y = <e>.split("<sep>"[, N])                                                        SSplit2
  x = <e> | x = Structure()                                                             SAssign / SNewStru
  x.read(<e>, <e>) | x.readStr(<e>, <e>) | sys.stdout.write(x.writeStr(<e>))            SRead / SReadStr / SWriteOut
  print(<e>) | print(<e>, file=sys.stderr|sys.stdout)                                   SPrint
  usage() | usage("brief") | version() | sys.exit() | sys.exit(N) | return              SUsage / SVersion / SExit / SReturn
  try: ... except <E> [as n]: ...   (no else/finally, no bare except)                   STry
      <E> ::= IndexError | IOError | OSError | EnvironmentError | StructureFormatError | ValueError |
              UnicodeDecodeError | NotImplementedError | getopt.GetoptError | getopt.error | Exception | (<E>, ...)
  <e> ::= "literal" | name | args[N] | sys.stdin.read() | name.attr | "..%s.." % <e> | "..%s.." % (<e>, ...)

The registry: parsers/parser_index_mod.py must hold a literal dict `parser_index`; inputFormats()/outputFormats()
in parsers/__init__.py must be the sorted has_input / has_output selections of it.
"""
import ast
import os

from vlib.core import SRC, TranslatorRefusal

SETUP = True

FILE = "transtru.py"
PATS = {"IndexError": "PIndexError", "IOError": "PIOError", "OSError": "PIOError", "EnvironmentError": "PIOError",
        "StructureFormatError": "PStructureFormatError", "ValueError": "PValueError",
        "UnicodeDecodeError": "PUnicodeDecodeError", "NotImplementedError": "PNotImplementedError",
        "Exception": "PException"}
RESERVED = {"opts", "args", "sys", "getopt", "Structure", "StructureFormatError", "usage", "version", "print", "len",
            "inputFormats", "outputFormats"}


def _refuse(node, why, file=FILE):
    raise TranslatorRefusal("%s:%s: %s" % (file, getattr(node, "lineno", "?"), why))


def cstr(s):
    """Coq string literal (printable ASCII only)."""
    if not all(32 <= ord(c) < 127 for c in s):
        raise TranslatorRefusal("%s: non-printable or non-ASCII character in string literal %r" % (FILE, s))
    return '"%s"' % s.replace('"', '""')


def clist(items):
    return "[" + "; ".join(items) + "]"


def is_name(n, name):
    return isinstance(n, ast.Name) and n.id == name


def is_attr(n, base, attr):
    return isinstance(n, ast.Attribute) and is_name(n.value, base) and n.attr == attr


class Tr:
    def __init__(self):
        self.sites = []          # human-readable table of exits / prints for the evidence
        self.binds = {}          # handler-bound name -> (first line, last line) of its handler body
        self.stru_vars = set()
        self.parsers_imported = set()
        self.getopt_imported = False
        self.path = []           # guards leading to the current statement

    # ---------------------------------------------------------- expressions
    def simple(self, n, piece=False):
        """(kind, coq) for the argument forms allowed inside a format tuple."""
        if isinstance(n, ast.Name):
            if n.id in RESERVED:
                _refuse(n, "name %s used as a value" % n.id)
            return ("FVar %s" if piece else "EVar %s") % cstr(n.id)
        if isinstance(n, ast.Attribute) and isinstance(n.value, ast.Name) and n.value.id not in RESERVED:
            return ("FAttr %s %s" if piece else "EAttr %s %s") % (cstr(n.value.id), cstr(n.attr))
        if isinstance(n, ast.Subscript) and is_name(n.value, "args") and isinstance(n.slice, ast.Constant) \
                and isinstance(n.slice.value, int) and not isinstance(n.slice.value, bool) and n.slice.value >= 0:
            return ("FArg %d" if piece else "EArg %d") % n.slice.value
        return None

    def expr(self, n):
        if isinstance(n, ast.Constant) and isinstance(n.value, str):
            return "EStr %s" % cstr(n.value)
        s = self.simple(n)
        if s:
            return s
        if isinstance(n, ast.Call) and isinstance(n.func, ast.Attribute) and n.func.attr == "read" \
                and is_attr(n.func.value, "sys", "stdin") and not n.args and not n.keywords:
            return "EStdin"
        if isinstance(n, ast.BinOp) and isinstance(n.op, ast.Mod) and isinstance(n.left, ast.Constant) \
                and isinstance(n.left.value, str):
            fmt = n.left.value
            args = list(n.right.elts) if isinstance(n.right, ast.Tuple) else [n.right]
            parts = fmt.split("%s")
            if any("%" in p for p in parts):
                _refuse(n, "format string uses a directive other than %s")
            if len(parts) - 1 != len(args):
                _refuse(n, "format string has %d %%s for %d arguments" % (len(parts) - 1, len(args)))
            pieces = []
            for i, p in enumerate(parts):
                if p:
                    pieces.append("FLit %s" % cstr(p))
                if i < len(args):
                    a = self.simple(args[i], piece=True)
                    if not a:
                        _refuse(args[i], "format argument is not a name, name.attr or args[N]")
                    pieces.append(a)
            return "EFmt %s" % clist(pieces)
        _refuse(n, "unrecognised expression " + ast.unparse(n)[:60])

    def strset(self, n):
        if isinstance(n, (ast.Tuple, ast.List)) and all(isinstance(e, ast.Constant) and isinstance(e.value, str) for e in n.elts):
            return "SetLit %s" % clist(cstr(e.value) for e in n.elts)
        if isinstance(n, ast.Call) and isinstance(n.func, ast.Name) and not n.args and not n.keywords \
                and n.func.id in ("inputFormats", "outputFormats"):
            if n.func.id not in self.parsers_imported:
                _refuse(n, "%s() is not the function imported from diffpy.structure.parsers" % n.func.id)
            return "SetInputFormats" if n.func.id == "inputFormats" else "SetOutputFormats"
        _refuse(n, "unrecognised collection in membership test")

    def cond(self, n):
        if not (isinstance(n, ast.Compare) and len(n.ops) == 1):
            _refuse(n, "unrecognised condition " + ast.unparse(n)[:60])
        op, l, r = n.ops[0], n.left, n.comparators[0]
        if isinstance(op, ast.Lt) and isinstance(l, ast.Call) and is_name(l.func, "len") and len(l.args) == 1 \
                and is_name(l.args[0], "args") and isinstance(r, ast.Constant) and isinstance(r.value, int) \
                and not isinstance(r.value, bool) and r.value >= 0:
            return "CLenArgsLt %d" % r.value
        if isinstance(op, ast.In):
            return "CIn (%s) (%s)" % (self.expr(l), self.strset(r))
        if isinstance(op, ast.NotIn):
            return "CNotIn (%s) (%s)" % (self.expr(l), self.strset(r))
        if isinstance(op, ast.Eq):
            return "CEq (%s) (%s)" % (self.expr(l), self.expr(r))
        _refuse(n, "unrecognised comparison " + ast.unparse(n)[:60])

    # ---------------------------------------------------------- statements
    def block(self, stmts):
        out = [s for s in (self.stmt(st) for st in stmts) if s != "SSkip"]
        if not out:
            return "SSkip"
        acc = out[-1]
        for s in reversed(out[:-1]):
            acc = "SSeq (%s)\n (%s)" % (s, acc)
        return acc

    def site(self, node, what):
        self.sites.append("line %d [%s]: %s" % (node.lineno, " / ".join(self.path) or "always", what))

    def pat(self, t):
        if isinstance(t, ast.Tuple):
            out = []
            for e in t.elts:
                out += self.pat(e)
            return out
        if isinstance(t, ast.Name) and t.id in PATS:
            return [PATS[t.id]]
        if isinstance(t, ast.Attribute) and is_name(t.value, "getopt") and t.attr in ("GetoptError", "error"):
            if not self.getopt_imported:
                _refuse(t, "getopt is not imported in main")
            return ["PGetoptError"]
        _refuse(t, "exception class not understood: " + ast.unparse(t)[:40])

    def stmt(self, st):
        if isinstance(st, ast.Import):
            if len(st.names) == 1 and st.names[0].name == "getopt" and st.names[0].asname is None:
                self.getopt_imported = True
                return "SSkip"
            _refuse(st, "unexpected import")
        if isinstance(st, ast.ImportFrom):
            if st.module == "diffpy.structure.parsers" and st.level == 0 and \
                    all(a.asname is None and a.name in ("inputFormats", "outputFormats") for a in st.names):
                self.parsers_imported |= {a.name for a in st.names}
                return "SSkip"
            _refuse(st, "unexpected import")
        if isinstance(st, ast.Return):
            if st.value is not None:
                _refuse(st, "main returns a value")
            return "SReturn"
        if isinstance(st, ast.Try):
            if st.orelse or st.finalbody:
                _refuse(st, "try with else/finally")
            body = self.block(st.body)
            hs = []
            for h in st.handlers:
                if h.type is None:
                    _refuse(h, "bare except")
                pats = self.pat(h.type)
                if h.name:
                    if h.name in RESERVED:
                        _refuse(h, "handler binds a reserved name")
                    self.binds.setdefault(h.name, []).append((h.body[0].lineno, max(getattr(x, "end_lineno", x.lineno) for x in h.body)))
                self.path.append("except %s" % ast.unparse(h.type))
                hb = self.block(h.body)
                self.path.pop()
                hs.append((pats, h.name, hb))
            acc = "HNil"
            for pats, name, hb in reversed(hs):
                acc = "HCons %s %s\n (%s)\n (%s)" % (clist(pats), "(Some %s)" % cstr(name) if name else "None", hb, acc)
            return "STry (%s)\n (%s)" % (body, acc)
        if isinstance(st, ast.For):
            if st.orelse:
                _refuse(st, "for with else")
            if not (isinstance(st.target, ast.Tuple) and len(st.target.elts) == 2 and all(isinstance(e, ast.Name) for e in st.target.elts)
                    and is_name(st.iter, "opts")):
                _refuse(st, "loop is not `for o, a in opts`")
            o, a = (e.id for e in st.target.elts)
            if o in RESERVED or a in RESERVED or o == a:
                _refuse(st, "loop variables clash with reserved names")
            for sub in ast.walk(ast.Module(body=st.body, type_ignores=[])):
                if isinstance(sub, ast.Name) and sub.id == a:
                    _refuse(sub, "the option value %s is used (options take no value in the model)" % a)
            self.path.append("for each option %s" % o)
            body = self.block(st.body)
            self.path.pop()
            return "SForOpts %s (%s)" % (cstr(o), body)
        if isinstance(st, ast.If):
            c = self.cond(st.test)
            self.path.append(ast.unparse(st.test))
            t = self.block(st.body)
            self.path.pop()
            self.path.append("not (%s)" % ast.unparse(st.test))
            e = self.block(st.orelse)
            self.path.pop()
            return "SIf (%s)\n (%s)\n (%s)" % (c, t, e)
        if isinstance(st, ast.Assign):
            if len(st.targets) != 1:
                _refuse(st, "chained assignment")
            tg, v = st.targets[0], st.value
            if isinstance(tg, ast.Tuple):
                names = [e.id if isinstance(e, ast.Name) else None for e in tg.elts]
                if names == ["opts", "args"]:
                    ok = (isinstance(v, ast.Call) and is_attr(v.func, "getopt", "getopt") and len(v.args) == 3 and not v.keywords
                          and ast.unparse(v.args[0]) == "sys.argv[1:]"
                          and isinstance(v.args[1], ast.Constant) and isinstance(v.args[1].value, str)
                          and isinstance(v.args[2], (ast.List, ast.Tuple))
                          and all(isinstance(e, ast.Constant) and isinstance(e.value, str) for e in v.args[2].elts))
                    if not ok or not self.getopt_imported:
                        _refuse(st, "opts, args is not getopt.getopt(sys.argv[1:], \"..\", [..])")
                    short, longs = v.args[1].value, [e.value for e in v.args[2].elts]
                    if ":" in short or any("=" in x or not x for x in longs) or len(set(longs)) != len(longs):
                        _refuse(st, "options with arguments / empty / repeated long options are not modelled")
                    return "SGetopt %s %s" % (cstr(short), clist(cstr(x) for x in longs))
                if len(names) == 2 and all(names) and not (set(names) & RESERVED) and names[0] != names[1] \
                        and isinstance(v, ast.Call) and isinstance(v.func, ast.Attribute) and v.func.attr == "split" \
                        and not v.keywords and len(v.args) in (1, 2) and isinstance(v.args[0], ast.Constant) \
                        and isinstance(v.args[0].value, str) and v.args[0].value != "":
                    ms = "None"
                    if len(v.args) == 2:
                        m = v.args[1]
                        if not (isinstance(m, ast.Constant) and isinstance(m.value, int) and not isinstance(m.value, bool) and m.value >= 0):
                            _refuse(st, "maxsplit is not a non-negative literal")
                        ms = "(Some %d)" % m.value
                    return "SSplit2 %s %s (%s) %s %s" % (cstr(names[0]), cstr(names[1]), self.expr(v.func.value), cstr(v.args[0].value), ms)
                _refuse(st, "unrecognised tuple assignment")
            if not isinstance(tg, ast.Name) or tg.id in RESERVED:
                _refuse(st, "assignment target not a plain local name")
            if isinstance(v, ast.Call) and is_name(v.func, "Structure") and not v.args and not v.keywords:
                self.stru_vars.add(tg.id)
                return "SNewStru %s" % cstr(tg.id)
            if tg.id in self.stru_vars:
                _refuse(st, "structure variable re-assigned")
            return "SAssign %s (%s)" % (cstr(tg.id), self.expr(v))
        if isinstance(st, ast.Expr) and isinstance(st.value, ast.Constant) and isinstance(st.value.value, str):
            return "SSkip"
        if isinstance(st, ast.Expr) and isinstance(st.value, ast.Call):
            c = st.value
            f = c.func
            if is_name(f, "usage") and not c.keywords:
                if not c.args:
                    self.site(st, "usage() on stdout")
                    return "SUsage false"
                if len(c.args) == 1 and isinstance(c.args[0], ast.Constant) and c.args[0].value == "brief":
                    self.site(st, "brief usage on stdout")
                    return "SUsage true"
                _refuse(st, "usage() called with an unexpected argument")
            if is_name(f, "version") and not c.args and not c.keywords:
                self.site(st, "version on stdout")
                return "SVersion"
            if is_attr(f, "sys", "exit") and not c.keywords:
                if not c.args:
                    self.site(st, "exit 0")
                    return "SExit 0%Z"
                if len(c.args) == 1 and isinstance(c.args[0], ast.Constant) and isinstance(c.args[0].value, int) \
                        and not isinstance(c.args[0].value, bool) and 0 <= c.args[0].value <= 255:
                    self.site(st, "exit %d" % c.args[0].value)
                    return "SExit %d%%Z" % c.args[0].value
                _refuse(st, "sys.exit argument is not a literal status 0..255")
            if is_name(f, "print"):
                to = "Stdout"
                for k in c.keywords:
                    if k.arg == "file" and is_attr(k.value, "sys", "stderr"):
                        to = "Stderr"
                    elif k.arg == "file" and is_attr(k.value, "sys", "stdout"):
                        to = "Stdout"
                    else:
                        _refuse(st, "print keyword not understood")
                if len(c.args) != 1:
                    _refuse(st, "print with %d positional arguments" % len(c.args))
                self.site(st, "print %s to %s" % (ast.unparse(c.args[0])[:70], to.lower()))
                return "SPrint %s (%s)" % (to, self.expr(c.args[0]))
            if isinstance(f, ast.Attribute) and isinstance(f.value, ast.Name) and f.value.id in self.stru_vars \
                    and f.attr in ("read", "readStr") and len(c.args) == 2 and not c.keywords:
                self.site(st, "library %s(%s)" % (f.attr, ", ".join(ast.unparse(a) for a in c.args)))
                return "%s %s (%s) (%s)" % ("SRead" if f.attr == "read" else "SReadStr", cstr(f.value.id),
                                            self.expr(c.args[0]), self.expr(c.args[1]))
            if isinstance(f, ast.Attribute) and f.attr == "write" and is_attr(f.value, "sys", "stdout") \
                    and len(c.args) == 1 and not c.keywords:
                w = c.args[0]
                if isinstance(w, ast.Call) and isinstance(w.func, ast.Attribute) and w.func.attr == "writeStr" \
                        and isinstance(w.func.value, ast.Name) and w.func.value.id in self.stru_vars \
                        and len(w.args) == 1 and not w.keywords:
                    self.site(st, "library writeStr(%s) to stdout" % ast.unparse(w.args[0]))
                    return "SWriteOut %s (%s)" % (cstr(w.func.value.id), self.expr(w.args[0]))
            _refuse(st, "unrecognised call " + ast.unparse(c)[:60])
        _refuse(st, "unrecognised statement " + type(st).__name__)


def _check_module(tree):
    need = {"sys": False, "Structure": False, "StructureFormatError": False}
    funcs = {}
    main_guard = False
    for st in tree.body:
        if isinstance(st, ast.Import):
            for a in st.names:
                if a.name == "sys" and a.asname is None:
                    need["sys"] = True
        elif isinstance(st, ast.ImportFrom):
            for a in st.names:
                if st.module == "diffpy.structure" and a.name == "Structure" and a.asname is None:
                    need["Structure"] = True
                if st.module == "diffpy.structure.structureerrors" and a.name == "StructureFormatError" and a.asname is None:
                    need["StructureFormatError"] = True
        elif isinstance(st, ast.FunctionDef):
            if st.name in funcs:
                _refuse(st, "function %s defined twice" % st.name)
            funcs[st.name] = st
        elif isinstance(st, ast.If) and ast.unparse(st.test) == "__name__ == '__main__'" \
                and len(st.body) == 1 and ast.unparse(st.body[0]) == "main()":
            main_guard = True
        elif isinstance(st, ast.Expr) and isinstance(st.value, ast.Constant):
            pass
        else:
            _refuse(st, "unexpected module-level statement")
    for k, v in need.items():
        if not v:
            raise TranslatorRefusal("%s: module does not import %s as expected" % (FILE, k))
    if not main_guard:
        raise TranslatorRefusal("%s: no `if __name__ == '__main__': main()`" % FILE)
    for name in ("usage", "version", "main"):
        if name not in funcs:
            raise TranslatorRefusal("%s: function %s not found" % (FILE, name))
    # usage()/version() are oracles of the model: they must only print to stdout and never exit
    for name in ("usage", "version"):
        for sub in ast.walk(funcs[name]):
            if isinstance(sub, ast.Call) and is_name(sub.func, "print") and sub.keywords:
                _refuse(sub, "%s() prints with keywords (stream not stdout?)" % name)
            if isinstance(sub, ast.Call) and (is_attr(sub.func, "sys", "exit") or is_name(sub.func, "exit")):
                _refuse(sub, "%s() exits" % name)
            if isinstance(sub, ast.Attribute) and sub.attr in ("stderr", "stdout") and is_name(sub.value, "sys"):
                _refuse(sub, "%s() touches sys.%s directly" % (name, sub.attr))
            if isinstance(sub, ast.Raise):
                _refuse(sub, "%s() raises" % name)
    m = funcs["main"]
    if m.args.args or m.args.vararg or m.args.kwarg or m.args.kwonlyargs or m.decorator_list:
        _refuse(m, "main takes arguments / is decorated")
    return m


def registry():
    """(input formats, output formats) from the literal parser_index, after checking how the
    two selection functions are written."""
    fn = os.path.join(SRC, "parsers", "parser_index_mod.py")
    tree = ast.parse(open(fn).read(), fn)
    index = None
    for st in tree.body:
        if isinstance(st, ast.Assign) and len(st.targets) == 1 and is_name(st.targets[0], "parser_index"):
            try:
                index = ast.literal_eval(st.value)
            except ValueError:
                _refuse(st, "parser_index is not a literal dict", "parser_index_mod.py")
        elif isinstance(st, ast.Expr) and isinstance(st.value, ast.Constant):
            pass
        else:
            _refuse(st, "unexpected module-level statement", "parser_index_mod.py")
    if not isinstance(index, dict):
        raise TranslatorRefusal("parser_index_mod.py: parser_index not found")
    for k, v in index.items():
        if not (isinstance(k, str) and isinstance(v, dict) and isinstance(v.get("has_input"), bool) and isinstance(v.get("has_output"), bool)):
            raise TranslatorRefusal("parser_index_mod.py: entry %r lacks boolean has_input/has_output" % (k,))
    fn = os.path.join(SRC, "parsers", "__init__.py")
    tree = ast.parse(open(fn).read(), fn)
    seen = set()
    imported = False
    for st in tree.body:
        if isinstance(st, ast.ImportFrom) and st.module == "diffpy.structure.parsers.parser_index_mod" \
                and [(a.name, a.asname) for a in st.names] == [("parser_index", None)]:
            imported = True
        if isinstance(st, ast.FunctionDef) and st.name in ("inputFormats", "outputFormats"):
            key = "has_input" if st.name == "inputFormats" else "has_output"
            body = [ast.unparse(s) for s in st.body if not (isinstance(s, ast.Expr) and isinstance(s.value, ast.Constant))]
            if st.args.args or len(body) != 3:
                _refuse(st, "%s is not the three-statement selection" % st.name, "parsers/__init__.py")
            var = body[0].split(" = ")[0]
            want = ["%s = [fmt for fmt, prop in parser_index.items() if prop['%s']]" % (var, key), "%s.sort()" % var, "return %s" % var]
            if body != want:
                _refuse(st, "%s is not `sorted formats with %s`" % (st.name, key), "parsers/__init__.py")
            seen.add(st.name)
        elif isinstance(st, ast.Assign) and any(is_name(t, "parser_index") for t in st.targets):
            _refuse(st, "parser_index rebound", "parsers/__init__.py")
    if seen != {"inputFormats", "outputFormats"} or not imported:
        raise TranslatorRefusal("parsers/__init__.py: inputFormats/outputFormats/parser_index import not found")
    fin = sorted(k for k, v in index.items() if v["has_input"])
    fout = sorted(k for k, v in index.items() if v["has_output"])
    return fin, fout


def translate():
    fn = os.path.join(SRC, "apps", "transtru.py")
    tree = ast.parse(open(fn).read(), fn)
    m = _check_module(tree)
    tr = Tr()
    prog = tr.block(m.body)
    # names bound by `except .. as n` are deleted when the handler ends: they must not be read elsewhere
    for sub in ast.walk(m):
        if isinstance(sub, (ast.Name,)) and sub.id in tr.binds and isinstance(sub.ctx, ast.Load):
            if not any(a <= sub.lineno <= b for a, b in tr.binds[sub.id]):
                _refuse(sub, "exception name %s read outside its handler" % sub.id)
    fin, fout = registry()
    return prog, fin, fout, tr.sites


def generate():
    prog, fin, fout, sites = translate()
    out = ["(* GENERATED by translate/c20_cli.py from apps/transtru.py:main and parsers/parser_index_mod.py *)",
           "From Coq Require Import List ZArith Ascii String.", "From DS Require Import Model.C20_Cli.",
           "Import ListNotations.", "Open Scope string_scope.", "",
           "Definition input_formats : list string := %s." % clist(cstr(x) for x in fin),
           "Definition output_formats : list string := %s." % clist(cstr(x) for x in fout), "",
           "Definition cli_prog : stmt :=", " " + prog + ".", "",
           "Definition cli_spec : spec := mkspec cli_prog input_formats output_formats."]
    return {"Gen/C20_CliSpec.v": "\n".join(out) + "\n"}


def summary():
    return translate()[3]


if __name__ == "__main__":
    print(generate()["Gen/C20_CliSpec.v"])
    print("\n".join(summary()))
