"""Fail-closed translator: the displacement-parameter code of atom.py (+ Lattice.norm/cartesian) -> Gen/C09_AtomFormulas.v

Every ADP-related accessor of class Atom is translated into a Gallina function in state-passing style over
Model/C09_Prims.v (`astate` = _U, _anisotropy, lattice) and Base/C09_GNum.v (generic 3x3 algebra = the numpy calls):

    anisotropy (getter, setter)   U (getter: REWRITES storage when the flag is off; setter)
    _get_Uij  _set_Uij            Uisoequiv (getter, setter)     Bisoequiv (getter, setter)
    U11..U23, B11..B23            (class-level `property(lambda.., lambda..)` table -> index maps and B/U factors)
    msdLat  msdCart               module constants _BtoU, _UtoB;  Lattice.norm, Lattice.cartesian, Lattice._epsilon
    __init__  (-> init_Atom: the argument blocks IN SOURCE ORDER; statements touching only xyz/element/label/occupancy are
               skipped; `raise ValueError` -> None)       __copy__ (-> copy_Atom; must copy _U and xyz)

Recognised Python subset (anything else -> TranslatorRefusal with file:line):
  statements: docstring, `return [e]`, `if/elif/else`, `name = e`, `name op= e` (local), `self._U = e`, `self._U[:] = e`,
              `self._U[i, j] = e`, `self._U *= e`, `self._anisotropy = bool(e)`, `numpy.multiply(k, M, out=self._U)`,
              `self._set_Uij(i, j, e)`
  expressions: int/float literals, + - * / (scalar, vector, matrix by inferred type), `**2`, unary -, `abs`, `bool`,
              comparisons < > ==, !=, `is`, chained index comparison, and/or/not, `self.lattice or cartesian_lattice`,
              `self.lattice is None` (refines the type of self.lattice in the branches), subscripts with constant or
              index-typed names, numpy.dot/transpose/trace/sqrt/sum/array, `.sum(axis=-1)`, attribute reads of the
              Lattice attributes listed in LAT_FIELDS, calls of other translated accessors.
A call of an accessor that writes storage (Atom.U) is hoisted in front of its statement; this is only accepted when it is
the only expression of that statement that touches `self` (so Python's evaluation order cannot matter).
"""
import ast
import os
import re
from fractions import Fraction

from vlib.core import SRC, TranslatorRefusal

SETUP = True

# Lattice attribute -> (type, latdata field)
LAT_FIELDS = {
    "a": ("S", "l_a"), "b": ("S", "l_b"), "c": ("S", "l_c"),
    "ar": ("S", "l_ar"), "br": ("S", "l_br"), "cr": ("S", "l_cr"),
    "ca": ("S", "l_ca"), "cb": ("S", "l_cb"), "cg": ("S", "l_cg"),
    "metrics": ("M", "l_metrics"), "base": ("M", "l_base"), "normbase": ("M", "l_normbase"),
    "isotropicunit": ("M", "l_isotropicunit"), "_epsilon": ("S", "l_epsilon"),
}
LAT_PROPS = ["a", "b", "c", "ar", "br", "cr", "ca", "cb", "cg"]          # must be `property(lambda self: self._x)`
LAT_PLAIN = ["metrics", "base", "normbase", "isotropicunit"]             # must be assigned in setLatPar and setLatBase
COQTYPE = {"S": "T", "V": "gvec T", "M": "gmat T", "B": "bool", "I": "idx", "L": "latdata T",
           "OA": "option (astate T)", "OB": "option bool", "OM": "option (gmat T)", "OS": "option T", "OLP": "option (latdata T)"}
# constructor arguments: the ADP-relevant ones are parameters of the generated init_Atom (None = argument not given;
# atype = Some src when it is an Atom); the others only touch xyz/element/label/occupancy
INIT_ARGS = ["self", "atype", "xyz", "label", "occupancy", "anisotropy", "U", "Uisoequiv", "lattice"]
INIT_PARAMS = [("atype", "OA"), ("anisotropy", "OB"), ("U", "OM"), ("Uisoequiv", "OS"), ("lattice", "OLP")]
OPT_INNER = {"OB": "B", "OM": "M", "OS": "S", "OLP": "L", "OA": "A"}
NON_ADP_ATTRS = ("xyz", "element", "label", "occupancy")
ADP_WORDS = ("_U", "_anisotropy", "lattice", "anisotropy", "U", "Uisoequiv", "Bisoequiv", "__copy__", "__dict__", "_set_Uij", "_get_Uij")
IDX = {0: "i0", 1: "i1", 2: "i2"}
ADP_NAMES = ["U11", "U22", "U33", "U12", "U13", "U23", "B11", "B22", "B33", "B12", "B13", "B23"]
# parameter types of the translated accessors (names are checked against the source)
SIGS = {
    ("Atom", "anisotropy", "set"): [("value", "B")], ("Atom", "U", "set"): [("value", "M")],
    ("Atom", "Uisoequiv", "set"): [("value", "S")], ("Atom", "Bisoequiv", "set"): [("value", "S")],
    ("Atom", "_get_Uij", "meth"): [("i", "I"), ("j", "I")], ("Atom", "_set_Uij", "meth"): [("i", "I"), ("j", "I"), ("value", "S")],
    ("Atom", "msdLat", "meth"): [("vl", "V")], ("Atom", "msdCart", "meth"): [("vc", "V")],
    ("Lattice", "norm", "meth"): [("xyz", "V")], ("Lattice", "cartesian", "meth"): [("u", "V")],
}
STORAGE = ("_U", "_anisotropy")


LETS = "  let O := cO C in let tpi := cpi C in let tsqrt := csqrt C in let cartesian_lattice := ccart C in"


class Ref(TranslatorRefusal):
    pass


def refuse(fn, node, why):
    raise TranslatorRefusal("%s:%s: %s" % (fn, getattr(node, "lineno", "?"), why))


def is_self_attr(n, name=None):
    return isinstance(n, ast.Attribute) and isinstance(n.value, ast.Name) and n.value.id == "self" and (name is None or n.attr == name)


def is_doc(st):
    return isinstance(st, ast.Expr) and isinstance(st.value, ast.Constant) and isinstance(st.value.value, str)


class Unit:
    """One translated function."""

    def __init__(self, cls, name, kind, params, body, fn, lam_expr=None):
        self.cls, self.name, self.kind, self.params, self.body, self.fn, self.lam_expr = cls, name, kind, params, body, fn, lam_expr
        self.writes = False
        self.rettype = None
        self.text = None

    @property
    def coqname(self):
        if self.cls == "Lattice":
            return "Lattice_" + self.name
        if self.kind == "get":
            return "get_" + self.name
        if self.kind == "set":
            return "set_" + self.name
        return self.name.lstrip("_") if self.name.startswith("_") else self.name


class Translator:
    def __init__(self):
        self.afile = os.path.join(SRC, "atom.py")
        self.lfile = os.path.join(SRC, "lattice.py")
        self.atree = ast.parse(open(self.afile).read(), self.afile)
        self.ltree = ast.parse(open(self.lfile).read(), self.lfile)
        self.units = {}          # (cls, name, kind) -> Unit
        self.order = []
        self.consts = {}         # module constant -> text
        self.const_order = []
        self.used_lat_fields = set()
        self.table = {}          # U11.. -> dict(i, j, factor_get, factor_set)
        self.alias = {}          # generated definition -> binding events of _U / xyz (keyed statements, in source order)
        self.alias_seen = {}

    # ------------------------------------------------------------------ collection
    def collect(self):
        a = "atom.py"
        imp_ok = False
        for st in self.atree.body:
            if isinstance(st, ast.ImportFrom) and st.module == "diffpy.structure.lattice":
                if [(x.name, x.asname) for x in st.names] == [("cartesian", "cartesian_lattice")]:
                    imp_ok = True
        if not imp_ok:
            raise TranslatorRefusal("atom.py: `from diffpy.structure.lattice import cartesian as cartesian_lattice` not found")
        if not any(isinstance(st, ast.Import) and [(x.name, x.asname) for x in st.names] == [("numpy", None)] for st in self.atree.body):
            raise TranslatorRefusal("atom.py: `import numpy` not found")
        self.module_consts = {}
        for st in self.atree.body:
            if isinstance(st, ast.Assign) and len(st.targets) == 1 and isinstance(st.targets[0], ast.Name) and st.targets[0].id in ("_BtoU", "_UtoB"):
                self.module_consts[st.targets[0].id] = st.value
        cls = [st for st in self.atree.body if isinstance(st, ast.ClassDef) and st.name == "Atom"]
        if len(cls) != 1:
            raise TranslatorRefusal("atom.py: class Atom not found exactly once")
        cls = cls[0]
        translated_defs = set()
        for st in cls.body:
            if isinstance(st, ast.FunctionDef):
                kind = None
                decs = [ast.unparse(d) for d in st.decorator_list]
                if decs == ["property"]:
                    kind = "get"
                elif len(decs) == 1 and decs[0] == st.name + ".setter":
                    kind = "set"
                elif not decs:
                    kind = "meth"
                key = ("Atom", st.name, kind)
                if kind == "get" and st.name in ("anisotropy", "U", "Uisoequiv", "Bisoequiv"):
                    self.add_unit("Atom", st.name, "get", [], st, a)
                    translated_defs.add(id(st))
                elif key in SIGS:
                    self.add_unit("Atom", st.name, kind, SIGS[key], st, a)
                    translated_defs.add(id(st))
            elif isinstance(st, ast.Assign) and len(st.targets) == 1 and isinstance(st.targets[0], ast.Name) \
                    and st.targets[0].id in ADP_NAMES:
                self.add_table_entry(st)
        self.collect_init_copy(cls)
        # Atom.lattice must be a plain attribute (assignment has no side effect on the ADP storage)
        plain = [st for st in cls.body if isinstance(st, ast.Assign) and len(st.targets) == 1 and isinstance(st.targets[0], ast.Name)
                 and st.targets[0].id == "lattice"]
        if len(plain) != 1 or not (isinstance(plain[0].value, ast.Constant) and plain[0].value.value is None):
            raise TranslatorRefusal("atom.py: class attribute `lattice = None` not found (is Atom.lattice a property now?)")
        for st in cls.body:
            if isinstance(st, ast.FunctionDef) and st.name in ("lattice", "__setattr__", "__getattr__", "__getattribute__"):
                refuse(a, st, "Atom defines %s: attribute model of Atom.lattice no longer valid" % st.name)
        for n in ADP_NAMES:
            if n not in (self.table_src or {}):
                raise TranslatorRefusal("atom.py: descriptor %s not found as `property(lambda self: .., lambda self, value: ..)`" % n)
        for k in [("Atom", n, "get") for n in ("anisotropy", "U", "Uisoequiv", "Bisoequiv")] + [k for k in SIGS if k[0] == "Atom"]:
            if k not in self.units:
                raise TranslatorRefusal("atom.py: accessor %s (%s) not found" % (k[1], k[2]))
        # nothing else in the class may touch the storage (constructor and copy are whitelisted)
        for st in cls.body:
            if isinstance(st, ast.FunctionDef) and id(st) not in translated_defs and st.name not in ("__init__", "__copy__"):
                for n in ast.walk(st):
                    if isinstance(n, ast.Attribute) and n.attr in STORAGE:
                        refuse(a, n, "method %s touches %s but is not a translated accessor" % (st.name, n.attr))
            if isinstance(st, ast.Assign) and isinstance(st.value, ast.Call) and ast.unparse(st.value.func) == "property" \
                    and st.targets[0].id not in ADP_NAMES:
                for n in ast.walk(st):
                    if isinstance(n, ast.Attribute) and n.attr in STORAGE + ("_set_Uij", "_get_Uij"):
                        refuse(a, n, "descriptor %s touches the ADP storage but is not one of %s" % (st.targets[0].id, ADP_NAMES))
        self.collect_lattice()

    table_src = None

    def collect_init_copy(self, cls):
        a = "atom.py"
        f = [st for st in cls.body if isinstance(st, ast.FunctionDef) and st.name == "__init__"]
        if len(f) != 1:
            raise TranslatorRefusal("atom.py: Atom.__init__ not found exactly once")
        f = f[0]
        if [x.arg for x in f.args.args] != INIT_ARGS or [ast.unparse(d) for d in f.args.defaults] != ["None"] * 8 \
                or f.args.vararg or f.args.kwarg or f.args.kwonlyargs:
            refuse(a, f, "signature of Atom.__init__ is not (self, atype=None, xyz=None, label=None, occupancy=None, anisotropy=None, "
                         "U=None, Uisoequiv=None, lattice=None)")
        self.units[("Atom", "__init__", "init")] = Unit("Atom", "__init__", "init", INIT_PARAMS, f.body, a)
        dflt = [st for st in cls.body if isinstance(st, ast.Assign) and len(st.targets) == 1 and isinstance(st.targets[0], ast.Name)
                and st.targets[0].id == "_anisotropy"]
        if len(dflt) != 1 or ast.unparse(dflt[0].value) != "False":
            raise TranslatorRefusal("atom.py: class attribute `_anisotropy = False` not found")
        # __copy__: recognised as a whole
        g = [st for st in cls.body if isinstance(st, ast.FunctionDef) and st.name == "__copy__"]
        if len(g) != 1:
            raise TranslatorRefusal("atom.py: Atom.__copy__ not found exactly once")
        g = g[0]
        if [x.arg for x in g.args.args] != ["self", "target"] or [ast.unparse(d) for d in g.args.defaults] != ["None"]:
            refuse(a, g, "signature of __copy__ is not (self, target=None)")
        body = [ast.unparse(st) for st in g.body if not is_doc(st)]
        head = ["if target is None:\n    target = Atom()\nelif target is self:\n    return target", "target.__dict__.update(self.__dict__)"]
        if body[:2] != head or body[-1] != "return target":
            refuse(a, g, "__copy__ is not `if target is None: target = Atom() elif target is self: return target; "
                         "target.__dict__.update(self.__dict__); <array copies>; return target`")
        # after __dict__.update the target's xyz and _U ARE the source's arrays unless a later statement rebinds them
        ev = {"xyz": "BShareSrc WX", "_U": "BShareSrc WU"}
        for st in body[2:-1]:
            m = re.match(r"^target\.(xyz|_U) = (.*)$", st)
            if not m:
                refuse(a, g, "unrecognised statement in __copy__: " + st[:70])
            attr, rhs = m.group(1), m.group(2)
            w = "WX" if attr == "xyz" else "WU"
            if rhs in ("numpy.copy(self.%s)" % attr, "numpy.array(self.%s)" % attr, "self.%s.copy()" % attr):
                ev[attr] = "BFresh " + w
            elif rhs == "self.%s" % attr:
                ev[attr] = "BShareSrc " + w
            else:
                refuse(a, g, "__copy__ binds %s to something that is neither the source's array nor a copy of it: %s" % (attr, rhs))
        self.alias["copy_Atom"] = [ev["xyz"], ev["_U"]]
        # no other code of the class may rebind xyz or _U of any object
        for st in cls.body:
            if isinstance(st, ast.FunctionDef) and st.name not in ("__copy__",):
                for n in ast.walk(st):
                    if isinstance(n, (ast.Assign, ast.AugAssign)):
                        for t in (n.targets if isinstance(n, ast.Assign) else []):
                            if isinstance(t, ast.Attribute) and t.attr in ("xyz", "_U") and not is_self_attr(t):
                                refuse(a, n, "%s rebinds %s of another object" % (st.name, t.attr))
                            if is_self_attr(t, "xyz") and st.name != "__init__":
                                refuse(a, n, "%s rebinds self.xyz (only __init__ and __copy__ may)" % st.name)

    def add_unit(self, cls, name, kind, params, fdef, fn):
        args = [x.arg for x in fdef.args.args]
        if fdef.args.vararg or fdef.args.kwarg or fdef.args.kwonlyargs or fdef.args.defaults:
            refuse(fn, fdef, "unexpected signature of %s" % name)
        if args != ["self"] + [p for p, _ in params]:
            refuse(fn, fdef, "signature of %s is %s, expected %s" % (name, args, ["self"] + [p for p, _ in params]))
        self.units[(cls, name, kind)] = Unit(cls, name, kind, params, fdef.body, fn)

    def add_table_entry(self, st):
        a = "atom.py"
        if self.table_src is None:
            self.table_src = {}
        name = st.targets[0].id
        c = st.value
        if not (isinstance(c, ast.Call) and ast.unparse(c.func) == "property" and len(c.args) == 2
                and all(isinstance(x, ast.Lambda) for x in c.args) and [k.arg for k in c.keywords] in ([], ["doc"])):
            refuse(a, st, "descriptor %s is not `property(lambda, lambda, doc=..)`" % name)
        g, s = c.args
        if [x.arg for x in g.args.args] != ["self"] or [x.arg for x in s.args.args] != ["self", "value"]:
            refuse(a, st, "descriptor %s: unexpected lambda parameters" % name)
        self.table_src[name] = st
        self.units[("Atom", name, "get")] = Unit("Atom", name, "get", [], [ast.Return(value=g.body, lineno=st.lineno)], a)
        self.units[("Atom", name, "set")] = Unit("Atom", name, "set", [("value", "S")], [ast.Expr(value=s.body, lineno=st.lineno)], a)

    def collect_lattice(self):
        lf = "lattice.py"
        last = [st for st in self.ltree.body if isinstance(st, ast.Assign) and isinstance(st.targets[0], ast.Name) and st.targets[0].id == "cartesian"]
        if len(last) != 1 or ast.unparse(last[0].value) != "Lattice()":
            raise TranslatorRefusal("lattice.py: module constant `cartesian = Lattice()` not found")
        cls = [st for st in self.ltree.body if isinstance(st, ast.ClassDef) and st.name == "Lattice"]
        if len(cls) != 1:
            raise TranslatorRefusal("lattice.py: class Lattice not found exactly once")
        cls = cls[0]
        self.lat_epsilon = None
        props = {}
        for st in cls.body:
            if isinstance(st, ast.FunctionDef):
                if st.name in ("__bool__", "__len__", "__nonzero__", "__getattr__", "__getattribute__"):
                    refuse(lf, st, "Lattice defines %s: truthiness/attribute model of `self.lattice or cartesian_lattice` no longer valid" % st.name)
                key = ("Lattice", st.name, "meth")
                if key in SIGS and not st.decorator_list:
                    self.add_unit("Lattice", st.name, "meth", SIGS[key], st, lf)
            if isinstance(st, ast.Assign) and len(st.targets) == 1 and isinstance(st.targets[0], ast.Name):
                n = st.targets[0].id
                if n == "_epsilon":
                    if not (isinstance(st.value, ast.Constant) and isinstance(st.value.value, float)):
                        refuse(lf, st, "_epsilon is not a float literal")
                    self.lat_epsilon = Fraction(repr(st.value.value))
                if n in LAT_PROPS:
                    props[n] = st
        if self.lat_epsilon is None or self.lat_epsilon <= 0:
            raise TranslatorRefusal("lattice.py: Lattice._epsilon literal not found or not positive")
        for n in LAT_PROPS:
            st = props.get(n)
            okp = (st is not None and isinstance(st.value, ast.Call) and ast.unparse(st.value.func) == "property" and st.value.args
                   and isinstance(st.value.args[0], ast.Lambda) and ast.unparse(st.value.args[0].body) == "self._" + n
                   and [x.arg for x in st.value.args[0].args.args] == ["self"])
            if not okp:
                raise TranslatorRefusal("lattice.py: Lattice.%s is not `property(lambda self: self._%s)`" % (n, n))
        for k in (("Lattice", "norm", "meth"), ("Lattice", "cartesian", "meth")):
            if k not in self.units:
                raise TranslatorRefusal("lattice.py: Lattice.%s not found" % k[1])
        for fname in ("setLatPar", "setLatBase"):
            f = [st for st in cls.body if isinstance(st, ast.FunctionDef) and st.name == fname]
            if len(f) != 1:
                raise TranslatorRefusal("lattice.py: %s not found" % fname)
            assigned = set()
            for n in ast.walk(f[0]):
                if isinstance(n, ast.Assign):
                    for t in n.targets:
                        if is_self_attr(t):
                            assigned.add(t.attr)
            for p in LAT_PLAIN + ["_" + x for x in LAT_PROPS]:
                if p not in assigned:
                    refuse(lf, f[0], "%s does not assign self.%s" % (fname, p))

    # ------------------------------------------------------------------ effect analysis
    def analyse_effects(self):
        def direct(u):
            for st in u.body:
                for n in ast.walk(st):
                    tg = []
                    if isinstance(n, ast.Assign):
                        tg = n.targets
                    elif isinstance(n, ast.AugAssign):
                        tg = [n.target]
                    for t in tg:
                        base = t
                        while isinstance(base, ast.Subscript):
                            base = base.value
                        if is_self_attr(base):
                            return True
                    if isinstance(n, ast.Call):
                        for k in n.keywords:
                            if k.arg == "out":
                                return True
            return False

        for u in self.units.values():
            u.writes = direct(u)
        changed = True
        while changed:
            changed = False
            for u in self.units.values():
                if u.writes:
                    continue
                for st in u.body:
                    for n in ast.walk(st):
                        if is_self_attr(n):
                            for kind in ("get", "meth"):
                                v = self.units.get((u.cls, n.attr, kind))
                                if v is not None and v.writes and not (kind == "get" and isinstance(getattr(n, "ctx", None), ast.Store)):
                                    u.writes = True
                                    changed = True
                        if isinstance(n, (ast.Assign, ast.AugAssign)):
                            tg = n.targets if isinstance(n, ast.Assign) else [n.target]
                            for t in tg:
                                if is_self_attr(t) and (u.cls, t.attr, "set") in self.units:
                                    u.writes = True
                                    changed = True
        for u in self.units.values():
            if u.kind == "set" and not u.writes:
                refuse(u.fn, u.body[0], "setter %s writes nothing" % u.name)

    # ------------------------------------------------------------------ translation of one unit
    def translate_unit(self, key):
        u = self.units[key]
        if u.text is not None:
            return u
        if getattr(u, "busy", False):
            refuse(u.fn, u.body[0], "recursive accessor %s" % u.name)
        u.busy = True
        env = {p: (t, p) for p, t in u.params}
        ctx = {"unit": u, "lat": None if u.cls == "Atom" else "n/a", "rets": []}
        body = self.block(list(u.body), env, ctx)
        rts = set(ctx["rets"])
        if len(rts) != 1:
            refuse(u.fn, u.body[0], "%s returns values of different kinds %s" % (u.name, sorted(rts)))
        u.rettype = rts.pop()
        if u.kind == "set" and u.rettype != "N":
            refuse(u.fn, u.body[0], "setter %s returns a value" % u.name)
        selfv = "(s : astate T)" if u.cls == "Atom" else "(self : latdata T)"
        params = " ".join("(%s : %s)" % (p, COQTYPE[t]) for p, t in u.params)
        if u.kind == "init":
            # a new object: class defaults _anisotropy = False, lattice = None; _U is assigned by the body
            u.text = ("Definition init_Atom {T : Type} (C : cctx T) %s : option (astate T) :=\n%s\n  let s := AS (gzero O) false None in\n%s."
                      % (params, LETS, body))
            u.busy = False
            self.order.append(key)
            return u
        if u.cls == "Atom" and u.writes:
            ret = "astate T" if u.rettype == "N" else "astate T * %s" % COQTYPE[u.rettype]
        else:
            if u.rettype == "N":
                refuse(u.fn, u.body[0], "%s neither writes nor returns" % u.name)
            ret = COQTYPE[u.rettype]
        u.text = "Definition %s {T : Type} (C : cctx T) %s %s : %s :=\n%s\n%s." % (u.coqname, selfv, params, ret, LETS, body)
        u.busy = False
        self.order.append(key)
        return u

    def ret(self, ctx, typ, text):
        u = ctx["unit"]
        ctx["rets"].append(typ)
        if u.kind == "init":
            if typ != "N":
                refuse(u.fn, u.body[0], "__init__ returns a value")
            return "Some s"
        if u.cls == "Atom" and u.writes:
            return "s" if typ == "N" else "(s, %s)" % text
        return text

    def block(self, stmts, env, ctx, ind="  "):
        u = ctx["unit"]
        fn = u.fn
        while stmts and is_doc(stmts[0]):
            stmts = stmts[1:]
        if not stmts:
            return ind + self.ret(ctx, "N", None)
        st, rest = stmts[0], stmts[1:]
        if isinstance(st, ast.Return):
            if st.value is None or (isinstance(st.value, ast.Constant) and st.value.value is None):
                return ind + self.ret(ctx, "N", None)
            pre, (t, x) = self.stmt_expr(st.value, env, ctx)
            return ind + pre + self.ret(ctx, t, x)
        if u.kind == "init":
            r = self.init_stmt(st, rest, env, ctx, ind)
            if r is not None:
                return r
        if isinstance(st, ast.If):
            # refinement on `self.lattice is None`
            if u.cls == "Atom" and ast.unparse(st.test) in ("self.lattice is None", "self.lattice is not None"):
                neg = "not" in ast.unparse(st.test)
                bn, bs = (st.orelse, st.body) if neg else (st.body, st.orelse)
                c_none = dict(ctx, lat=("none",))
                c_some = dict(ctx, lat=("some", "lat0"))
                tn = self.block(list(bn) + rest, dict(env), c_none, ind + "  ")
                ts = self.block(list(bs) + rest, dict(env), c_some, ind + "  ")
                return "%smatch st_lat s with\n%s| None =>\n%s\n%s| Some lat0 =>\n%s\n%send" % (ind, ind, tn, ind, ts, ind)
            pre, (t, c) = self.stmt_expr(st.test, env, ctx)
            if t != "B":
                refuse(fn, st, "condition is not boolean: " + ast.unparse(st.test))
            tb = self.block(list(st.body) + rest, dict(env), ctx, ind + "  ")
            te = self.block(list(st.orelse) + rest, dict(env), ctx, ind + "  ")
            return "%s%sif %s then\n%s\n%selse\n%s" % (ind, pre, c, tb, ind, te)
        line = self.simple(st, env, ctx)
        return ind + line + "\n" + self.block(rest, env, ctx, ind)

    def bind_event(self, u, st, w, env):
        """Which array object an attribute is (re)bound to by `self.<attr> = e`: a new one, the atom's own, or the caller's."""
        v = st.value
        if isinstance(v, ast.Attribute) and is_self_attr(v) and v.attr in ("U", "_U"):
            ev = "BOwn " + w                      # the U getter returns self._U itself
        elif isinstance(v, ast.Name):
            ev = "BParam " + w                    # an array object handed in by the caller
        elif isinstance(v, ast.BinOp) or (isinstance(v, ast.Call) and ast.unparse(v.func) in ("numpy.zeros", "numpy.copy", "numpy.array", "numpy.dot")):
            ev = "BFresh " + w                    # numpy arithmetic / constructors allocate
        else:
            refuse(u.fn, st, "cannot tell which array object %s is bound to: %s" % (w, ast.unparse(st)[:70]))
        key = (u.coqname if u.kind != "init" else "init_Atom", st.lineno, st.col_offset)
        if key not in self.alias_seen:
            self.alias_seen[key] = ev
            self.alias.setdefault(key[0], []).append(ev)

    # ---- constructor-only statements ------------------------------------------------------------------
    @staticmethod
    def non_adp(st):
        """True for a statement that only touches xyz / element / label / occupancy."""
        for n in ast.walk(st):
            if isinstance(n, ast.Attribute) and n.attr in ADP_WORDS:
                return False
            if isinstance(n, ast.Name) and n.id in ("U", "Uisoequiv", "anisotropy", "lattice"):
                return False
            if isinstance(n, (ast.Raise, ast.Return)):
                return False
        if isinstance(st, ast.If):
            return all(Translator.non_adp(x) for x in st.body + st.orelse)
        if isinstance(st, ast.Assign):
            for t in st.targets:
                b = t
                while isinstance(b, ast.Subscript):
                    b = b.value
                if not (is_self_attr(b) and b.attr in NON_ADP_ATTRS):
                    return False
            return True
        return False

    @staticmethod
    def opt_test(t, env):
        """`X is not None` / `X is None` for an option-typed argument X -> (name, positive?)"""
        if isinstance(t, ast.Compare) and len(t.ops) == 1 and isinstance(t.left, ast.Name) and env.get(t.left.id, ("",))[0] in OPT_INNER \
                and isinstance(t.comparators[0], ast.Constant) and t.comparators[0].value is None and isinstance(t.ops[0], (ast.Is, ast.IsNot)):
            return t.left.id, isinstance(t.ops[0], ast.IsNot)
        return None

    def init_stmt(self, st, rest, env, ctx, ind):
        fn = ctx["unit"].fn
        src = ast.unparse(st)
        # the copy-constructor block
        if isinstance(st, ast.If) and ast.unparse(st.test) == "isinstance(atype, Atom)":
            ok = (len(st.body) == 1 and ast.unparse(st.body[0]) == "atype.__copy__(target=self)" and len(st.orelse) == 1
                  and isinstance(st.orelse[0], ast.If) and ast.unparse(st.orelse[0].test) == "atype is not None"
                  and not st.orelse[0].orelse and all(self.non_adp(x) for x in st.orelse[0].body))
            if not ok or env.get("atype", ("",))[0] != "OA":
                refuse(fn, st, "copy-constructor block is not `if isinstance(atype, Atom): atype.__copy__(target=self) elif atype is not None: self.element = atype`")
            return "%slet s := match atype with Some src => copy_Atom C src | None => s end in\n%s" % (ind, self.block(rest, env, ctx, ind))
        if self.non_adp(st):
            for n in ast.walk(st):
                if isinstance(n, ast.Assign):
                    for t in n.targets:
                        if is_self_attr(t, "xyz"):
                            self.bind_event(ctx["unit"], n, "WX", env)
            return self.block(rest, env, ctx, ind)
        if isinstance(st, ast.If):
            tests = st.test.values if isinstance(st.test, ast.BoolOp) and isinstance(st.test.op, ast.And) else [st.test]
            ots = [self.opt_test(t, env) for t in tests]
            if all(o is not None for o in ots):
                if len(ots) == 1:
                    name, pos = ots[0]
                    inner = OPT_INNER[env[name][0]]
                    e_some = dict(env)
                    e_some[name] = (inner, name + "0")
                    b_some, b_none = (st.body, st.orelse) if pos else (st.orelse, st.body)
                    ts = self.block(list(b_some) + rest, e_some, ctx, ind + "  ")
                    tn = self.block(list(b_none) + rest, dict(env), ctx, ind + "  ")
                    return "%smatch %s with\n%s| Some %s0 =>\n%s\n%s| None =>\n%s\n%send" % (ind, name, ind, name, ts, ind, tn, ind)
                # conjunction of `is not None` tests guarding a raise
                if all(pos for _, pos in ots) and not st.orelse and self.raises_valueerror(st.body):
                    tr = self.block(rest, dict(env), ctx, ind + "  ")
                    pat = ", ".join("Some _" for _ in ots)
                    wild = ", ".join("_" for _ in ots)
                    return "%smatch %s with\n%s| %s => None\n%s| %s =>\n%s\n%send" % (ind, ", ".join(n for n, _ in ots), ind, pat, ind, wild, tr, ind)
            refuse(fn, st, "unrecognised conditional in __init__: " + ast.unparse(st.test))
        if isinstance(st, ast.Assign) and len(st.targets) == 1 and is_self_attr(st.targets[0], "lattice"):
            v = st.value
            if isinstance(v, ast.Name) and env.get(v.id, ("",))[0] == "L":
                return "%slet s := set_stlat s (Some %s) in\n%s" % (ind, env[v.id][1], self.block(rest, env, ctx, ind))
            refuse(fn, st, "unrecognised lattice assignment: " + src)
        return None

    @staticmethod
    def raises_valueerror(body):
        if not body or not isinstance(body[-1], ast.Raise) or body[-1].exc is None:
            return False
        e = body[-1].exc
        name = e.func.id if isinstance(e, ast.Call) and isinstance(e.func, ast.Name) else (e.id if isinstance(e, ast.Name) else None)
        return name == "ValueError" and all(isinstance(x, ast.Assign) and isinstance(x.value, (ast.Constant, ast.JoinedStr)) for x in body[:-1])

    def stmt_expr(self, e, env, ctx):
        """Translate an expression that forms (part of) a statement; returns (prelude, (type, text))."""
        ctx["hoist"] = []
        ctx["stmt_node"] = e
        r = self.expr(e, env, ctx)
        pre = "".join(ctx["hoist"])
        if ctx["hoist"]:
            # the hoisted call must be the only expression touching self
            touching = [n for n in ast.walk(e) if isinstance(n, ast.Name) and n.id == "self"]
            if len(touching) != 1 or len(ctx["hoist"]) != 1:
                refuse(ctx["unit"].fn, e, "storage-writing accessor used together with other reads of self in one statement: " + ast.unparse(e))
        ctx["hoist"] = []
        return pre, r

    def simple(self, st, env, ctx):
        u = ctx["unit"]
        fn = u.fn
        if isinstance(st, ast.Assign):
            if len(st.targets) != 1:
                refuse(fn, st, "chained assignment")
            t = st.targets[0]
            if isinstance(t, ast.Name):
                pre, (ty, x) = self.stmt_expr(st.value, env, ctx)
                if t.id in ("s", "self", "T", "O"):
                    refuse(fn, st, "local name clashes with the translation: " + t.id)
                env[t.id] = (ty, t.id)
                return "%slet %s := %s in" % (pre, t.id, x)
            if u.cls != "Atom":
                refuse(fn, st, "assignment to an attribute in a Lattice method")
            if is_self_attr(t, "_U"):
                pre, (ty, x) = self.stmt_expr(st.value, env, ctx)
                if ty != "M":
                    refuse(fn, st, "self._U assigned a non-matrix")
                self.bind_event(u, st, "WU", env)
                return "%slet s := set_stU s %s in" % (pre, x)
            if isinstance(t, ast.Subscript) and is_self_attr(t.value, "_U"):
                pre, (ty, x) = self.stmt_expr(st.value, env, ctx)
                sl = t.slice
                if isinstance(sl, ast.Slice) and sl.lower is None and sl.upper is None and sl.step is None:
                    if ty != "M":
                        refuse(fn, st, "self._U[:] assigned a non-matrix")
                    return "%slet s := set_stU s %s in" % (pre, x)
                if isinstance(sl, ast.Tuple) and len(sl.elts) == 2:
                    if ty != "S":
                        refuse(fn, st, "storage element assigned a non-scalar")
                    i, j = (self.index(k, env, fn) for k in sl.elts)
                    return "%slet s := set_stU s (mset (st_U s) %s %s %s) in" % (pre, i, j, x)
                refuse(fn, st, "unrecognised subscript of self._U")
            if is_self_attr(t, "_anisotropy"):
                pre, (ty, x) = self.stmt_expr(st.value, env, ctx)
                if ty != "B":
                    refuse(fn, st, "_anisotropy assigned a non-boolean")
                return "%slet s := set_staniso s %s in" % (pre, x)
            if is_self_attr(t) and ("Atom", t.attr, "set") in self.units:
                pre, (ty, x) = self.stmt_expr(st.value, env, ctx)
                v = self.translate_unit(("Atom", t.attr, "set"))
                if ty != v.params[0][1]:
                    refuse(fn, st, "argument type of %s" % t.attr)
                return "%slet s := %s C s %s in" % (pre, v.coqname, x)
            refuse(fn, st, "unrecognised assignment target " + ast.unparse(t))
        if isinstance(st, ast.AugAssign):
            t = st.target
            pre, (ty, x) = self.stmt_expr(st.value, env, ctx)
            if isinstance(t, ast.Name):
                if t.id not in env:
                    refuse(fn, st, "augmented assignment to unknown local")
                lt = env[t.id][0]
                if lt == "V" and ty == "S" and isinstance(st.op, ast.Div):
                    return "%slet %s := gvdivs O %s %s in" % (pre, t.id, t.id, x)
                if lt == "V" and ty == "S" and isinstance(st.op, ast.Mult):
                    return "%slet %s := gvscale O %s %s in" % (pre, t.id, x, t.id)
                refuse(fn, st, "unrecognised augmented assignment")
            if is_self_attr(t, "_U") and isinstance(st.op, ast.Mult) and ty == "S":
                return "%slet s := set_stU s (gmscale_r O %s (st_U s)) in" % (pre, x)
            refuse(fn, st, "unrecognised augmented assignment")
        if isinstance(st, ast.Expr) and isinstance(st.value, ast.Call):
            c = st.value
            f = ast.unparse(c.func)
            if f == "numpy.multiply" and len(c.args) == 2 and [k.arg for k in c.keywords] == ["out"] and is_self_attr(c.keywords[0].value, "_U"):
                ctx["hoist"] = []
                (ta, xa), (tb, xb) = self.expr(c.args[0], env, ctx), self.expr(c.args[1], env, ctx)
                if ctx["hoist"]:
                    refuse(fn, st, "storage-writing accessor inside numpy.multiply")
                if (ta, tb) != ("S", "M"):
                    refuse(fn, st, "numpy.multiply(.., out=self._U) is not scalar x matrix")
                return "let s := set_stU s (gmscale O %s %s) in" % (xa, xb)
            if isinstance(c.func, ast.Attribute) and is_self_attr(c.func) and ("Atom", c.func.attr, "meth") in self.units:
                v = self.translate_unit(("Atom", c.func.attr, "meth"))
                if not v.writes or v.rettype != "N":
                    refuse(fn, st, "call statement of a method that does not write")
                ctx["hoist"] = []
                args = self.args(c, v, env, ctx)
                if ctx["hoist"]:
                    refuse(fn, st, "storage-writing accessor inside call arguments")
                return "let s := %s C s %s in" % (v.coqname, " ".join(args))
        refuse(fn, st, "unrecognised statement: " + ast.unparse(st)[:80])

    def args(self, c, v, env, ctx):
        if c.keywords or len(c.args) != len(v.params):
            refuse(ctx["unit"].fn, c, "call of %s with unexpected arguments" % v.name)
        out = []
        for a, (p, t) in zip(c.args, v.params):
            if t == "I":
                out.append(self.index(a, env, ctx["unit"].fn))
            else:
                ta, xa = self.expr(a, env, ctx)
                if ta != t:
                    refuse(ctx["unit"].fn, c, "argument %s of %s has kind %s, expected %s" % (p, v.name, ta, t))
                out.append(xa)
        return out

    def index(self, n, env, fn):
        if isinstance(n, ast.Constant) and type(n.value) is int and n.value in IDX:
            return IDX[n.value]
        if isinstance(n, ast.Name) and env.get(n.id, (None,))[0] == "I":
            return n.id
        refuse(fn, n, "unrecognised index " + ast.unparse(n))

    def num(self, v):
        fr = Fraction(repr(v)) if isinstance(v, float) else Fraction(v)
        if fr.denominator == 1:
            z = "(tofZ O %s)" % (fr.numerator if fr.numerator >= 0 else "(%d)" % fr.numerator)
            return z
        return "(tdiv O (tofZ O %s) (tofZ O %d))" % (fr.numerator if fr.numerator >= 0 else "(%d)" % fr.numerator, fr.denominator)

    def module_const(self, name, fn, node):
        if name in self.consts:
            return self.consts[name]
        if name not in self.module_consts:
            refuse(fn, node, "unknown module constant " + name)
        ctx = {"unit": Unit("Module", name, "const", [], [], "atom.py"), "lat": "n/a", "hoist": []}
        t, x = self.expr(self.module_consts[name], {}, ctx)
        if t != "S":
            refuse(fn, node, "module constant %s is not a scalar" % name)
        self.consts[name] = "(c%s C)" % name
        self.const_order.append((name, x))
        return self.consts[name]

    def expr(self, n, env, ctx):
        u = ctx["unit"]
        fn = u.fn
        E = lambda m: self.expr(m, env, ctx)  # noqa: E731
        if isinstance(n, ast.Constant):
            if isinstance(n.value, bool):
                return "B", "true" if n.value else "false"
            if isinstance(n.value, (int, float)):
                return "S", self.num(n.value)
            refuse(fn, n, "unrecognised constant")
        if isinstance(n, ast.Name):
            if n.id in env:
                return env[n.id]
            if n.id in ("_BtoU", "_UtoB"):
                return "S", self.module_const(n.id, fn, n)
            if n.id == "cartesian_lattice":
                return "L", "cartesian_lattice"
            refuse(fn, n, "unknown name " + n.id)
        if isinstance(n, ast.UnaryOp):
            t, x = E(n.operand)
            if isinstance(n.op, ast.Not) and t == "B":
                return "B", "(negb %s)" % x
            if isinstance(n.op, ast.USub) and t == "S":
                return "S", "(topp O %s)" % x
            refuse(fn, n, "unrecognised unary operation")
        if isinstance(n, ast.BoolOp):
            vals = [E(v) for v in n.values]
            if isinstance(n.op, ast.Or) and len(vals) == 2 and ast.unparse(n.values[0]) == "self.lattice" and vals[1][0] == "L":
                return "L", "(lat_or %s %s)" % (vals[0][1], vals[1][1])
            if all(t == "B" for t, _ in vals):
                op = "andb" if isinstance(n.op, ast.And) else "orb"
                out = vals[-1][1]
                for _, x in reversed(vals[:-1]):
                    out = "(%s %s %s)" % (op, x, out)
                return "B", out
            refuse(fn, n, "unrecognised and/or")
        if isinstance(n, ast.Compare):
            return self.compare(n, env, ctx)
        if isinstance(n, ast.BinOp):
            if isinstance(n.op, ast.Pow):
                if isinstance(n.right, ast.Constant) and n.right.value == 2 and type(n.right.value) is int:
                    t, x = E(n.left)
                    if t == "S":
                        return "S", "(let p := %s in tmul O p p)" % x
                    if t == "V":
                        return "V", "(gvsq O %s)" % x
                refuse(fn, n, "unrecognised power")
            (tl, xl), (tr, xr) = E(n.left), E(n.right)
            op = type(n.op).__name__
            tbl = {
                ("S", "Add", "S"): ("S", "tadd O"), ("S", "Sub", "S"): ("S", "tsub O"), ("S", "Mult", "S"): ("S", "tmul O"),
                ("S", "Div", "S"): ("S", "tdiv O"), ("S", "Mult", "M"): ("M", "gmscale O"), ("V", "Add", "V"): ("V", "gvadd O"),
                ("V", "Sub", "V"): ("V", "gvsub O"), ("V", "Mult", "V"): ("V", "gvmulv O"), ("V", "Div", "V"): ("V", "gvdivv O"),
                ("S", "Mult", "V"): ("V", "gvscale_l O"), ("V", "Div", "S"): ("V", "gvdivs O"),
            }
            if (tl, op, tr) in tbl:
                t, f = tbl[(tl, op, tr)]
                return t, "(%s %s %s)" % (f, xl, xr)
            if (tl, op, tr) == ("V", "Mult", "S"):
                return "V", "(gvscale O %s %s)" % (xr, xl)
            if (tl, op, tr) == ("M", "Mult", "S"):
                return "M", "(gmscale_r O %s %s)" % (xr, xl)
            refuse(fn, n, "unrecognised arithmetic %s %s %s: %s" % (tl, op, tr, ast.unparse(n)[:60]))
        if isinstance(n, ast.Attribute):
            return self.attribute(n, env, ctx)
        if isinstance(n, ast.Subscript):
            t, x = E(n.value)
            sl = n.slice
            if t == "M" and isinstance(sl, ast.Tuple) and len(sl.elts) == 2:
                return "S", "(mget %s %s %s)" % (x, self.index(sl.elts[0], env, fn), self.index(sl.elts[1], env, fn))
            if t == "M" and not isinstance(sl, (ast.Tuple, ast.Slice)):
                return "V", "(mrow %s %s)" % (x, self.index(sl, env, fn))
            if t == "V" and not isinstance(sl, (ast.Tuple, ast.Slice)):
                return "S", "(vget %s %s)" % (x, self.index(sl, env, fn))
            refuse(fn, n, "unrecognised subscript " + ast.unparse(n))
        if isinstance(n, ast.Call):
            return self.call(n, env, ctx)
        if isinstance(n, ast.List) and len(n.elts) == 3:
            parts = [E(e) for e in n.elts]
            if all(t == "V" for t, _ in parts):
                return "M", "(GM %s)" % " ".join(x for _, x in parts)
            if all(t == "S" for t, _ in parts):
                return "V", "(GV %s)" % " ".join(x for _, x in parts)
        refuse(fn, n, "unrecognised expression " + ast.unparse(n)[:80])

    def compare(self, n, env, ctx):
        fn = ctx["unit"].fn
        src = ast.unparse(n)
        # index comparisons, possibly chained:  i == j != 0
        def as_index(m):
            try:
                return self.index(m, env, fn)
            except TranslatorRefusal:
                return None
        terms = [n.left] + list(n.comparators)
        idxs = [as_index(m) for m in terms]
        if all(i is not None for i in idxs) and any(isinstance(m, ast.Name) for m in terms):
            parts = []
            for k, op in enumerate(n.ops):
                if isinstance(op, ast.Eq):
                    parts.append("(idx_eqb %s %s)" % (idxs[k], idxs[k + 1]))
                elif isinstance(op, ast.NotEq):
                    parts.append("(negb (idx_eqb %s %s))" % (idxs[k], idxs[k + 1]))
                else:
                    refuse(fn, n, "unrecognised index comparison " + src)
            out = parts[-1]
            for p in reversed(parts[:-1]):
                out = "(andb %s %s)" % (p, out)
            return "B", out
        if len(n.ops) != 1:
            refuse(fn, n, "chained comparison " + src)
        op = n.ops[0]
        if src in ("self.lattice is None", "self.lattice is not None"):
            lat = ctx.get("lat")
            neg = isinstance(op, ast.IsNot)
            if lat == ("none",):
                return "B", "false" if neg else "true"
            if lat and lat[0] == "some":
                return "B", "true" if neg else "false"
            return "B", "(match st_lat s with None => %s | Some _ => %s end)" % (("false", "true") if neg else ("true", "false"))
        (tl, xl), (tr, xr) = self.expr(n.left, env, ctx), self.expr(n.comparators[0], env, ctx)
        if (tl, tr) == ("S", "S"):
            if isinstance(op, ast.Lt):
                return "B", "(tltb O %s %s)" % (xl, xr)
            if isinstance(op, ast.Gt):
                return "B", "(tltb O %s %s)" % (xr, xl)
        if (tl, tr) == ("B", "B") and isinstance(op, (ast.Is, ast.Eq)):
            return "B", "(Bool.eqb %s %s)" % (xl, xr)
        if (tl, tr) == ("B", "B") and isinstance(op, (ast.IsNot, ast.NotEq)):
            return "B", "(negb (Bool.eqb %s %s))" % (xl, xr)
        refuse(fn, n, "unrecognised comparison " + src)

    def attribute(self, n, env, ctx):
        u = ctx["unit"]
        fn = u.fn
        if is_self_attr(n):
            if u.cls == "Lattice":
                if n.attr in LAT_FIELDS:
                    self.used_lat_fields.add(n.attr)
                    t, f = LAT_FIELDS[n.attr]
                    return t, "(%s self)" % f
                refuse(fn, n, "Lattice attribute %s is not part of latdata" % n.attr)
            if n.attr == "_U":
                return "M", "(st_U s)"
            if n.attr == "_anisotropy":
                return "B", "(st_aniso s)"
            if n.attr == "lattice":
                lat = ctx.get("lat")
                if lat == ("none",):
                    return "OL", "None"
                if lat and lat[0] == "some":
                    return "L", lat[1]
                return "OL", "(st_lat s)"
            key = ("Atom", n.attr, "get")
            if key in self.units:
                v = self.translate_unit(key)
                if v.writes:
                    h = "h%d" % (len(ctx["hoist"]) + 1)
                    ctx["hoist"].append("let '(s, %s) := %s C s in " % (h, v.coqname))
                    return v.rettype, h
                return v.rettype, "(%s C s)" % v.coqname
            refuse(fn, n, "unrecognised attribute self.%s" % n.attr)
        t, x = self.expr(n.value, env, ctx)
        if t == "L":
            if n.attr in LAT_FIELDS:
                self.used_lat_fields.add(n.attr)
                ft, f = LAT_FIELDS[n.attr]
                return ft, "(%s %s)" % (f, x)
            refuse(fn, n, "Lattice attribute %s is not part of latdata (atom.py reads something new from the lattice)" % n.attr)
        if t == "OL":
            refuse(fn, n, "attribute %s read from a lattice that may be None" % n.attr)
        refuse(fn, n, "unrecognised attribute " + ast.unparse(n))

    def call(self, n, env, ctx):
        u = ctx["unit"]
        fn = u.fn
        f = ast.unparse(n.func)
        E = lambda m: self.expr(m, env, ctx)  # noqa: E731
        kw = {k.arg: k.value for k in n.keywords}
        if f == "numpy.dot" and len(n.args) == 2 and not kw:
            (ta, xa), (tb, xb) = E(n.args[0]), E(n.args[1])
            tbl = {("M", "V"): ("V", "gmvmul"), ("V", "M"): ("V", "gvmmul"), ("V", "V"): ("S", "gvdot"), ("M", "M"): ("M", "gmmul")}
            if (ta, tb) in tbl:
                t, g = tbl[(ta, tb)]
                return t, "(%s O %s %s)" % (g, xa, xb)
            refuse(fn, n, "numpy.dot of kinds %s, %s" % (ta, tb))
        if f == "numpy.transpose" and len(n.args) == 1 and not kw:
            t, x = E(n.args[0])
            if t == "M":
                return "M", "(gmT %s)" % x
        if f == "numpy.trace" and len(n.args) == 1 and not kw:
            t, x = E(n.args[0])
            if t == "M":
                return "S", "(gtrace O %s)" % x
        if f == "numpy.sqrt" and len(n.args) == 1 and not kw:
            t, x = E(n.args[0])
            if t == "S":
                return "S", "(tsqrt %s)" % x
        if f == "numpy.sum" and len(n.args) == 1 and not kw:
            t, x = E(n.args[0])
            if t == "V":
                return "S", "(gvsum O %s)" % x
        if f == "numpy.array" and len(n.args) == 1 and (not kw or (list(kw) == ["dtype"] and ast.unparse(kw["dtype"]) == "float")):
            t, x = E(n.args[0])
            if t in ("V", "M"):
                return t, x
        if f == "numpy.zeros" and len(n.args) == 1 and ast.unparse(n.args[0]) == "(3, 3)" \
                and (not kw or (list(kw) == ["dtype"] and ast.unparse(kw["dtype"]) == "float")):
            return "M", "(gzero O)"
        if f == "abs" and len(n.args) == 1 and not kw:
            t, x = E(n.args[0])
            if t == "S":
                return "S", "(tabs O %s)" % x
        if f == "bool" and len(n.args) == 1 and not kw:
            t, x = E(n.args[0])
            if t == "B":
                return "B", x
        if isinstance(n.func, ast.Attribute) and n.func.attr == "sum" and not n.args and list(kw) == ["axis"] \
                and ast.unparse(kw["axis"]) == "-1":
            t, x = E(n.func.value)
            if t == "V":
                return "S", "(gvsum O %s)" % x
        if isinstance(n.func, ast.Attribute):
            # method of self or of a lattice value
            if is_self_attr(n.func):
                key = (u.cls, n.func.attr, "meth")
                if key in self.units:
                    v = self.translate_unit(key)
                    args = self.args(n, v, env, ctx)
                    selfname = "s" if u.cls == "Atom" else "self"
                    if v.writes:
                        if v.rettype == "N":
                            refuse(fn, n, "value of a method returning nothing")
                        h = "h%d" % (len(ctx["hoist"]) + 1)
                        ctx["hoist"].append("let '(s, %s) := %s C s %s in " % (h, v.coqname, " ".join(args)))
                        return v.rettype, h
                    return v.rettype, "(%s C %s %s)" % (v.coqname, selfname, " ".join(args))
            else:
                t, x = E(n.func.value)
                if t == "L" and ("Lattice", n.func.attr, "meth") in self.units:
                    v = self.translate_unit(("Lattice", n.func.attr, "meth"))
                    args = self.args(n, v, env, ctx)
                    return v.rettype, "(%s C %s %s)" % (v.coqname, x, " ".join(args))
        refuse(fn, n, "unrecognised call " + ast.unparse(n)[:80])

    # ------------------------------------------------------------------ output
    def run(self):
        self.collect()
        self.analyse_effects()
        for key in sorted(self.units, key=lambda k: (k[2] == "init", k[0] != "Lattice", k[1], k[2])):
            self.translate_unit(key)
        out = ["(* GENERATED by translate/c09_atom.py from atom.py and lattice.py - do not edit *)",
               "From Coq Require Import ZArith Bool List String.", "From DS Require Import Base.C09_GNum Model.C09_Prims.", "Import ListNotations.", "",
               "(* every definition takes the context C : cctx T = (number operations, pi, sqrt, the module constant",
               "   lattice.cartesian) first, so that arities do not depend on what a body happens to use *)", ""]
        e = self.lat_epsilon
        out.append("(* Lattice._epsilon *)")
        out.append("Definition c_lat_epsilon {T : Type} (C : cctx T) : T :=\n%s\n  tdiv O (tofZ O %d) (tofZ O %d)." % (LETS, e.numerator, e.denominator))
        for name, x in self.const_order:
            out.append("Definition c%s {T : Type} (C : cctx T) : T :=\n%s\n  %s." % (name, LETS, x))
        out.append("")
        out.append("(* Atom.__copy__: target.__dict__.update(self.__dict__) carries flag and lattice, _U and xyz are copied arrays *)")
        out.append("Definition copy_Atom {T : Type} (C : cctx T) (s : astate T) : astate T := AS (st_U s) (st_aniso s) (st_lat s).")
        out.append("")
        for key in self.order:
            u = self.units[key]
            out.append("(* %s.%s (%s)%s *)" % (u.cls, u.name, {"get": "getter", "set": "setter", "meth": "method", "init": "constructor"}[u.kind],
                                             ", writes storage" if u.writes else ""))
            out.append(u.text)
            out.append("")
        out.append("(* which array OBJECT every rebinding statement `self._U = ..` / `self.xyz = ..` / `target.X = ..` installs *)")
        out.append("Definition c09_alias_table : list (String.string * list bindev) := (")
        for name in sorted(self.alias):
            out.append('  ("%s"%%string, (%s :: nil)) ::' % (name, " :: ".join(self.alias[name])))
        out.append("  nil).")
        return "\n".join(out) + "\n"


def _patch_numpy_pi(tr):
    """numpy.pi is the only numpy attribute constant accepted."""
    orig = tr.attribute

    def attribute(n, env, ctx):
        if ast.unparse(n) in ("numpy.pi", "math.pi"):
            return "S", "tpi"
        return orig(n, env, ctx)
    tr.attribute = attribute


def translator():
    tr = Translator()
    _patch_numpy_pi(tr)
    return tr


def generate():
    tr = translator()
    return {"Gen/C09_AtomFormulas.v": tr.run()}


def info():
    """Facts the harness needs: which accessors write storage, Lattice._epsilon, lattice attributes read."""
    tr = translator()
    tr.run()
    return {"writes": {"%s.%s" % (k[1], k[2]): tr.units[k].writes for k in tr.units if k[0] == "Atom"},
            "epsilon": float(tr.lat_epsilon), "lat_fields": sorted(tr.used_lat_fields),
            "rettype": {tr.units[k].coqname: tr.units[k].rettype for k in tr.units}}


if __name__ == "__main__":
    print(generate()["Gen/C09_AtomFormulas.v"])
