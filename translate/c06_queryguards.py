"""Fail-closed translator: the position query of GeneratorSite.positionFormula / UFormula / eqIndex -> Gen/C06_QueryGuards.v.

Reads symmetryutilities.py with `ast`:
  * module constant  epsilon = <float literal>
  * positionDifference, nearestSiteIndex, equalPositions: their bodies (docstrings removed) must be EXACTLY the shapes
    that Model/C06_Query.v models (pdiff1 / nearest / equal_positions); any other body is refused
  * GeneratorSite.__init__: `if eps is None: eps = epsilon` and `self.eps = eps`; self.eps assigned nowhere else in the class
  * positionFormula, UFormula: must open with
        idx = nearestSiteIndex(self.eqxyz, pos); eqpos = self.eqxyz[idx]
        if not equalPositions(eqpos, pos, <TOL>): return {}
    and <TOL> (self.eps | epsilon | numeric literal) is what is generated
  * eqIndex: `return nearestSiteIndex(self.eqxyz, pos)`
  * SymmetryConstraints._findConstraints / ExpandAsymmetricUnit.__init__: the eps argument handed to GeneratorSite.
Anything else raises TranslatorRefusal naming file:line.
"""
import ast
import os
from fractions import Fraction

from vlib.core import SRC, TranslatorRefusal

SETUP = True
FN = "symmetryutilities.py"

HELPERS = {
    "positionDifference": "[Assign(targets=[Name(id='dxyz', ctx=Store())], value=BinOp(left=Call(func=Attribute(value=Name(id='numpy', ctx=Load()), attr='asarray', ctx=Load()), args=[Name(id='xyz0', ctx=Load())], keywords=[]), op=Sub(), right=Name(id='xyz1', ctx=Load()))), Assign(targets=[Name(id='dxyz', ctx=Store())], value=BinOp(left=Name(id='dxyz', ctx=Load()), op=Sub(), right=Call(func=Attribute(value=Name(id='numpy', ctx=Load()), attr='floor', ctx=Load()), args=[Name(id='dxyz', ctx=Load())], keywords=[]))), Assign(targets=[Name(id='mask', ctx=Store())], value=Compare(left=Name(id='dxyz', ctx=Load()), ops=[Gt()], comparators=[Constant(value=0.5)])), Assign(targets=[Subscript(value=Name(id='dxyz', ctx=Load()), slice=Name(id='mask', ctx=Load()), ctx=Store())], value=BinOp(left=Constant(value=1.0), op=Sub(), right=Subscript(value=Name(id='dxyz', ctx=Load()), slice=Name(id='mask', ctx=Load()), ctx=Load()))), Return(value=Name(id='dxyz', ctx=Load()))]",
    "nearestSiteIndex": "[Assign(targets=[Name(id='dbox', ctx=Store())], value=Call(func=Attribute(value=Call(func=Name(id='positionDifference', ctx=Load()), args=[Name(id='sites', ctx=Load()), Name(id='xyz', ctx=Load())], keywords=[]), attr='max', ctx=Load()), args=[], keywords=[keyword(arg='axis', value=Constant(value=1))])), Assign(targets=[Name(id='nearindex', ctx=Store())], value=Call(func=Attribute(value=Name(id='numpy', ctx=Load()), attr='argmin', ctx=Load()), args=[Name(id='dbox', ctx=Load())], keywords=[])), Return(value=Name(id='nearindex', ctx=Load()))]",
    "equalPositions": "[Assign(targets=[Name(id='dxyz', ctx=Store())], value=Call(func=Name(id='positionDifference', ctx=Load()), args=[Name(id='xyz0', ctx=Load()), Name(id='xyz1', ctx=Load())], keywords=[])), Return(value=Call(func=Attribute(value=Name(id='numpy', ctx=Load()), attr='all', ctx=Load()), args=[Compare(left=Name(id='dxyz', ctx=Load()), ops=[LtE()], comparators=[Name(id='eps', ctx=Load())])], keywords=[]))]",
}
HELPER_ARGS = {"positionDifference": ["xyz0", "xyz1"], "nearestSiteIndex": ["sites", "xyz"], "equalPositions": ["xyz0", "xyz1", "eps"]}


def _refuse(node, why):
    raise TranslatorRefusal("%s:%s: %s" % (FN, getattr(node, "lineno", "?"), why))


def _body(fn):
    b = list(fn.body)
    if b and isinstance(b[0], ast.Expr) and isinstance(b[0].value, ast.Constant) and isinstance(b[0].value.value, str):
        b = b[1:]
    return b


def _dump(nodes):
    return "[" + ", ".join(ast.dump(n) for n in nodes) + "]"


def _is_self_attr(n, attr):
    return isinstance(n, ast.Attribute) and n.attr == attr and isinstance(n.value, ast.Name) and n.value.id == "self"


def _tol(n):
    if _is_self_attr(n, "eps"):
        return "TolSelf"
    if isinstance(n, ast.Name) and n.id == "epsilon":
        return "TolModule"
    if isinstance(n, ast.Constant) and isinstance(n.value, (int, float)) and not isinstance(n.value, bool):
        f = Fraction(repr(n.value))
        return "(TolConst (%d # %d))" % (f.numerator, f.denominator)
    _refuse(n, "tolerance expression %s is neither self.eps, epsilon nor a numeric literal" % ast.dump(n)[:80])


def _guard(fn):
    b = _body(fn)
    if len(b) < 3:
        _refuse(fn, "%s: too short" % fn.name)
    want0 = "Assign(targets=[Name(id='idx', ctx=Store())], value=Call(func=Name(id='nearestSiteIndex', ctx=Load()), args=[Attribute(value=Name(id='self', ctx=Load()), attr='eqxyz', ctx=Load()), Name(id='pos', ctx=Load())], keywords=[]))"
    want1 = "Assign(targets=[Name(id='eqpos', ctx=Store())], value=Subscript(value=Attribute(value=Name(id='self', ctx=Load()), attr='eqxyz', ctx=Load()), slice=Name(id='idx', ctx=Load()), ctx=Load()))"
    if ast.dump(b[0]) != want0:
        _refuse(b[0], "%s does not open with idx = nearestSiteIndex(self.eqxyz, pos)" % fn.name)
    if ast.dump(b[1]) != want1:
        _refuse(b[1], "%s: second statement is not eqpos = self.eqxyz[idx]" % fn.name)
    s = b[2]
    ok = (isinstance(s, ast.If) and not s.orelse and isinstance(s.test, ast.UnaryOp) and isinstance(s.test.op, ast.Not)
          and isinstance(s.test.operand, ast.Call) and isinstance(s.test.operand.func, ast.Name)
          and s.test.operand.func.id == "equalPositions" and len(s.test.operand.args) == 3 and not s.test.operand.keywords
          and ast.dump(s.test.operand.args[0]) == "Name(id='eqpos', ctx=Load())"
          and ast.dump(s.test.operand.args[1]) == "Name(id='pos', ctx=Load())"
          and len(s.body) == 1 and isinstance(s.body[0], ast.Return) and isinstance(s.body[0].value, ast.Dict) and not s.body[0].value.keys)
    if not ok:
        _refuse(s, "%s: third statement is not `if not equalPositions(eqpos, pos, <tol>): return {}`" % fn.name)
    # idx / eqpos / pos must not be rebound before use further down in a way that changes the queried position: pos is never assigned
    for n in ast.walk(fn):
        if isinstance(n, (ast.Assign, ast.AugAssign)):
            tg = n.targets if isinstance(n, ast.Assign) else [n.target]
            for t in tg:
                for m in ast.walk(t):
                    if isinstance(m, ast.Name) and m.id in ("pos", "idx") and n is not b[0]:
                        _refuse(n, "%s rebinds %s" % (fn.name, m.id))
    return _tol(s.test.operand.args[2])


def _ctor_eps(fn, cls):
    """the 5th positional / `eps=` argument of the single GeneratorSite(...) call inside fn"""
    calls = [n for n in ast.walk(fn) if isinstance(n, ast.Call) and isinstance(n.func, ast.Name) and n.func.id == "GeneratorSite"]
    if len(calls) != 1:
        _refuse(fn, "%s.%s: expected exactly one GeneratorSite(...) call" % (cls, fn.name))
    c = calls[0]
    kw = {k.arg: k.value for k in c.keywords}
    if len(c.args) == 5 and "eps" not in kw:
        return _tol(c.args[4])
    if "eps" in kw and len(c.args) <= 4:
        return _tol(kw["eps"])
    if len(c.args) <= 4:
        return "TolModule"        # GeneratorSite's default: eps=None -> epsilon
    _refuse(c, "%s.%s: cannot find the eps argument of GeneratorSite(...)" % (cls, fn.name))


def analyse():
    path = os.path.join(SRC, FN)
    tree = ast.parse(open(path).read(), path)
    eps_assign = [st for st in tree.body if isinstance(st, ast.Assign) and any(isinstance(t, ast.Name) and t.id == "epsilon" for t in st.targets)]
    if len(eps_assign) != 1 or not (isinstance(eps_assign[0].value, ast.Constant) and isinstance(eps_assign[0].value.value, float)):
        raise TranslatorRefusal("%s: module constant epsilon is not one float literal assignment" % FN)
    for n in ast.walk(tree):
        if isinstance(n, ast.Global) and "epsilon" in n.names:
            _refuse(n, "epsilon declared global inside a function")
    meps = Fraction(repr(eps_assign[0].value.value))
    funcs = {st.name: st for st in tree.body if isinstance(st, ast.FunctionDef)}
    for name, want in HELPERS.items():
        if name not in funcs:
            raise TranslatorRefusal("%s: function %s not found" % (FN, name))
        f = funcs[name]
        if [a.arg for a in f.args.args] != HELPER_ARGS[name] or f.args.defaults or f.args.vararg or f.args.kwarg or f.decorator_list:
            _refuse(f, "%s has an unexpected signature" % name)
        if _dump(_body(f)) != want:
            _refuse(f, "%s is not the modelled shape (Model/C06_Query.v)" % name)
    classes = {st.name: st for st in tree.body if isinstance(st, ast.ClassDef)}
    for cn in ("GeneratorSite", "SymmetryConstraints", "ExpandAsymmetricUnit"):
        if cn not in classes:
            raise TranslatorRefusal("%s: class %s not found" % (FN, cn))
    gs = classes["GeneratorSite"]
    meth = {st.name: st for st in gs.body if isinstance(st, ast.FunctionDef)}
    for m in ("__init__", "positionFormula", "UFormula", "eqIndex"):
        if m not in meth:
            _refuse(gs, "GeneratorSite.%s not found" % m)
    init = meth["__init__"]
    ib = _body(init)
    want_if = "If(test=Compare(left=Name(id='eps', ctx=Load()), ops=[Is()], comparators=[Constant(value=None)]), body=[Assign(targets=[Name(id='eps', ctx=Store())], value=Name(id='epsilon', ctx=Load()))], orelse=[])"
    if not ib or ast.dump(ib[0]) != want_if:
        _refuse(init, "GeneratorSite.__init__ does not open with `if eps is None: eps = epsilon`")
    assigns = []
    for fn in meth.values():
        for n in ast.walk(fn):
            if isinstance(n, (ast.Assign, ast.AugAssign, ast.AnnAssign)):
                tg = n.targets if isinstance(n, ast.Assign) else [n.target]
                for t in tg:
                    for m in ast.walk(t):
                        if _is_self_attr(m, "eps") and isinstance(m.ctx, ast.Store):
                            assigns.append((fn.name, n))
            if isinstance(n, ast.Call) and isinstance(n.func, ast.Name) and n.func.id in ("setattr", "vars"):
                _refuse(n, "GeneratorSite.%s uses %s" % (fn.name, n.func.id))
    if len(assigns) != 1 or assigns[0][0] != "__init__" or ast.dump(assigns[0][1]) != \
            "Assign(targets=[Attribute(value=Name(id='self', ctx=Load()), attr='eps', ctx=Store())], value=Name(id='eps', ctx=Load()))":
        _refuse(gs, "self.eps is not assigned exactly once as `self.eps = eps` in __init__")
    # eps itself must not be reassigned between the default and self.eps = eps
    for n in ast.walk(init):
        if isinstance(n, ast.Assign) and any(isinstance(t, ast.Name) and t.id == "eps" for t in n.targets) and n is not ib[0].body[0]:
            _refuse(n, "GeneratorSite.__init__ reassigns eps")
    eb = _body(meth["eqIndex"])
    if len(eb) != 1 or ast.dump(eb[0]) != "Return(value=Call(func=Name(id='nearestSiteIndex', ctx=Load()), args=[Attribute(value=Name(id='self', ctx=Load()), attr='eqxyz', ctx=Load()), Name(id='pos', ctx=Load())], keywords=[]))":
        _refuse(meth["eqIndex"], "eqIndex is not `return nearestSiteIndex(self.eqxyz, pos)`")
    sc = {st.name: st for st in classes["SymmetryConstraints"].body if isinstance(st, ast.FunctionDef)}
    ea = {st.name: st for st in classes["ExpandAsymmetricUnit"].body if isinstance(st, ast.FunctionDef)}
    if "_findConstraints" not in sc or "__init__" not in ea:
        raise TranslatorRefusal("%s: SymmetryConstraints._findConstraints / ExpandAsymmetricUnit.__init__ not found" % FN)
    return {"module_epsilon": meps, "guard_positionFormula": _guard(meth["positionFormula"]), "guard_UFormula": _guard(meth["UFormula"]),
            "eps_passed_by_SymmetryConstraints": _ctor_eps(sc["_findConstraints"], "SymmetryConstraints"),
            "eps_passed_by_ExpandAsymmetricUnit": _ctor_eps(ea["__init__"], "ExpandAsymmetricUnit")}


def generate():
    a = analyse()
    out = ["(* GENERATED by translate/c06_queryguards.py from /repo - do not edit *)",
           "From Coq Require Import ZArith QArith.", "From DS Require Import Model.C06_Query.", "Open Scope Q_scope.", "",
           "Definition module_epsilon : Q := %d # %d." % (a["module_epsilon"].numerator, a["module_epsilon"].denominator)]
    for k in ("guard_positionFormula", "guard_UFormula", "eps_passed_by_SymmetryConstraints", "eps_passed_by_ExpandAsymmetricUnit"):
        out.append("Definition %s : tolexp := %s." % (k, a[k]))
    return {"Gen/C06_QueryGuards.v": "\n".join(out) + "\n"}


if __name__ == "__main__":
    print(generate()["Gen/C06_QueryGuards.v"])
