"""Digests of the normalised shapes of the p_cif.py control flow that Model/C07_CifRead.v was written from
(`python -m translate.c07_cif --shapes -v` prints the normalised text of the current source), per accepted variant."""
DIGESTS = {
    "_get_atom_setters": {"ALL": "3223d1880cd194f6"},
    "_parseCifBlock": {"ALL": "02fcd6a96799f17e"},
    "_parse_lattice": {"ALL": "ce7c302c9d9247d8"},
    # SOColumn: translators of a row run in column order; SOTypeFirst: the adp-type translator first (stable);
    # SOTypeFirstCartnLast: in addition the three Cartesian translators after all others
    "_parse_atom_site_label": {"SOColumn": "2199026341d3198c", "SOTypeFirst": "f43668c47b7672fb", "SOTypeFirstCartnLast": "251e9839b468f5b0"},
    "_parse_atom_site_aniso_label": {"ALL": "2d166274d0c4640b"},
    "_parse_space_group_symop_operation_xyz": {"ALL": "29eb4f62e4c9ad81"},
    # LSPlain: label += "_" + str(j + 1);  LSFresh: the same numbering, skipping labels that are already taken
    "_expandAsymmetricUnit": {"LSPlain": "01bc7c6c5b53efab", "LSFresh": "1f1594f546ba4fee"},
    "leading_float": {"ALL": "f2d6d970477f705b"},
    # SREval: the constant part goes through eval (pinned tree);  SRNumeric: through _parseSymOpTranslation
    "getSymOp": {"SREval": "5697e8c7a3f0a02a", "SRNumeric": "7aa9d3253a3fad3b"},
    "_parseSymOpTranslation": {"ALL": "1c99d41c03aa6c75"},
}
# module-level patterns of the numeric reader, as `ast.unparse` prints their right-hand sides
SYMOP_PATTERNS = {'_rx_symop_number': "'(?:\\\\d+(?:\\\\.\\\\d*)?|\\\\.\\\\d+)(?:[eE][-+]?\\\\d+)?(?:/\\\\d+(?:\\\\.\\\\d*)?)?'", '_rx_symop_translation': "re.compile('(?:[-+]?%s(?:[-+]%s)*)?\\\\Z' % (_rx_symop_number, _rx_symop_number))", '_rx_symop_term': "re.compile('([-+]?(?:\\\\d+(?:\\\\.\\\\d*)?|\\\\.\\\\d+)(?:[eE][-+]?\\\\d+)?)(?:/(\\\\d+(?:\\\\.\\\\d*)?))?')"}
