"""Fail-closed effect-graph translator for C17 -> Gen/C17_EffectGraph.v

Static over-approximation of what the parse paths of diffpy.structure can call and which
effectful operations (sinks) they contain, with a provenance class for every sink argument.

Nodes   : every function / method / nested function of the package (apps/ and tests excluded),
          one merged node per scope for its lambdas, one `<module>` node per module (module and class
          bodies), and two synthetic nodes:
            IMPLICIT -> every dunder method, every property accessor and every generator function of the package
            DYN      -> every function whose name occurs as a string constant in the package or
                        that is referenced as a value (address taken)
Edges   : f(...)            resolved by name (nested def, module def, import from a package module);
                            a class -> its __init__ (searched through package base classes)
          x.m(...)          module alias -> that module's def; otherwise EVERY def named m in the package
          v(...) with v a local / parameter / unknown global / computed callee -> DYN
          x.attr (load or store) where attr is a property of some package class -> its accessors
          import statements -> the `<module>` node of the imported package module
          every node -> IMPLICIT; scope -> its lambda node and nested defs
State   : KState sinks = a memoising (lru_cache / cache / cached_property) or unknown decorator on a function (arguments =
          its parameters), and stores / mutating method calls whose target is module-level, class-level or external-module
          state, with the provenance of what is stored.
Sinks   : eval exec compile __import__ importlib.* open io.open codecs.open os.* (except pure os.path
          string functions) subprocess.* socket.* and other effect modules; reflective
          setattr/getattr/delattr with a non-literal name; str.format on a non-literal format string.
Provenance (fail-closed, intra-procedural, flow-insensitive; parameters of private functions are
joined over their in-package call sites):  Const < Registry < FileName < Text, default Text.
"""
import ast
import builtins
import os

from vlib.core import SRC, TranslatorRefusal

SETUP = True

PKG = "diffpy.structure"
EXCLUDE_DIRS = {"apps", "tests", "__pycache__"}
CONST, REGISTRY, FILENAME, TEXT = 0, 1, 2, 3
PNAME = ["PConst", "PRegistry", "PFileName", "PText"]
PURE_EXT_PREFIX = ("numpy.", "math.", "re.", "copy.", "itertools.", "operator.", "fractions.", "string.", "functools.reduce")
PURE_OS_PATH = {"os.path.basename", "os.path.splitext", "os.path.dirname", "os.path.join", "os.path.split",
                "os.path.normpath", "os.path.normcase", "os.path.sep", "os.path.extsep"}
SINK_PREFIX = [  # dotted external name prefix -> kind
    ("importlib.", "KImport"), ("imp.", "KImport"), ("runpy.", "KExec"), ("code.", "KExec"), ("codeop.", "KCompile"),
    ("os.", "KOs"), ("posix.", "KOs"), ("shutil.", "KOs"), ("tempfile.", "KOs"), ("pathlib.", "KOs"), ("glob.", "KOs"),
    ("subprocess.", "KProcess"), ("multiprocessing.", "KProcess"), ("pty.", "KProcess"), ("ctypes.", "KProcess"),
    ("socket.", "KSocket"), ("urllib.", "KSocket"), ("http.", "KSocket"), ("ftplib.", "KSocket"), ("ssl.", "KSocket"),
    ("pickle.", "KOther"), ("marshal.", "KOther"), ("shelve.", "KOther"), ("dbm.", "KOther"), ("sqlite3.", "KOther"),
]
OPEN_NAMES = {"open", "io.open", "codecs.open", "builtins.open", "numpy.load", "numpy.loadtxt", "numpy.genfromtxt",
              "numpy.fromfile", "numpy.save", "numpy.savetxt", "gzip.open", "bz2.open", "lzma.open"}
BUILTIN_SINKS = {"eval": "KEval", "exec": "KExec", "compile": "KCompile", "__import__": "KImport", "open": "KOpen",
                 "setattr": "KSetattr", "getattr": "KGetattr", "hasattr": "KGetattr", "delattr": "KSetattr", "execfile": "KExec", "input": "KOther",
                 "breakpoint": "KExec", "globals": "KOther", "vars": "KGetattr", "locals": "KOther"}
PURE_STR_METHODS = {"strip", "lstrip", "rstrip", "lower", "upper", "replace", "split", "rsplit", "join", "capitalize", "title",
                    "get", "keys", "values", "items", "copy", "format", "splitlines", "partition", "rpartition", "encode",
                    "decode", "expandtabs", "center", "ljust", "rjust", "zfill", "swapcase", "casefold", "pop", "setdefault"}
PURE_READ_METHODS = {"strip", "lstrip", "rstrip", "lower", "upper", "replace", "split", "rsplit", "join", "capitalize", "title",
                     "get", "keys", "values", "items", "copy", "splitlines", "partition", "rpartition", "encode", "decode",
                     "startswith", "endswith", "find", "index", "count", "isdigit", "isalpha", "format", "search", "match",
                     "group", "groups", "read", "readline", "readlines", "sort", "reverse", "tolist", "flatten", "ravel",
                     "reshape", "astype", "any", "all", "sum", "min", "max", "transpose", "dot", "close", "seek"}
DANGEROUS_METHODS = {"system": "KProcess", "popen": "KProcess", "Popen": "KProcess", "check_output": "KProcess",
                     "check_call": "KProcess", "spawnl": "KProcess", "spawnv": "KProcess", "execv": "KProcess", "execl": "KProcess",
                     "fork": "KProcess", "kill": "KProcess", "unlink": "KOs", "rmdir": "KOs", "rmtree": "KOs", "makedirs": "KOs",
                     "mkdir": "KOs", "rename": "KOs", "chmod": "KOs", "chown": "KOs", "putenv": "KOs", "urlopen": "KSocket",
                     "urlretrieve": "KSocket", "import_module": "KImport", "exec_module": "KImport", "load_module": "KImport",
                     "eval": "KEval", "exec": "KExec"}
SAFE_DECORATORS = {"staticmethod", "classmethod", "property", "contextmanager", "contextlib.contextmanager", "abstractmethod",
                   "abc.abstractmethod", "functools.wraps", "wraps"}
CACHE_DECORATORS = {"lru_cache", "cache", "cached_property"}
MUTATING_METHODS = {"append", "extend", "insert", "add", "update", "setdefault", "pop", "remove", "clear", "discard", "popitem",
                    "sort", "reverse", "appendleft", "extendleft", "__setitem__", "__delitem__", "register"}
ARG_SAFE_METHODS = {"update", "extend", "append", "add", "insert", "setdefault", "write", "writelines"}   # keep, never mutate, their argument
COMP_SCOPES = ("<genexpr>", "<listcomp>", "<setcomp>", "<dictcomp>")


def _refuse(mod, node, why):
    raise TranslatorRefusal("%s:%s: %s" % (mod, getattr(node, "lineno", "?"), why))


class Scope:
    """A function, a merged lambda node, or a module (with its class bodies)."""

    def __init__(self, mod, qual, kind, node=None, parent=None, cls=None):
        self.mod, self.qual, self.kind, self.node, self.parent, self.cls = mod, qual, kind, node, parent, cls
        self.id = "%s:%s" % (mod.name, qual)
        self.body = []          # ast nodes whose code runs in this scope
        self.nested = {}        # name -> Scope of nested defs
        self.params = []        # positional parameter names (functions)
        self.kwonly = []
        self.imports = {}       # local imports
        self.assigns = {}       # var -> list of value exprs (("elem", expr) for iteration targets)
        self.lambda_scope = None
        self.edges = set()
        self.sinks = []
        self.import_stmts = []  # dotted names imported here


class Mod:
    def __init__(self, name, path):
        self.name, self.path = name, path
        self.tree = ast.parse(open(path).read(), path)
        self.imports = {}       # alias -> ("mod", dotted) | ("name", dotted, name)
        self.funcs = {}         # top-level function name -> Scope
        self.classes = {}       # class name -> {"bases": [...], "methods": {name: Scope}, "literals": set(), "node": ast}
        self.literals = set()   # module-level names bound to literals
        self.scope = Scope(self, "<module>", "module")


def _is_literal(node):
    try:
        ast.literal_eval(node)
        return True
    except Exception:
        return False


class Analysis:
    def __init__(self, src=None):
        self.src = src or SRC
        self.root = os.path.dirname(os.path.dirname(self.src))       # .../src
        self.mods = {}
        self.scopes = {}        # id -> Scope
        self.by_name = {}       # bare def name -> [Scope]
        self.props = {}         # property name -> set of accessor scope ids
        self.str_consts = set()
        self.addr_taken = set()  # bare names referenced as values
        self.load()
        for m in self.mods.values():
            self.collect(m)
        for m in self.mods.values():
            self.collect_props(m)
        self._param_cache = {}
        self._penv, self._ret_stack, self._name_cache = [], [], {}
        for s in list(self.scopes.values()):
            self.analyse_scope(s)
        self.finish()

    # ------------------------------------------------------------ loading
    def load(self):
        for root, dirs, files in os.walk(self.src):
            dirs[:] = sorted(d for d in dirs if d not in EXCLUDE_DIRS)
            for f in sorted(files):
                if not f.endswith(".py"):
                    continue
                p = os.path.join(root, f)
                rel = os.path.relpath(p, self.root)[:-3].replace(os.sep, ".")
                if rel.endswith(".__init__"):
                    rel = rel[:-9]
                self.mods[rel] = Mod(rel, p)
        if PKG + ".parsers" not in self.mods:
            raise TranslatorRefusal("package layout changed: %s.parsers not found" % PKG)

    def abs_module(self, mod, node):
        """dotted name of the module an ImportFrom refers to"""
        if node.level == 0:
            return node.module
        base = mod.name.split(".")
        if not mod.path.endswith("__init__.py"):
            base = base[:-1]
        base = base[:len(base) - (node.level - 1)]
        return ".".join(base + ([node.module] if node.module else []))

    def add_import(self, mod, table, node, scope):
        if isinstance(node, ast.Import):
            for a in node.names:
                scope.import_stmts.append(a.name)
                if a.asname:
                    table[a.asname] = ("mod", a.name)
                else:
                    table[a.name.split(".")[0]] = ("mod", a.name.split(".")[0])
        else:
            dm = self.abs_module(mod, node)
            for a in node.names:
                if a.name == "*":
                    _refuse(mod.name, node, "star import")
                scope.import_stmts.append(dm)
                full = dm + "." + a.name
                if full in self.mods:
                    scope.import_stmts.append(full)
                    table[a.asname or a.name] = ("mod", full)
                else:
                    table[a.asname or a.name] = ("name", dm, a.name)

    def collect(self, m):
        ms = m.scope
        self.scopes[ms.id] = ms

        def new_func(node, qual, parent, cls):
            s = Scope(m, qual, "func", node, parent, cls)
            a = node.args
            s.params = [x.arg for x in a.posonlyargs + a.args]
            s.kwonly = [x.arg for x in a.kwonlyargs]
            s.vararg = a.vararg.arg if a.vararg else None
            s.kwarg = a.kwarg.arg if a.kwarg else None
            if s.id in self.scopes:
                # redefinition (e.g. property getter/setter pairs sharing a name): merge bodies
                old = self.scopes[s.id]
                walk_body(old, node.body, qual + ".<locals>", cls=None)
                return old
            self.scopes[s.id] = s
            s.decorators = list(node.decorator_list)
            self.by_name.setdefault(node.name, []).append(s)
            # decorators and defaults run in the parent scope
            for d in node.decorator_list + a.defaults + [x for x in a.kw_defaults if x is not None]:
                parent.body.append(d)
            walk_body(s, node.body, qual + ".<locals>", cls=None)
            return s

        def nested_defs(st):
            stack = list(ast.iter_child_nodes(st))
            while stack:
                x = stack.pop()
                if isinstance(x, (ast.FunctionDef, ast.AsyncFunctionDef, ast.ClassDef)):
                    yield x
                elif not isinstance(x, ast.Lambda):
                    stack.extend(ast.iter_child_nodes(x))

        def walk_body(scope, stmts, prefix, cls):
            """distribute statements: nested defs/classes become scopes, the rest runs in `scope`"""
            for st in stmts:
                if isinstance(st, (ast.FunctionDef, ast.AsyncFunctionDef)):
                    q = (prefix + "." if prefix else "") + st.name
                    if cls is not None and scope.kind == "module":
                        q = cls + "." + st.name
                    f = new_func(st, q, scope, cls)
                    if cls is not None and scope.kind == "module":
                        m.classes[cls]["methods"].setdefault(st.name, f)
                    elif scope.kind == "module":
                        m.funcs[st.name] = f
                    else:
                        scope.nested[st.name] = f
                    scope.edges.add(f.id) if scope.kind != "module" else None
                elif isinstance(st, ast.ClassDef):
                    if scope.kind != "module" or cls is not None:
                        _refuse(m.name, st, "nested class definitions are not understood")
                    m.classes[st.name] = {"bases": [ast.unparse(b) for b in st.bases], "methods": {}, "literals": set(),
                                          "node": st}
                    for d in st.decorator_list + st.bases + [k.value for k in st.keywords]:
                        scope.body.append(d)
                    walk_body(scope, st.body, st.name, cls=st.name)
                else:
                    scope.body.append(st)
                    for d in nested_defs(st):
                        if isinstance(d, ast.ClassDef) or scope.kind == "module":
                            _refuse(m.name, d, "definition nested in a compound statement")
                        f = new_func(d, (prefix + "." if prefix else "") + d.name, scope, cls)
                        scope.nested[d.name] = f
                        scope.edges.add(f.id)
                    if scope.kind == "module":
                        if isinstance(st, (ast.Import, ast.ImportFrom)):
                            self.add_import(m, m.imports, st, scope)
                        if isinstance(st, ast.Assign) and len(st.targets) == 1 and isinstance(st.targets[0], ast.Name) \
                                and _is_literal(st.value):
                            (m.classes[cls]["literals"] if cls else m.literals).add(st.targets[0].id)
                        # try/if at module level may contain imports
                        for sub in ast.walk(st):
                            if sub is not st and isinstance(sub, (ast.Import, ast.ImportFrom)):
                                self.add_import(m, m.imports, sub, scope)
                            if isinstance(sub, (ast.FunctionDef, ast.ClassDef)) and sub is not st:
                                _refuse(m.name, sub, "definition nested in a module-level compound statement")

        walk_body(ms, m.tree.body, "", None)
        for n in ast.walk(m.tree):
            if isinstance(n, ast.Constant) and isinstance(n.value, str) and len(n.value) < 80:
                self.str_consts.add(n.value)

    def collect_props(self, m):
        for cname, c in m.classes.items():
            for st in c["node"].body:
                if isinstance(st, ast.Assign) and isinstance(st.value, ast.Call) and isinstance(st.value.func, ast.Name) \
                        and st.value.func.id == "property":
                    for t in st.targets:
                        if isinstance(t, ast.Name):
                            acc = self.props.setdefault(t.id, set())
                            for a in list(st.value.args) + [k.value for k in st.value.keywords]:
                                if isinstance(a, ast.Name) and a.id in c["methods"]:
                                    acc.add(c["methods"][a.id].id)
                                elif isinstance(a, ast.Lambda):
                                    acc.add("%s:%s.<lambda>" % (m.name, cname))
                elif isinstance(st, ast.FunctionDef):
                    for d in st.decorator_list:
                        u = ast.unparse(d)
                        if u == "property" or u.endswith(".setter") or u.endswith(".getter") or u.endswith(".deleter"):
                            self.props.setdefault(st.name, set()).add("%s:%s.%s" % (m.name, cname, st.name))

    # ------------------------------------------------------------ per-scope analysis
    def lambda_scope(self, scope, cls_ctx):
        if scope.kind == "module":
            qual = (cls_ctx + "." if cls_ctx else "") + "<lambda>"
        else:
            qual = scope.qual + ".<locals>.<lambda>"
        sid = "%s:%s" % (scope.mod.name, qual)
        if sid not in self.scopes:
            s = Scope(scope.mod, qual, "lambda", None, scope, None)
            self.scopes[sid] = s
            s.pending = []
        scope.edges.add(sid)
        return self.scopes[sid]

    def iter_nodes(self, scope):
        """all AST nodes executed in this scope; lambdas are diverted to the lambda scope"""
        cls_of = {}
        if scope.kind == "module":
            for cname, c in scope.mod.classes.items():
                for st in c["node"].body:
                    for n in ast.walk(st):
                        cls_of[id(n)] = cname
        stack = list(scope.body)
        while stack:
            n = stack.pop()
            if isinstance(n, (ast.FunctionDef, ast.AsyncFunctionDef)):
                # a definition nested in a compound statement: its own scope; decorators and defaults run here
                stack.extend(n.decorator_list + n.args.defaults + [x for x in n.args.kw_defaults if x is not None])
                continue
            if isinstance(n, ast.Lambda):
                ls = self.lambda_scope(scope, cls_of.get(id(n)))
                ls.params += [a.arg for a in n.args.args]
                ls.body.append(n.body)
                continue
            yield n
            stack.extend(ast.iter_child_nodes(n))

    def analyse_scope(self, scope):
        nodes = list(self.iter_nodes(scope))
        if scope.kind == "lambda":
            pass
        # newly created lambda scopes are analysed when the main loop reaches them (they are appended to self.scopes);
        # make sure of it for lambdas created late
        scope.done = True
        m = scope.mod
        # assignments and local imports
        for n in nodes:
            if isinstance(n, (ast.Import, ast.ImportFrom)) and scope.kind != "module":
                self.add_import(m, scope.imports, n, scope)
            if isinstance(n, ast.Assign):
                for t in n.targets:
                    self.bind(scope, t, n.value)
            elif isinstance(n, ast.AnnAssign) and n.value is not None:
                self.bind(scope, n.target, n.value)
            elif isinstance(n, ast.AugAssign):
                self.bind(scope, n.target, n.value)
            elif isinstance(n, (ast.For, ast.comprehension)):
                self.bind(scope, n.target, ("elem", n.iter))
            elif isinstance(n, ast.withitem) and n.optional_vars is not None:
                self.bind(scope, n.optional_vars, ("call", n.context_expr))
            elif isinstance(n, ast.NamedExpr):
                self.bind(scope, n.target, n.value)
            elif isinstance(n, ast.ExceptHandler) and n.name:
                scope.assigns.setdefault(n.name, []).append(("text",))
            elif isinstance(n, (ast.Global, ast.Nonlocal)):
                _refuse(m.name, n, "global/nonlocal statement")
        scope.nodes = nodes
        for n in nodes:
            if isinstance(n, ast.Call):
                self.mutations(scope, n)

    def owner(self, scope, name):
        """the scope whose variable `name` is (an enclosing function or the module), else the current scope"""
        s = scope
        while s is not None:
            if name in s.assigns or name in getattr(s, "params", []):
                return s
            s = s.parent if s.kind != "module" else None
        if name in scope.mod.scope.assigns:
            return scope.mod.scope
        return scope

    def mutations(self, scope, n):
        """fail-closed container tracking: whatever is handed to a method of a variable, or the variable handed to
        code that may mutate it, is joined into the variable's provenance"""
        f = n.func
        args = list(n.args) + [k.value for k in n.keywords]
        if isinstance(f, ast.Attribute) and isinstance(f.value, ast.Name) and f.attr not in PURE_READ_METHODS \
                and self.lookup(scope, f.value.id)[0] in ("var", "unknown"):
            for a in args:
                self.owner(scope, f.value.id).assigns.setdefault(f.value.id, []).append(a)
        pure_callee = False
        if isinstance(f, ast.Name) and hasattr(builtins, f.id):
            pure_callee = True
        d = None
        if isinstance(f, ast.Attribute):
            d = self.dotted(scope, f) if getattr(scope, "done", False) else None
            if f.attr in PURE_STR_METHODS or f.attr in PURE_READ_METHODS or f.attr in ARG_SAFE_METHODS:
                pure_callee = True
        if not pure_callee:
            for a in args:
                if isinstance(a, ast.Starred):
                    a = a.value
                if isinstance(a, ast.Name) and a.id in scope.assigns and a.id not in scope.params:
                    scope.assigns[a.id].append(("text",))

    def bind(self, scope, target, value):
        if isinstance(target, ast.Name):
            scope.assigns.setdefault(target.id, []).append(value)
        elif isinstance(target, (ast.Tuple, ast.List)):
            for e in target.elts:
                self.bind(scope, e, ("elem", value) if not isinstance(value, tuple) else value)
        elif isinstance(target, ast.Starred):
            self.bind(scope, target.value, value)
        elif isinstance(target, (ast.Subscript, ast.Attribute)):
            # a store into a container / object held by a variable taints the variable
            base = target
            while isinstance(base, (ast.Subscript, ast.Attribute)):
                base = base.value
            if isinstance(base, ast.Name) and base.id not in ("self", "cls"):
                self.owner(scope, base.id).assigns.setdefault(base.id, []).append(value)

    # ------------------------------------------------------------ name resolution
    def lookup(self, scope, name):
        """-> ("scope", Scope) | ("class", Mod, cname) | ("mod", dotted) | ("ext", dotted) | ("var",) | ("builtin",) | ("unknown",)"""
        s = scope
        while s is not None and s.kind != "module":
            if name in s.nested:
                return ("scope", s.nested[name])
            if name in s.imports:
                return self.import_target(s.imports[name])
            if name in s.assigns or name in s.params or name in s.kwonly or name in (getattr(s, "vararg", None), getattr(s, "kwarg", None)):
                return ("var", s)
            s = s.parent
        m = scope.mod
        if name in m.funcs:
            return ("scope", m.funcs[name])
        if name in m.classes:
            return ("class", m, name)
        if name in m.imports:
            return self.import_target(m.imports[name])
        if name in m.scope.assigns:
            return ("var", m.scope)
        if hasattr(builtins, name):
            return ("builtin",)
        return ("unknown",)

    def import_target(self, imp):
        if imp[0] == "mod":
            return ("mod", imp[1])
        dm, nm = imp[1], imp[2]
        if dm in self.mods:
            mm = self.mods[dm]
            if nm in mm.funcs:
                return ("scope", mm.funcs[nm])
            if nm in mm.classes:
                return ("class", mm, nm)
            if nm in mm.imports:
                return self.import_target(mm.imports[nm])
            return ("pkgvar", dm, nm)
        return ("ext", dm + "." + nm)

    def dotted(self, scope, node):
        """resolve a Name/Attribute chain that starts at a module alias -> dotted external/package name, else None"""
        parts = []
        while isinstance(node, ast.Attribute):
            parts.append(node.attr)
            node = node.value
        if isinstance(node, ast.Call) and isinstance(node.func, ast.Name) and node.func.id == "__import__" and node.args \
                and isinstance(node.args[0], ast.Constant) and isinstance(node.args[0].value, str):
            return ".".join([node.args[0].value.split(".")[0]] + parts[::-1])     # __import__("os").path.x -> os.path.x
        if not isinstance(node, ast.Name):
            return None
        r = self.lookup(scope, node.id)
        if r[0] == "mod":
            return ".".join([r[1]] + parts[::-1])
        if r[0] == "ext":
            return ".".join([r[1]] + parts[::-1])
        return None

    def class_init(self, m, cname, seen=None):
        seen = seen or set()
        if (m.name, cname) in seen:
            return []
        seen.add((m.name, cname))
        c = m.classes[cname]
        if "__init__" in c["methods"]:
            return [c["methods"]["__init__"].id]
        out = []
        for b in c["bases"]:
            r = self.lookup(m.scope, b.split(".")[0]) if "." not in b else ("unknown",)
            if r[0] == "class":
                out += self.class_init(r[1], r[2], seen)
        return out

    def package_attr(self, dotted):
        """dotted package name -> target ids"""
        parts = dotted.split(".")
        for i in range(len(parts), 0, -1):
            mn = ".".join(parts[:i])
            if mn in self.mods:
                rest = parts[i:]
                mm = self.mods[mn]
                if not rest:
                    return []
                if rest[0] in mm.funcs and len(rest) == 1:
                    return [mm.funcs[rest[0]].id]
                if rest[0] in mm.classes:
                    if len(rest) == 1:
                        return self.class_init(mm, rest[0])
                    meth = mm.classes[rest[0]]["methods"].get(rest[1])
                    return [meth.id] if meth else ["DYN"]
                if rest[0] in mm.imports and len(rest) == 1:
                    r = self.import_target(mm.imports[rest[0]])
                    if r[0] == "scope":
                        return [r[1].id]
                    if r[0] == "class":
                        return self.class_init(r[1], r[2])
                return ["DYN"]
        return None

    # ------------------------------------------------------------ provenance
    def prov(self, scope, e, depth=0, seen=None):
        if depth > 40:
            return TEXT
        seen = seen or set()
        P = lambda x: self.prov(scope, x, depth + 1, seen)   # noqa: E731
        if isinstance(e, tuple):
            if e[0] == "elem":
                return P(e[1])
            return TEXT
        if isinstance(e, ast.Constant):
            return CONST
        if isinstance(e, (ast.Tuple, ast.List, ast.Set)):
            return max([P(x) for x in e.elts] + [CONST])
        if isinstance(e, ast.Dict):
            return max([P(x) for x in list(e.keys) + list(e.values) if x is not None] + [CONST])
        if isinstance(e, ast.JoinedStr):
            return max([P(v.value) for v in e.values if isinstance(v, ast.FormattedValue)] + [CONST])
        if isinstance(e, ast.BinOp):
            return max(P(e.left), P(e.right))
        if isinstance(e, ast.BoolOp):
            return max(P(v) for v in e.values)
        if isinstance(e, ast.IfExp):
            return max(P(e.body), P(e.orelse))
        if isinstance(e, ast.UnaryOp):
            return P(e.operand)
        if isinstance(e, ast.Subscript):
            return P(e.value)            # an element of a container has at most the container's class
        if isinstance(e, ast.Starred):
            return P(e.value)
        if isinstance(e, ast.Name):
            return self.prov_name(scope, e.id, depth, seen)
        if isinstance(e, ast.Lambda):
            return CONST         # a code object of the program
        if isinstance(e, ast.Attribute):
            # Class.literal / module.literal
            if isinstance(e.value, ast.Name):
                r = self.lookup(scope, e.value.id)
                if r[0] == "class" and e.attr in r[1].scope.assigns and e.attr not in r[1].classes[r[2]]["methods"]:
                    return self.prov_name(r[1].scope, e.attr, depth, seen)
                if r[0] == "mod" and r[1] in self.mods and e.attr in self.mods[r[1]].scope.assigns:
                    return self.prov_name(self.mods[r[1]].scope, e.attr, depth, seen)
                if e.value.id == "self" and e.attr == "filename":
                    return FILENAME
            d = self.dotted(scope, e)
            if d is not None and not d.startswith(PKG):
                return CONST     # an object of an external library module
            return P(e.value)    # an attribute of an object has at most the object's class (stores taint the variable)
        if isinstance(e, ast.Call):
            if isinstance(e.func, ast.Attribute) and isinstance(e.func.value, ast.Name) and e.func.value.id == "dict" \
                    and e.func.attr == "fromkeys" and self.lookup(scope, "dict")[0] == "builtin":
                return max([P(a) for a in e.args] + [CONST])
            d = self.dotted(scope, e.func)
            if d in PURE_OS_PATH or (d is not None and d.startswith(PURE_EXT_PREFIX)):
                return max([P(a) for a in e.args] + [P(k.value) for k in e.keywords] + [CONST])
            if isinstance(e.func, ast.Name):
                r = self.lookup(scope, e.func.id)
                if r[0] == "class":
                    # an instance built by a package class holds what it was given
                    return max([P(a) for a in e.args] + [P(k.value) for k in e.keywords] + [CONST])
                if r[0] == "scope" and r[1].kind == "func":
                    return self.prov_return(scope, e, r[1], depth, seen)
            if isinstance(e.func, ast.Attribute) and e.func.attr in ("get", "pop", "setdefault"):
                # an element of the container or the default: the key does not contribute
                return max([P(e.func.value)] + [P(a) for a in e.args[1:]])
            if isinstance(e.func, ast.Attribute) and e.func.attr in PURE_STR_METHODS:
                base = P(e.func.value)
                return max([base] + [P(a) for a in e.args] + [P(k.value) for k in e.keywords])
            if isinstance(e.func, ast.Name) and e.func.id in ("str", "repr", "int", "float", "len", "list", "tuple", "sorted",
                                                             "dict", "set", "bool", "min", "max", "sum", "abs", "round", "range",
                                                             "enumerate", "zip", "reversed", "hash", "frozenset", "map", "filter",
                                                             "any", "all", "isinstance", "type", "id", "iter", "next", "divmod",
                                                             "pow", "ord", "chr", "complex", "slice") \
                    and self.lookup(scope, e.func.id)[0] == "builtin":
                return max([P(a) for a in e.args] + [P(k.value) for k in e.keywords] + [CONST])
            return TEXT
        if isinstance(e, (ast.ListComp, ast.SetComp, ast.GeneratorExp)):
            return max([P(e.elt)] + [P(g.iter) for g in e.generators])
        if isinstance(e, ast.DictComp):
            return max([P(e.key), P(e.value)] + [P(g.iter) for g in e.generators])
        if isinstance(e, ast.Compare):
            return CONST
        return TEXT

    def prov_return(self, scope, call, callee, depth, seen):
        """provenance of the value a package function returns at this call site: join of its return expressions with the
        parameters bound to the provenance of the actual arguments (one calling context, depth-limited)"""
        if depth > 8 or any(isinstance(a, ast.Starred) for a in call.args) or any(k.arg is None for k in call.keywords):
            return TEXT
        key = callee.id
        if key in self._ret_stack:
            return CONST        # recursion: contributes nothing new
        env = {}
        params = callee.params
        for i, a in enumerate(call.args):
            if i < len(params):
                env[params[i]] = self.prov(scope, a, depth + 1, seen)
            else:
                return TEXT
        for k in call.keywords:
            if k.arg in params or k.arg in callee.kwonly:
                env[k.arg] = self.prov(scope, k.value, depth + 1, seen)
            else:
                return TEXT
        for pn in params + callee.kwonly:
            env.setdefault(pn, CONST)        # default value: a constant of the program
        rets = [n for n in getattr(callee, "nodes", []) if isinstance(n, ast.Return)]
        if any(isinstance(n, (ast.Yield, ast.YieldFrom)) for n in getattr(callee, "nodes", [])):
            return TEXT
        self._ret_stack.append(key)
        self._penv.append((callee.id, env))
        try:
            out = CONST
            for rn in rets:
                if rn.value is not None:
                    out = max(out, self.prov(callee, rn.value, depth + 1, set()))
            return out
        finally:
            self._penv.pop()
            self._ret_stack.pop()

    def prov_name(self, scope, name, depth, seen):
        r = self.lookup(scope, name)
        if r[0] == "var" and not seen and not self._penv:
            ck = (r[1].id, name)
            if ck in self._name_cache:
                return self._name_cache[ck]
            v = self._prov_name(scope, name, depth, seen, r)
            self._name_cache[ck] = v
            return v
        return self._prov_name(scope, name, depth, seen, r)

    def _prov_name(self, scope, name, depth, seen, r):
        if r[0] == "var":
            s = r[1]
            key = (s.id, name)
            if key in seen:
                return CONST     # cycle: contributes nothing new (join identity)
            seen = seen | {key}
            out = CONST
            if name in s.assigns:
                if s.kind == "module":
                    out = REGISTRY       # module / class level data of the program
                for v in s.assigns[name]:
                    out = max(out, self.prov(s, v, depth + 1, seen))
            if name in s.params or name in s.kwonly or name in (getattr(s, "vararg", None), getattr(s, "kwarg", None)):
                out = max(out, self.prov_param(s, name, depth, seen))
            return out
        if r[0] == "pkgvar":
            mm = self.mods[r[1]]
            if r[2] in mm.scope.assigns:
                return self.prov_name(mm.scope, r[2], depth, seen)
            return TEXT
        if r[0] in ("scope", "class", "mod", "ext", "builtin"):
            return CONST        # a code object / module of the program itself
        return TEXT

    def prov_param(self, s, name, depth, seen):
        if name in ("filename",):
            return FILENAME
        for sid, env in reversed(self._penv):
            if sid == s.id and name in env:
                return env[name]
        if s.kind != "func" or name in ("self", "cls"):
            return TEXT
        bare = s.qual.split(".")[-1]
        private = bare.startswith("_") and not (bare.startswith("__") and bare.endswith("__"))
        if not private or bare in self.addr_taken_names():
            return TEXT
        # join over the in-package call sites (by bare name)
        key = (s.id, name)
        if key in self._param_cache and self._param_cache[key] is not None:
            return self._param_cache[key]
        self._param_cache[key] = TEXT      # recursion guard
        is_method = s.cls is not None or "." in s.qual and s.qual.split(".")[0] in s.mod.classes
        params = s.params[1:] if is_method and s.params and s.params[0] in ("self", "cls") else s.params
        out, found = CONST, False
        for cs in self.scopes.values():
            for n in getattr(cs, "nodes", []):
                if not isinstance(n, ast.Call):
                    continue
                f = n.func
                fname = f.id if isinstance(f, ast.Name) else f.attr if isinstance(f, ast.Attribute) else None
                if fname != bare:
                    continue
                found = True
                if any(isinstance(a, ast.Starred) for a in n.args) or any(k.arg is None for k in n.keywords):
                    out = TEXT
                    continue
                args = list(n.args)
                # unbound call Class.method(self, ...)
                if is_method and isinstance(f, ast.Attribute) and isinstance(f.value, ast.Name) and \
                        self.lookup(cs, f.value.id)[0] == "class" and len(args) > len(params):
                    args = args[1:]
                if name in params and params.index(name) < len(args):
                    out = max(out, self.prov(cs, args[params.index(name)], depth + 1, seen))
                elif any(k.arg == name for k in n.keywords):
                    out = max(out, self.prov(cs, [k.value for k in n.keywords if k.arg == name][0], depth + 1, seen))
                elif name == getattr(s, "vararg", None):
                    out = max([out] + [self.prov(cs, a, depth + 1, seen) for a in args[len(params):]])
                elif name == getattr(s, "kwarg", None):
                    out = max([out] + [self.prov(cs, k.value, depth + 1, seen) for k in n.keywords if k.arg not in params])
                # else: default value is used -> a constant of the program
        res = out if found else TEXT
        self._param_cache[key] = res
        return res

    def addr_taken_names(self):
        return self.addr_taken

    # ------------------------------------------------------------ edges and sinks
    def finish(self):
        # address-taken: def names used as values (not as the callee of a call)
        callee_ids = set()
        for s in self.scopes.values():
            for n in getattr(s, "nodes", []):
                if isinstance(n, ast.Call):
                    callee_ids.add(id(n.func))
        for s in self.scopes.values():
            for n in getattr(s, "nodes", []):
                if isinstance(n, ast.Name) and isinstance(n.ctx, ast.Load) and id(n) not in callee_ids and n.id in self.by_name:
                    self.addr_taken.add(n.id)
                if isinstance(n, ast.Attribute) and isinstance(n.ctx, ast.Load) and id(n) not in callee_ids and n.attr in self.by_name \
                        and n.attr not in self.props:
                    self.addr_taken.add(n.attr)
        # scopes created late (lambda scopes) may not have been analysed
        for s in list(self.scopes.values()):
            if not getattr(s, "done", False):
                self.analyse_scope(s)
        for s in list(self.scopes.values()):
            self.scope_edges(s)
        self.implicit = sorted(s.id for s in self.scopes.values()
                               if s.kind == "func" and s.qual.split(".")[-1].startswith("__") and s.qual.split(".")[-1].endswith("__"))
        self.implicit = sorted(set(self.implicit) | {x for acc in self.props.values() for x in acc if x in self.scopes})
        # generator functions are resumed by whoever iterates and finalised by the garbage collector in any frame
        gens = {s.id for s in self.scopes.values()
                if any(isinstance(n, (ast.Yield, ast.YieldFrom)) for n in getattr(s, "nodes", []))}
        self.implicit = sorted(set(self.implicit) | gens)
        dyn = set()
        for s in self.scopes.values():
            bare = s.qual.split(".")[-1]
            if s.kind == "lambda" or (s.kind == "func" and (bare in self.str_consts or bare in self.addr_taken)):
                dyn.add(s.id)
        self.dyn = sorted(dyn)

    def call_targets_by_name(self, name):
        return [s.id for s in self.by_name.get(name, [])]

    def scope_edges(self, scope):
        m = scope.mod
        E = scope.edges
        E.add("IMPLICIT")
        for n in scope.nodes:
            if isinstance(n, (ast.Import, ast.ImportFrom)):
                pass
            if isinstance(n, ast.Attribute) and n.attr in self.props:
                E.update(x for x in self.props[n.attr] if x in self.scopes)
            if isinstance(n, ast.Call):
                self.call(scope, n)
        self.state_sinks(scope)
        if scope.kind == "module":
            # import-protocol hooks become callable by the import system once their module has run
            for c in m.classes.values():
                for meth in ("find_spec", "find_module", "create_module", "exec_module", "load_module"):
                    if meth in c["methods"]:
                        E.add(c["methods"][meth].id)
        for dn in scope.import_stmts:
            # importing a.b.c runs a, a.b and a.b.c
            parts = dn.split(".")
            for i in range(1, len(parts) + 1):
                mn = ".".join(parts[:i])
                if mn in self.mods:
                    E.add(self.mods[mn].scope.id)

    def state_sinks(self, scope):
        """process-wide state fed by a function: memoising / unknown decorators, stores into module-level or class-level
        containers and attributes.  (Module and class bodies themselves only build the program's own data.)"""
        if scope.kind == "module":
            return
        for d in getattr(scope, "decorators", []):
            u = ast.unparse(d.func if isinstance(d, ast.Call) else d)
            base = u.split(".")[-1]
            if u in SAFE_DECORATORS or base in ("setter", "getter", "deleter"):
                continue
            # a memoising decorator keeps every argument and result for the life of the process; an unknown one may
            provs = [self.prov_param(scope, pn, 0, set()) for pn in scope.params + scope.kwonly if pn not in ("self", "cls")]
            if getattr(scope, "vararg", None) or getattr(scope, "kwarg", None):
                provs.append(TEXT)
            if base not in CACHE_DECORATORS:
                provs.append(TEXT)
            self.add_sink(scope, "KState", d, provs, False, "@" + u)
        for n in scope.nodes:
            targets, value = [], None
            if isinstance(n, ast.Assign):
                targets, value = n.targets, n.value
            elif isinstance(n, (ast.AugAssign, ast.AnnAssign)) and getattr(n, "value", None) is not None:
                targets, value = [n.target], n.value
            elif isinstance(n, ast.Delete):
                targets, value = n.targets, ast.Constant(value=None)
            for t in targets:
                for tt in (t.elts if isinstance(t, (ast.Tuple, ast.List)) else [t]):
                    if isinstance(tt, (ast.Subscript, ast.Attribute)) and self.global_root(scope, tt):
                        idx = [tt.slice] if isinstance(tt, ast.Subscript) else []
                        self.add_sink(scope, "KState", n, [self.prov(scope, value)] + [self.prov(scope, i) for i in idx], False,
                                      "store " + ast.unparse(tt)[:40])
            if isinstance(n, ast.Call) and isinstance(n.func, ast.Attribute) and n.func.attr in MUTATING_METHODS \
                    and self.global_root(scope, n.func.value, whole=True):
                self.add_sink(scope, "KState", n, self.arg_provs(scope, n), False, "mutate " + ast.unparse(n.func)[:40])

    def global_root(self, scope, target, whole=False):
        """does the store target / receiver live in module-level, class-level or external-module state?"""
        base = target if whole else target.value
        chain = []
        while isinstance(base, (ast.Subscript, ast.Attribute)):
            if isinstance(base, ast.Attribute):
                chain.append(base.attr)
            base = base.value
        if not isinstance(base, ast.Name):
            return False
        if base.id in ("self", "cls"):
            return "__class__" in chain or base.id == "cls"
        r = self.lookup(scope, base.id)
        if r[0] == "var":
            return r[1].kind == "module"
        return r[0] in ("pkgvar", "class", "mod", "ext", "scope")

    def add_sink(self, scope, kind, node, args, flag=False, what=""):
        scope.sinks.append({"node": scope.id, "kind": kind, "line": node.lineno, "args": args, "flag": flag, "what": what})

    def arg_provs(self, scope, call):
        return [self.prov(scope, a) for a in call.args] + [self.prov(scope, k.value) for k in call.keywords]

    def open_read_mode(self, call):
        mode = None
        if len(call.args) >= 2:
            mode = call.args[1]
        for k in call.keywords:
            if k.arg == "mode":
                mode = k.value
        if mode is None:
            return True
        return isinstance(mode, ast.Constant) and isinstance(mode.value, str) and set(mode.value) <= set("rbtU")

    def external(self, scope, call, d):
        if d in PURE_OS_PATH:
            return
        if d in OPEN_NAMES:
            self.add_sink(scope, "KOpen", call, self.arg_provs(scope, call), self.open_read_mode(call) and d.split(".")[-1] not in ("save", "savetxt"), d)
            return
        for pre, kind in SINK_PREFIX:
            if (d + ".").startswith(pre):
                self.add_sink(scope, kind, call, self.arg_provs(scope, call), False, d)
                return

    def call(self, scope, n):
        E = scope.edges
        f = n.func
        if isinstance(f, ast.Name):
            r = self.lookup(scope, f.id)
            if r[0] == "scope":
                E.add(r[1].id)
            elif r[0] == "class":
                E.update(self.class_init(r[1], r[2]))
            elif r[0] == "ext":
                self.external(scope, n, r[1])
            elif r[0] == "builtin":
                if f.id in BUILTIN_SINKS:
                    kind = BUILTIN_SINKS[f.id]
                    if kind in ("KSetattr", "KGetattr") and len(n.args) >= 2 and isinstance(n.args[1], ast.Constant):
                        return          # literal attribute name: ordinary attribute access
                    if kind == "KOpen":
                        self.add_sink(scope, kind, n, self.arg_provs(scope, n), self.open_read_mode(n), f.id)
                    else:
                        self.add_sink(scope, kind, n, self.arg_provs(scope, n), False, f.id)
                    if kind in ("KExec", "KEval", "KImport"):
                        # code run / imported from a string may import any module of the package and call anything in it
                        E.add("DYN")
                        provs = self.arg_provs(scope, n)
                        if scope.mod.name == PKG + ".parsers" and max(provs + [CONST]) <= REGISTRY:
                            # the string is assembled from registry constants: it can only name registered parser modules
                            regs = [PKG + ".parsers." + p["module"] for p in registry(self).values()]
                            E.update(self.mods[r].scope.id for r in regs if r in self.mods)
                        else:
                            E.update(mm.scope.id for mm in self.mods.values())
            elif r[0] == "var":
                # a local alias of a package function keeps its target; anything else is a dynamic call
                tg = self.alias_targets(r[1], f.id)
                E.update(tg if tg is not None else ["DYN"])
            elif r[0] == "mod":
                E.add("DYN")
            else:
                E.add("DYN")
            return
        if isinstance(f, ast.Attribute):
            d = self.dotted(scope, f)
            if d is not None:
                if d.startswith(PKG + ".") or d == PKG:
                    tg = self.package_attr(d)
                    E.update(tg if tg is not None else ["DYN"])
                else:
                    self.external(scope, n, d)
                return
            # Class.method(...) with a package class
            if isinstance(f.value, ast.Name):
                r = self.lookup(scope, f.value.id)
                if r[0] == "class":
                    tg = self.method_in_class(r[1], r[2], f.attr)
                    E.update(tg if tg else self.call_targets_by_name(f.attr) or ["DYN"])
                    return
            if f.attr in DANGEROUS_METHODS:
                # effectful method name on a receiver the analysis cannot resolve (e.g. a module held in a variable)
                self.add_sink(scope, DANGEROUS_METHODS[f.attr], n, [TEXT] + self.arg_provs(scope, n), False, "?." + f.attr)
            if f.attr == "format" and not isinstance(f.value, ast.Constant):
                self.add_sink(scope, "KFormat", n, [self.prov(scope, f.value)] + self.arg_provs(scope, n), False, "str.format")
            E.update(self.call_targets_by_name(f.attr))
            return
        E.add("DYN")

    def method_in_class(self, m, cname, meth, seen=None):
        seen = seen or set()
        if (m.name, cname) in seen:
            return []
        seen.add((m.name, cname))
        c = m.classes[cname]
        if meth in c["methods"]:
            return [c["methods"][meth].id]
        out = []
        for b in c["bases"]:
            if "." not in b:
                r = self.lookup(m.scope, b)
                if r[0] == "class":
                    out += self.method_in_class(r[1], r[2], meth, seen)
        return out

    def alias_targets(self, s, name):
        vals = s.assigns.get(name, [])
        if len(vals) != 1 or isinstance(vals[0], tuple) or name in s.params:
            return None
        v = vals[0]
        d = self.dotted(s, v) if isinstance(v, (ast.Attribute, ast.Name)) else None
        if d and (d.startswith(PKG + ".")):
            return self.package_attr(d)
        if isinstance(v, ast.Name):
            r = self.lookup(s, v.id)
            if r[0] == "scope":
                return [r[1].id]
        return None


# ---------------------------------------------------------------- entry points and output
def registry(an):
    m = an.mods[PKG + ".parsers.parser_index_mod"]
    for st in m.tree.body:
        if isinstance(st, ast.Assign) and len(st.targets) == 1 and isinstance(st.targets[0], ast.Name) \
                and st.targets[0].id == "parser_index":
            try:
                return ast.literal_eval(st.value)
            except Exception:
                _refuse(m.name, st, "parser_index is not a literal")
    raise TranslatorRefusal("parser_index not found")


def entries(an):
    reg = registry(an)
    ids, wids = set(), set()
    for fmt, p in reg.items():
        mn = PKG + ".parsers." + p["module"]
        if mn not in an.mods:
            raise TranslatorRefusal("registered parser module %s not found" % mn)
        mm = an.mods[mn]
        if "getParser" not in mm.funcs:
            raise TranslatorRefusal("%s has no getParser" % mn)
        ids.add(mm.funcs["getParser"].id)
        ids.add(mm.scope.id)
        for cname, c in mm.classes.items():
            for meth in ("parse", "parseLines", "parseFile", "__init__"):
                ids.update(an.method_in_class(mm, cname, meth))
            for meth in ("tostring", "toLines"):
                wids.update(an.method_in_class(mm, cname, meth))
    pm = an.mods[PKG + ".parsers"]
    ids.add(pm.funcs["getParser"].id)
    ids.add(pm.funcs["inputFormats"].id)
    ids.add(pm.scope.id)
    sm = an.mods[PKG + ".structure"]
    for meth in ("read", "readStr"):
        ids.update(an.method_in_class(sm, "Structure", meth))
    for meth in ("write", "writeStr"):
        wids.update(an.method_in_class(sm, "Structure", meth))
    root = an.mods[PKG]
    if "loadStructure" not in root.funcs:
        raise TranslatorRefusal("loadStructure not found")
    ids.add(root.funcs["loadStructure"].id)
    ids.add(root.scope.id)
    return sorted(ids), sorted(wids), reg


def analyse(src=None):
    an = Analysis(src)
    ent, went, reg = entries(an)
    ids = sorted(an.scopes)
    index = {"IMPLICIT": 0, "DYN": 1}
    for i, k in enumerate(ids):
        index[k] = i + 2
    graph = {"IMPLICIT": sorted(an.implicit), "DYN": sorted(an.dyn)}
    sinks = []
    for k in ids:
        s = an.scopes[k]
        graph[k] = sorted(x for x in s.edges if x in index)
        sinks += s.sinks
    # python-side reachability (for the harness; Coq recomputes it)
    def reach(starts):
        seen, todo = set(starts), list(starts)
        while todo:
            x = todo.pop()
            for y in graph.get(x, []):
                if y not in seen:
                    seen.add(y)
                    todo.append(y)
        return seen
    imports = {k: sorted(set(an.scopes[k].import_stmts)) for k in ids if an.scopes[k].import_stmts}
    return {"an": an, "index": index, "graph": graph, "sinks": sinks, "entries": ent, "write_entries": went,
            "registry": reg, "reach": reach(ent), "reach_write": reach(went), "imports": imports}


def coq_str(s):
    return '"%s"' % s.replace('"', '""')


def generate():
    a = analyse()
    ix = a["index"]
    out = ["(* GENERATED by translate/c17_effects.py: call graph, sinks and argument provenance of diffpy.structure *)",
           "From Coq Require Import NArith List Bool String.", "From DS Require Import Model.C17_Effects.",
           "Import ListNotations.", "Open Scope N_scope.", ""]
    out.append("Definition gen_graph : graph := [")
    rows = []
    for k, i in sorted(ix.items(), key=lambda kv: kv[1]):
        rows.append("  (%d, [%s]) (* %s *)" % (i, "; ".join(str(ix[x]) for x in a["graph"][k]), k.replace("*)", "* )")))
    out.append(";\n".join(rows))
    out.append("].\n")
    out.append("Definition gen_entries : list N := [%s]." % "; ".join(str(ix[e]) for e in a["entries"]))
    out.append("Definition gen_write_entries : list N := [%s].\n" % "; ".join(str(ix[e]) for e in a["write_entries"]))
    out.append("Definition gen_sinks : list sink := [")
    rows = []
    for s in a["sinks"]:
        rows.append("  Sink %d %s %d [%s] %s (* %s line %d: %s *)" % (
            ix[s["node"]], s["kind"], s["line"], "; ".join(PNAME[p] for p in s["args"]), "true" if s["flag"] else "false",
            s["node"], s["line"], s["what"]))
    out.append(";\n".join(rows))
    out.append("].\n")
    reg = a["registry"]
    mods = sorted({p["module"] for p in reg.values()})
    out.append("Open Scope string_scope.")
    out.append("Definition gen_registry_modules : list string := [%s]." % "; ".join(coq_str(m) for m in mods))
    # the import command template of parsers.getParser
    pm = a["an"].mods[PKG + ".parsers"]
    gp = pm.funcs["getParser"]
    tmpl = None
    for n in gp.nodes:
        if isinstance(n, ast.Assign) and isinstance(n.value, ast.BinOp) and isinstance(n.value.op, ast.Mod) \
                and isinstance(n.value.left, ast.Constant) and isinstance(n.value.left.value, str) \
                and isinstance(n.targets[0], ast.Name) and n.targets[0].id == "import_cmd":
            tmpl = n.value.left.value
    out.append("Definition gen_import_template : string := %s." % coq_str(tmpl if tmpl is not None else "<none>"))
    out.append("Definition gen_node_names : list (N * string) := [")
    out.append(";\n".join("  (%d%%N, %s)" % (i, coq_str(k)) for k, i in sorted(ix.items(), key=lambda kv: kv[1])))
    out.append("].")
    out.append("Definition gen_getparser_node : N := %d%%N." % ix[gp.id])
    xcfg = sorted(ix[k] for k in ix if k.startswith(PKG + ".parsers.p_xcfg:"))
    out.append("Definition gen_xcfg_nodes : list N := [%s]%%N." % "; ".join(str(x) for x in xcfg))
    return {"Gen/C17_EffectGraph.v": "\n".join(out) + "\n"}


if __name__ == "__main__":
    import sys
    a = analyse()
    print(len(a["index"]), "nodes;", sum(len(v) for v in a["graph"].values()), "edges;", len(a["reach"]), "reachable from parse entries")
    for s in a["sinks"]:
        print("R" if s["node"] in a["reach"] else ("W" if s["node"] in a["reach_write"] else "-"), s["kind"], s["node"], s["line"],
              [PNAME[p] for p in s["args"]], s["flag"], s["what"])
    if len(sys.argv) > 1:
        print(generate()["Gen/C17_EffectGraph.v"][:3000])
