"""Fail-closed translator for C12: the parser registry and the detection loop -> Gen/C12_ParserIndex.v

 * parsers/parser_index_mod.py : the dict literal `parser_index` (module, file_extension, file_pattern, has_input, has_output)
 * parsers/__init__.py         : inputFormats / outputFormats = sorted names with has_input / has_output (shape checked)
 * parsers/p_auto.py           : _getOrderedFormats (shape checked against the rule the model implements: formats whose
                                 pattern matches the file's base name are moved to the front, one after the other) and
                                 _wrapParseMethod (shape checked; its except clauses are extracted: which kinds are collected
                                 as `fmt: message`, which are skipped)
Shapes are compared after removing docstrings and imports and renaming local variables canonically, so a renamed local or
a moved import is followed; anything else is refused.
"""
import ast
import os

from vlib.core import SRC, TranslatorRefusal

SETUP = True

KIND_OF = {"StructureFormatError": "FormatError", "NotImplementedError": "NotImplemented", "Exception": "ExceptionK",
           "ValueError": "ValueError", "IndexError": "IndexError", "KeyError": "KeyError", "TypeError": "TypeError",
           "RuntimeError": "RuntimeError", "LookupError": "LookupError", "ArithmeticError": "ArithmeticError"}


def _refuse(fn, node, why):
    raise TranslatorRefusal("%s:%s: %s" % (os.path.basename(fn), getattr(node, "lineno", "?"), why))


def normalised(fdef, wildcard_handlers=False):
    """Source of the function with docstrings/imports dropped and locals renamed v0, v1, ... by first binding."""
    f = ast.parse(ast.unparse(fdef)).body[0]
    names = {}

    def bind(n):
        if n not in names:
            names[n] = "v%d" % len(names)

    for a in f.args.args:
        bind(a.arg)
    occ = []
    for node in ast.walk(f):
        if isinstance(node, ast.Name) and isinstance(node.ctx, ast.Store):
            occ.append((node.lineno, node.col_offset, node.id))
        if isinstance(node, ast.ExceptHandler) and node.name:
            occ.append((node.lineno, node.col_offset, node.name))
    for _, _, n in sorted(occ):
        bind(n)

    class R(ast.NodeTransformer):
        def visit_Name(self, node):
            if node.id in names:
                node.id = names[node.id]
            return node

        def visit_arg(self, node):
            if node.arg in names:
                node.arg = names[node.arg]
            return node

        def visit_ExceptHandler(self, node):
            self.generic_visit(node)
            if node.name in names:
                node.name = names[node.name]
            if wildcard_handlers:
                node.type = ast.Name(id="HANDLED", ctx=ast.Load())
            return node

    f = R().visit(f)

    def strip(body):
        out = []
        for s in body:
            if isinstance(s, ast.Expr) and isinstance(s.value, ast.Constant) and isinstance(s.value.value, str):
                continue
            if isinstance(s, (ast.Import, ast.ImportFrom)):
                continue
            for fld in ("body", "orelse", "finalbody"):
                if hasattr(s, fld) and isinstance(getattr(s, fld), list):
                    setattr(s, fld, strip(getattr(s, fld)) or ([ast.Pass()] if fld == "body" else []))
            if isinstance(s, ast.Try):
                for h in s.handlers:
                    h.body = strip(h.body) or [ast.Pass()]
            out.append(s)
        return out

    f.body = strip(f.body)
    f.name = "F"
    f.decorator_list = []
    f.returns = None
    return ast.unparse(ast.fix_missing_locations(f))


EXPECT_ORDERED = '''def F(v0):
    v1 = [v2 for v2 in inputFormats() if v2 != 'auto']
    if not v0.filename:
        return v1
    v3 = os.path.basename(v0.filename)
    for v2 in list(v1):
        v4 = parser_index[v2]['file_pattern']
        if v4 in ('*.*', '*'):
            continue
        v5 = [1 for v6 in v4.split('|') if fnmatch(v3, v6)]
        if v5:
            v1.remove(v2)
            v1.insert(0, v2)
    return v1'''

EXPECT_WRAP = '''def F(v0, v1, *args, **kwargs):
    v2 = v0._getOrderedFormats()
    v3 = None
    v4 = []
    for v5 in v2:
        v6 = getParser(v5, **v0.pkw)
        try:
            v7 = getattr(v6, v1)
            v3 = v7(*args, **kwargs)
            v0.format = v5
            break
        except HANDLED as v8:
            v4.append('%s: %s' % (v5, v8))
        except HANDLED:
            pass
    if v3 is None:
        v9 = '\\n'.join(['Unknown or invalid structure format.', 'Errors per each tested structure format:'] + v4)
        raise StructureFormatError(v9)
    v0.__dict__.update(v6.__dict__)
    return v3'''

# the loop after the repair of "a parser returning None ends detection": None counts as that parser's complaint
EXPECT_WRAP_NONE_CONTINUES = EXPECT_WRAP.replace(
    """            v3 = v7(*args, **kwargs)
            v0.format = v5
            break
""", """            v3 = v7(*args, **kwargs)
            if v3 is None:
                v4.append('%s: no structure found' % v5)
                continue
            v0.format = v5
            break
""")

EXPECT_FORMATS = '''def F():
    v0 = [v1 for v1, v2 in parser_index.items() if v2['%s']]
    v0.sort()
    return v0'''


def find_func(tree, name, cls=None):
    for node in ast.walk(tree):
        if cls and isinstance(node, ast.ClassDef) and node.name == cls:
            for st in node.body:
                if isinstance(st, ast.FunctionDef) and st.name == name:
                    return st
    if cls is None:
        for st in tree.body:
            if isinstance(st, ast.FunctionDef) and st.name == name:
                return st
    return None


def registry():
    fn = os.path.join(SRC, "parsers", "parser_index_mod.py")
    tree = ast.parse(open(fn).read(), fn)
    d = None
    for st in tree.body:
        if isinstance(st, ast.Assign) and len(st.targets) == 1 and isinstance(st.targets[0], ast.Name) \
                and st.targets[0].id == "parser_index":
            d = st.value
    if not isinstance(d, ast.Dict):
        raise TranslatorRefusal("parser_index_mod.py: `parser_index = {...}` literal not found")
    out = []
    for k, v in zip(d.keys, d.values):
        if not (isinstance(k, ast.Constant) and isinstance(k.value, str) and isinstance(v, ast.Dict)):
            _refuse(fn, k or d, "registry entry is not  \"name\": {...}")
        ent = {}
        for kk, vv in zip(v.keys, v.values):
            if not (isinstance(kk, ast.Constant) and isinstance(vv, ast.Constant)):
                _refuse(fn, v, "registry field is not a literal")
            ent[kk.value] = vv.value
        if set(ent) != {"module", "file_extension", "file_pattern", "has_input", "has_output"}:
            _refuse(fn, v, "registry entry has fields %s" % sorted(ent))
        if not all(isinstance(ent[x], str) for x in ("module", "file_extension", "file_pattern")) \
                or not all(isinstance(ent[x], bool) for x in ("has_input", "has_output")):
            _refuse(fn, v, "registry field has an unexpected type")
        for pat in ent["file_pattern"].split("|"):
            # the model's fnmatch understands `*.<literal>` (and the two catch-all patterns the loop skips)
            if pat in ("*.*", "*"):
                continue
            if not (pat.startswith("*.") and len(pat) > 2 and not any(c in pat[2:] for c in "*?[]")):
                _refuse(fn, v, "file pattern %r is outside the modelled `*.ext` class" % pat)
        if k.value in [e["name"] for e in out]:
            _refuse(fn, k, "duplicate registry key %r" % k.value)
        ent["name"] = k.value
        out.append(ent)
    return out


def detection_loop():
    fn = os.path.join(SRC, "parsers", "p_auto.py")
    tree = ast.parse(open(fn).read(), fn)
    f = find_func(tree, "_getOrderedFormats", "P_auto")
    if f is None:
        raise TranslatorRefusal("p_auto.py: P_auto._getOrderedFormats not found")
    if normalised(f) != EXPECT_ORDERED:
        _refuse(fn, f, "_getOrderedFormats is not the ordering rule the model implements:\n" + normalised(f))
    w = find_func(tree, "_wrapParseMethod", "P_auto")
    if w is None:
        raise TranslatorRefusal("p_auto.py: P_auto._wrapParseMethod not found")
    shape = normalised(w, wildcard_handlers=True)
    if shape == EXPECT_WRAP:
        none_continues = False
    elif shape == EXPECT_WRAP_NONE_CONTINUES:
        none_continues = True
    else:
        _refuse(fn, w, "_wrapParseMethod is not the detection loop the model implements:\n" + shape)
    handlers = []
    for node in ast.walk(w):
        if isinstance(node, ast.Try):
            for h in node.handlers:
                elts = h.type.elts if isinstance(h.type, ast.Tuple) else [h.type]
                kinds = []
                for e in elts:
                    nm = e.id if isinstance(e, ast.Name) else getattr(e, "attr", "?")
                    if nm not in KIND_OF:
                        _refuse(fn, h, "exception class %s is not in the kind table" % nm)
                    kinds.append(KIND_OF[nm])
                handlers.append(kinds)
    if len(handlers) != 2:
        _refuse(fn, w, "expected two except clauses")
    for meth in ("parse", "parseLines", "parseFile"):
        m = find_func(tree, meth, "P_auto")
        if m is None:
            raise TranslatorRefusal("p_auto.py: P_auto.%s not found" % meth)
        src = normalised(m)
        exp = {"parse": "def F(v0, v1):\n    return v0._wrapParseMethod('parse', v1)",
               "parseLines": "def F(v0, v1):\n    return v0._wrapParseMethod('parseLines', v1)",
               "parseFile": "def F(v0, v1):\n    v0.filename = v1\n    return v0._wrapParseMethod('parseFile', v1)"}[meth]
        if src != exp:
            _refuse(fn, m, "P_auto.%s is not a plain call of _wrapParseMethod:\n%s" % (meth, src))
    fn2 = os.path.join(SRC, "parsers", "__init__.py")
    tree2 = ast.parse(open(fn2).read(), fn2)
    for nm, fld in (("inputFormats", "has_input"), ("outputFormats", "has_output")):
        g = find_func(tree2, nm)
        if g is None or normalised(g) != EXPECT_FORMATS % fld:
            _refuse(fn2, g or tree2, "%s is not `sorted names with %s`" % (nm, fld))
    return handlers, none_continues


def coq_str(s):
    return '"' + s.replace('"', '""') + '"'


def generate():
    reg = registry()
    handlers, none_continues = detection_loop()
    L = ["(* GENERATED by translate/c12_index.py from parsers/parser_index_mod.py, parsers/__init__.py, parsers/p_auto.py *)",
         "From Coq Require Import List String Bool.", "From DS Require Import Base.C13_Exn.", "Import ListNotations.",
         "Open Scope string_scope.", "",
         "Record fmt_entry := { fe_name : string; fe_module : string; fe_ext : string; fe_patterns : list string;",
         "                      fe_input : bool; fe_output : bool }.", "",
         "Definition parser_index : list fmt_entry := ["]
    rows = []
    for e in reg:
        rows.append("  {| fe_name := %s; fe_module := %s; fe_ext := %s; fe_patterns := [%s]; fe_input := %s; fe_output := %s |}" % (
            coq_str(e["name"]), coq_str(e["module"]), coq_str(e["file_extension"]),
            "; ".join(coq_str(p) for p in e["file_pattern"].split("|")),
            "true" if e["has_input"] else "false", "true" if e["has_output"] else "false"))
    L.append(";\n".join(rows))
    L.append("].")
    L.append("")
    L.append("(* except clauses of P_auto._wrapParseMethod, in source order: the first collects `fmt: message`, the second skips *)")
    L.append("Definition auto_collect_caught : list kind := [%s]." % "; ".join(handlers[0]))
    L.append("Definition auto_skip_caught : list kind := [%s]." % "; ".join(handlers[1]))
    L.append("(* a parser that returns None: true = recorded as `fmt: no structure found` and detection continues; false = detection stops *)")
    L.append("Definition auto_none_continues : bool := %s." % ("true" if none_continues else "false"))
    return {"Gen/C12_ParserIndex.v": "\n".join(L) + "\n"}


if __name__ == "__main__":
    print(generate()["Gen/C12_ParserIndex.v"])
