"""Fail-closed symbolic translator: lattice.py -> Gen/LatFormulas.v

Straight-line numeric Python (assignments, optional-argument guards, raise-guards) is executed symbolically:
every value is a typed Gallina term (S scalar, V 3-vector, M 3x3 matrix, OS/OM optional), every assignment
becomes a `let`.  The class' properties are read from the `property(lambda self: self._x, ...)` definitions
and from `@property` methods (inlined).  A closed set of numpy/math operations is understood; anything else
raises TranslatorRefusal with file:line.
"""
import ast
import os
from fractions import Fraction

from vlib.core import SRC, TranslatorRefusal

SETUP = True
FN = "lattice.py"

SCALARS = ["a", "b", "c", "alpha", "beta", "gamma", "ca", "cb", "cg", "sa", "sb", "sg", "ar", "br", "cr",
           "alphar", "betar", "gammar", "car", "cbr", "cgr", "sar", "sbr", "sgr"]
MATS = ["baserot", "base", "recbase", "normbase", "recnormbase", "metrics", "stdbase", "isotropicunit"]


def _refuse(node, why):
    raise TranslatorRefusal("%s:%s: %s" % (FN, getattr(node, "lineno", "?"), why))


def rlit(v):
    """Python number -> Coq real literal (exact decimal value of the literal's text)."""
    f = Fraction(repr(v)) if isinstance(v, float) else Fraction(v)
    if f.denominator == 1:
        return "(%d)" % f.numerator if f.numerator < 0 else "%d" % f.numerator
    return "(%d / %d)" % (f.numerator, f.denominator)


class Val:
    def __init__(self, ty, term):
        self.ty, self.term = ty, term


class Exec:
    """Symbolic execution of one method body."""

    def __init__(self, cls, selfstate, params, lines, prefix):
        self.cls = cls            # ClassInfo
        self.self = dict(selfstate)   # attr name (without underscore normalisation) -> Val
        self.loc = dict(params)   # local name -> Val
        self.lines = lines        # emitted `let` lines
        self.n = 0
        self.prefix = prefix
        self.pre = []             # negated raise guards

    def fresh(self, hint):
        self.n += 1
        return "%s_%s%d" % (self.prefix, hint.strip("_"), self.n)

    def bind(self, hint, val):
        name = self.fresh(hint)
        self.lines.append("let %s := %s in" % (name, val.term))
        return Val(val.ty, name)

    # ---- expressions ----
    def attr(self, node, name):
        # self.<name>
        if name in self.cls.alias:          # property returning self._x
            name = self.cls.alias[name]
        if name in self.cls.getters:        # @property method: inline
            return self.inline_getter(self.cls.getters[name])
        key = name.lstrip("_")
        if name == "_epsilon":
            return Val("S", self.cls.epsilon)
        if key in self.self:
            return self.self[key]
        _refuse(node, "unknown attribute self.%s" % name)

    def inline_getter(self, fdef):
        sub = Exec(self.cls, self.self, {}, self.lines, self.prefix + "p")
        sub.n = self.n + 100 * (len(self.lines) + 1)
        rv = sub.run_body(fdef.body, want_return=True)
        return rv

    def expr(self, e):
        if isinstance(e, ast.Constant) and isinstance(e.value, (int, float)) and not isinstance(e.value, bool):
            return Val("S", rlit(e.value))
        if isinstance(e, ast.Name):
            if e.id in self.loc:
                return self.loc[e.id]
            _refuse(e, "unknown name " + e.id)
        if isinstance(e, ast.Attribute) and isinstance(e.value, ast.Name) and e.value.id == "self":
            return self.attr(e, e.attr)
        if isinstance(e, ast.Attribute) and e.attr == "T":
            v = self.expr(e.value)
            if v.ty != "M":
                _refuse(e, ".T of a non-matrix")
            return Val("M", "(mT %s)" % v.term)
        if isinstance(e, ast.UnaryOp) and isinstance(e.op, ast.USub):
            v = self.expr(e.operand)
            if v.ty == "S":
                return Val("S", "(- %s)" % v.term)
            _refuse(e, "unary minus on non-scalar")
        if isinstance(e, ast.BinOp):
            return self.binop(e)
        if isinstance(e, ast.Call):
            return self.call(e)
        if isinstance(e, ast.Subscript):
            return self.subscript(e)
        if isinstance(e, ast.List):
            _refuse(e, "bare list literal outside a recognised broadcast")
        _refuse(e, "unrecognised expression " + type(e).__name__)

    def binop(self, e):
        op = e.op
        # broadcasting patterns: M * [[x],[y],[z]]  and  M / [x, y, z]
        if isinstance(op, ast.Mult) and isinstance(e.right, ast.List) and len(e.right.elts) == 3 \
                and all(isinstance(r, ast.List) and len(r.elts) == 1 for r in e.right.elts):
            m = self.expr(e.left)
            xs = [self.expr(r.elts[0]) for r in e.right.elts]
            if m.ty == "M" and all(x.ty == "S" for x in xs):
                return Val("M", "(mrowscale %s %s)" % (m.term, " ".join(x.term for x in xs)))
        if isinstance(op, ast.Div) and isinstance(e.right, ast.List) and len(e.right.elts) == 3:
            m = self.expr(e.left)
            xs = [self.expr(r) for r in e.right.elts]
            if m.ty == "M" and all(x.ty == "S" for x in xs):
                return Val("M", "(mcoldiv %s %s)" % (m.term, " ".join(x.term for x in xs)))
        if isinstance(op, ast.Pow):
            l = self.expr(e.left)
            if isinstance(e.right, ast.Constant) and e.right.value == 2:
                if l.ty == "S":
                    return Val("S", "(%s * %s)" % (l.term, l.term))
                if l.ty == "V":
                    return Val("V", "(vhad %s %s)" % (l.term, l.term))
            _refuse(e, "unrecognised power")
        l, r = self.expr(e.left), self.expr(e.right)
        sym = {ast.Add: "+", ast.Sub: "-", ast.Mult: "*", ast.Div: "/"}.get(type(op))
        if sym is None:
            _refuse(e, "unrecognised operator")
        if l.ty == "S" and r.ty == "S":
            return Val("S", "(%s %s %s)" % (l.term, sym, r.term))
        if l.ty == "V" and r.ty == "V":
            f = {"+": "vadd", "-": "vsub", "*": "vhad"}.get(sym)
            if f:
                return Val("V", "(%s %s %s)" % (f, l.term, r.term))
        if sym == "*" and l.ty == "S" and r.ty == "M":
            return Val("M", "(mscale %s %s)" % (l.term, r.term))
        if sym == "*" and l.ty == "M" and r.ty == "S":
            return Val("M", "(mscale %s %s)" % (r.term, l.term))
        if sym == "-" and l.ty == "M" and r.ty == "M":
            return Val("M", "(madd %s (mscale (-1) %s))" % (l.term, r.term))
        _refuse(e, "unrecognised operand shapes %s %s %s" % (l.ty, sym, r.ty))

    def call(self, e):
        f = ast.unparse(e.func)
        args = e.args
        if f in ("cosd", "sind") and len(args) == 1:
            v = self.expr(args[0])
            return Val("S", "(%s %s)" % (f, v.term))
        if f in ("math.sqrt", "numpy.sqrt") and len(args) == 1:
            v = self.expr(args[0])
            if v.ty == "S":
                return Val("S", "(sqrt %s)" % v.term)
        if f == "math.degrees" and len(args) == 1 and isinstance(args[0], ast.Call) and ast.unparse(args[0].func) == "math.acos":
            v = self.expr(args[0].args[0])
            return Val("S", "(acosd %s)" % v.term)
        if f == "abs" and len(args) == 1:
            v = self.expr(args[0])
            return Val("S", "(Rabs %s)" % v.term)
        if f == "float" and len(args) == 1:
            v = self.expr(args[0])
            if v.ty == "S":
                return v
        if f in ("numpy.array", "numpy.asarray"):
            kw = {k.arg: ast.unparse(k.value) for k in e.keywords}
            if kw not in ({}, {"dtype": "float"}) or len(args) != 1:
                _refuse(e, "numpy.array with unexpected arguments")
            a = args[0]
            if isinstance(a, ast.List) and len(a.elts) == 3 and all(isinstance(r, ast.List) and len(r.elts) == 3 for r in a.elts):
                es = [self.expr(x) for r in a.elts for x in r.elts]
                if all(x.ty == "S" for x in es):
                    return Val("M", "(M %s)" % " ".join(x.term for x in es))
            v = self.expr(a)
            if v.ty in ("M", "V"):
                return v
            _refuse(e, "numpy.array of unrecognised content")
        if f == "numpy.dot" and len(args) == 2:
            l, r = self.expr(args[0]), self.expr(args[1])
            if (l.ty, r.ty) == ("M", "M"):
                return Val("M", "(mmul %s %s)" % (l.term, r.term))
            if (l.ty, r.ty) == ("V", "M"):
                return Val("V", "(vmul %s %s)" % (l.term, r.term))
            if (l.ty, r.ty) == ("M", "V"):
                return Val("V", "(mvmul %s %s)" % (l.term, r.term))
            if (l.ty, r.ty) == ("V", "V"):
                return Val("S", "(vdot %s %s)" % (l.term, r.term))
            _refuse(e, "numpy.dot on shapes %s %s" % (l.ty, r.ty))
        if f == "numalg.inv" and len(args) == 1:
            v = self.expr(args[0])
            if v.ty == "M":
                return Val("M", "(minv %s)" % v.term)
        if f == "numalg.det" and len(args) == 1:
            v = self.expr(args[0])
            if v.ty == "M":
                return Val("S", "(det %s)" % v.term)
        if f == "numpy.transpose" and len(args) == 1:
            v = self.expr(args[0])
            if v.ty == "M":
                return Val("M", "(mT %s)" % v.term)
        if f in self.cls.module_funcs and len(args) == len(self.cls.module_funcs[f].args.args):
            fd = self.cls.module_funcs[f]
            params = {a.arg: self.expr(x) for a, x in zip(fd.args.args, args)}
            sub = Exec(self.cls, {}, params, self.lines, self.prefix + "f")
            sub.n = self.n + 100 * (len(self.lines) + 1)
            return sub.run_body(fd.body, want_return=True)
        # method call on self: self.cartesian(x), self.dot(u, v), self.norm(u)
        if isinstance(e.func, ast.Attribute) and isinstance(e.func.value, ast.Name) and e.func.value.id == "self" \
                and e.func.attr in self.cls.methods:
            fd = self.cls.methods[e.func.attr]
            ps = [a.arg for a in fd.args.args[1:]]
            if len(ps) != len(args):
                _refuse(e, "method arity")
            params = {p: self.expr(x) for p, x in zip(ps, args)}
            sub = Exec(self.cls, self.self, params, self.lines, self.prefix + "m")
            sub.n = self.n + 100 * (len(self.lines) + 1)
            return sub.run_body(fd.body, want_return=True)
        # (expr).sum(axis=-1)
        if isinstance(e.func, ast.Attribute) and e.func.attr == "sum" and not args \
                and [(k.arg, ast.unparse(k.value)) for k in e.keywords] == [("axis", "-1")]:
            v = self.expr(e.func.value)
            if v.ty == "V":
                return Val("S", "(vsum %s)" % v.term)
        _refuse(e, "unrecognised call " + f)

    def subscript(self, e):
        v = self.expr(e.value)
        s = ast.unparse(e.slice).strip("()")
        if v.ty == "M" and s in ("0, :", "1, :", "2, :"):
            return Val("V", "(row%d %s)" % (int(s[0]) + 1, v.term))
        _refuse(e, "unrecognised subscript [%s]" % s)

    # ---- statements ----
    def assign_target(self, t, val, node):
        if isinstance(t, ast.Name):
            self.loc[t.id] = val
        elif isinstance(t, ast.Attribute) and isinstance(t.value, ast.Name) and t.value.id == "self":
            key = t.attr.lstrip("_")
            if key not in SCALARS + MATS:
                _refuse(node, "assignment to unknown attribute self.%s" % t.attr)
            want = "S" if key in SCALARS else "M"
            if val.ty != want:
                _refuse(node, "self.%s assigned a %s" % (t.attr, val.ty))
            self.self[key] = val
        elif isinstance(t, ast.Subscript) and isinstance(t.value, ast.Name) and t.value.id in self.loc:
            m = self.loc[t.value.id]
            s = ast.unparse(t.slice).strip("()")
            if m.ty == "M" and s in ("0, 0", "1, 1", "2, 2") and val.ty == "S":
                i = int(s[0]) + 1
                self.loc[t.value.id] = self.bind(t.value.id, Val("M", "(mset%d%d %s %s)" % (i, i, m.term, val.term)))
            else:
                _refuse(node, "unrecognised item assignment")
        else:
            _refuse(node, "unrecognised assignment target")

    def run_body(self, body, want_return=False):
        for st in body:
            if isinstance(st, ast.Expr) and isinstance(st.value, ast.Constant) and isinstance(st.value.value, str):
                continue
            if isinstance(st, ast.Assign):
                val = self.expr(st.value)
                hint = ast.unparse(st.targets[-1]).replace("self.", "").replace("[", "").replace("]", "").replace(",", "").replace(" ", "")
                val = self.bind(hint, val)
                for t in st.targets:
                    self.assign_target(t, val, st)
                continue
            if isinstance(st, ast.If):
                t = st.test
                # optional-argument guard:  if X is not None: self._x = conv(X)
                if isinstance(t, ast.Compare) and len(t.ops) == 1 and isinstance(t.ops[0], ast.IsNot) \
                        and isinstance(t.left, ast.Name) and ast.unparse(t.comparators[0]) == "None" and not st.orelse \
                        and len(st.body) == 1 and isinstance(st.body[0], ast.Assign) and len(st.body[0].targets) == 1:
                    name = t.left.id
                    opt = self.loc.get(name)
                    if opt is None or opt.ty not in ("OS", "OM"):
                        _refuse(st, "guard on a non-optional name " + name)
                    inner_ty = opt.ty[1]
                    tgt = st.body[0].targets[0]
                    if not (isinstance(tgt, ast.Attribute) and ast.unparse(tgt.value) == "self"):
                        _refuse(st, "guarded statement is not an attribute assignment")
                    key = tgt.attr.lstrip("_")
                    saved = self.loc[name]
                    self.loc[name] = Val(inner_ty, "v")
                    newv = self.expr(st.body[0].value)
                    self.loc[name] = saved
                    old = self.self[key]
                    val = self.bind(key, Val(inner_ty, "match %s with Some v => %s | None => %s end" % (opt.term, newv.term, old.term)))
                    self.assign_target(tgt, val, st)
                    continue
                # raise guards:  if cond: emsg = ...; raise X  [elif cond2: ... raise]
                node = st
                ok = True
                conds = []
                while True:
                    if not (node.body and isinstance(node.body[-1], ast.Raise)
                            and all(isinstance(x, (ast.Assign, ast.Raise)) for x in node.body)):
                        ok = False
                        break
                    conds.append(self.cond(node.test))
                    if len(node.orelse) == 1 and isinstance(node.orelse[0], ast.If):
                        node = node.orelse[0]
                        continue
                    if node.orelse:
                        ok = False
                    break
                if ok:
                    self.pre += conds
                    continue
                _refuse(st, "unrecognised if statement")
            if isinstance(st, ast.Return):
                if st.value is None:
                    return None
                v = self.expr(st.value)
                if want_return:
                    return v
                return v
            _refuse(st, "unrecognised statement " + type(st).__name__)
        return None

    def cond(self, t):
        if isinstance(t, ast.Compare) and len(t.ops) == 1 and isinstance(t.ops[0], (ast.Lt, ast.Gt, ast.LtE, ast.GtE)):
            l, r = self.expr(t.left), self.expr(t.comparators[0])
            sym = {ast.Lt: "<", ast.Gt: ">", ast.LtE: "<=", ast.GtE: ">="}[type(t.ops[0])]
            if l.ty == "S" and r.ty == "S":
                return "(%s %s %s)" % (l.term, sym, r.term)
        _refuse(t, "unrecognised raise condition")


class ClassInfo:
    pass


def load():
    path = os.path.join(SRC, FN)
    tree = ast.parse(open(path).read(), path)
    ci = ClassInfo()
    ci.module_funcs = {st.name: st for st in tree.body if isinstance(st, ast.FunctionDef)}
    cls = [st for st in tree.body if isinstance(st, ast.ClassDef) and st.name == "Lattice"]
    if len(cls) != 1:
        raise TranslatorRefusal("lattice.py: class Lattice not found")
    cls = cls[0]
    ci.alias, ci.getters, ci.methods, ci.setters = {}, {}, {}, {}
    ci.epsilon = None
    for st in cls.body:
        if isinstance(st, ast.Assign) and len(st.targets) == 1 and isinstance(st.targets[0], ast.Name):
            name = st.targets[0].id
            v = st.value
            if name == "_epsilon" and isinstance(v, ast.Constant):
                ci.epsilon = rlit(v.value)
                continue
            if isinstance(v, ast.Call) and ast.unparse(v.func) == "property" and v.args and isinstance(v.args[0], ast.Lambda):
                body = v.args[0].body
                if isinstance(body, ast.Attribute) and ast.unparse(body.value) == "self" and body.attr == "_" + name:
                    ci.alias[name] = "_" + name
                else:
                    # computed property, e.g. volume: wrap as a getter returning the lambda body
                    fd = ast.FunctionDef(name=name, args=v.args[0].args, body=[ast.Return(value=body, lineno=st.lineno)], decorator_list=[], lineno=st.lineno)
                    ci.getters[name] = fd
                if len(v.args) > 1 and isinstance(v.args[1], ast.Lambda):
                    ci.setters[name] = ast.unparse(v.args[1].body)
                continue
            _refuse(st, "unrecognised class-level assignment " + name)
        elif isinstance(st, ast.FunctionDef):
            if any(ast.unparse(d) == "property" for d in st.decorator_list):
                ci.getters[st.name] = st
            else:
                ci.methods[st.name] = st
        elif isinstance(st, ast.Expr) and isinstance(st.value, ast.Constant):
            continue
        else:
            _refuse(st, "unrecognised class-level statement")
    if ci.epsilon is None:
        raise TranslatorRefusal("lattice.py: _epsilon not found")
    # property setters must be setLatPar(<same name>=value)
    for n in ("a", "b", "c", "alpha", "beta", "gamma"):
        if ci.setters.get(n) != "self.setLatPar(%s=value)" % n:
            raise TranslatorRefusal("lattice.py: setter of %s is not self.setLatPar(%s=value)" % (n, n))
    return tree, ci


def old_state():
    st = {}
    for s in SCALARS:
        st[s] = Val("S", "(l_%s old)" % s)
    for m in MATS:
        st[m] = Val("M", "(l_%s old)" % m)
    return st


def record(st):
    return "{| " + "; ".join("l_%s := %s" % (k, st[k].term) for k in SCALARS + MATS) + " |}"


def emit_method(ci, name, params, ptypes, rettype):
    """A pure method of self: Definition name (L : lat) params := term."""
    fd = ci.methods[name]
    got = [a.arg for a in fd.args.args[1:]]
    if got != params:
        _refuse(fd, "%s signature %s" % (name, got))
    st = old_state()
    lines = []
    ex = Exec(ci, st, {p: Val(t, p) for p, t in zip(params, ptypes)}, lines, "t")
    rv = ex.run_body(fd.body, want_return=True)
    if rv is None or rv.ty != rettype:
        _refuse(fd, "%s does not return a %s" % (name, rettype))
    coqty = {"S": "R", "V": "vec", "M": "mat"}
    sig = " ".join("(%s : %s)" % (p, coqty[t]) for p, t in zip(params, ptypes))
    return "Definition L_%s (old : lat) %s : %s :=\n  %s\n  %s." % (name, sig, coqty[rettype], "\n  ".join(lines), rv.term)


def generate():
    tree, ci = load()
    out = ["(* GENERATED by translate/lattice.py from lattice.py - do not edit *)",
           "From Coq Require Import Reals.", "From DS Require Import Base.RMat Base.Trig Model.LatDefs.", "Open Scope R_scope.", ""]
    out.append("Definition L_epsilon : R := %s." % ci.epsilon)
    # ---- setLatPar
    fd = ci.methods["setLatPar"]
    if [a.arg for a in fd.args.args] != ["self", "a", "b", "c", "alpha", "beta", "gamma", "baserot"] or \
            [ast.unparse(d) for d in fd.args.defaults] != ["None"] * 7:
        _refuse(fd, "setLatPar signature")
    lines = []
    params = {n: Val("OS", n) for n in ["a", "b", "c", "alpha", "beta", "gamma"]}
    params["baserot"] = Val("OM", "baserot")
    ex = Exec(ci, old_state(), params, lines, "p")
    ex.run_body(fd.body)
    if ex.pre:
        _refuse(fd, "setLatPar has raise guards")
    out.append("Definition setLatPar (old : lat) (a b c alpha beta gamma : option R) (baserot : option mat) : lat :=\n  %s\n  %s.\n"
               % ("\n  ".join(lines), record(ex.self)))
    # ---- setLatBase
    fd = ci.methods["setLatBase"]
    if [a.arg for a in fd.args.args] != ["self", "base"]:
        _refuse(fd, "setLatBase signature")
    lines = []
    ex = Exec(ci, old_state(), {"base": Val("M", "base")}, lines, "q")
    ex.run_body(fd.body)
    out.append("Definition setLatBase (old : lat) (base : mat) : lat :=\n  %s\n  %s.\n" % ("\n  ".join(lines), record(ex.self)))
    # the raise guards, as the conditions under which the code raises LatticeError
    plines = []
    pex = Exec(ci, old_state(), {"base": Val("M", "base")}, plines, "q")
    pre_terms = []
    for st in fd.body:
        if isinstance(st, ast.If):
            break
        pex.run_body([st])
    pex.run_body([st for st in fd.body if isinstance(st, ast.If)][:1])
    out.append("Definition setLatBase_raises (old : lat) (base : mat) : Prop :=\n  %s\n  %s.\n"
               % ("\n  ".join(plines), " \\/ ".join(pex.pre) if pex.pre else "False"))
    # ---- pure methods
    out.append(emit_method(ci, "cartesian", ["u"], ["V"], "V"))
    out.append(emit_method(ci, "fractional", ["rc"], ["V"], "V"))
    out.append(emit_method(ci, "dot", ["u", "v"], ["V", "V"], "S"))
    out.append(emit_method(ci, "norm", ["xyz"], ["V"], "S"))
    out.append(emit_method(ci, "rnorm", ["hkl"], ["V"], "S"))
    out.append(emit_method(ci, "dist", ["u", "v"], ["V", "V"], "S"))
    # angle: cosine expression + recognised clamp/acos tail
    fd = ci.methods["angle"]
    body = [s for s in fd.body if not (isinstance(s, ast.Expr) and isinstance(s.value, ast.Constant))]
    tail = "\n".join(ast.unparse(s) for s in body[1:])
    want_tail = ("if numpy.isscalar(ca):\n    ca = max(min(ca, 1), -1)\n    rv = math.degrees(math.acos(ca))\nelse:\n    ca[ca < -1] = -1\n"
                 "    ca[ca > +1] = +1\n    rv = numpy.degrees(numpy.arccos(ca))\nreturn rv")
    if tail != want_tail or not (isinstance(body[0], ast.Assign) and ast.unparse(body[0].targets[0]) == "ca"):
        _refuse(fd, "angle() differs from the recognised cosine / clamp / acos shape")
    lines = []
    ex = Exec(ci, old_state(), {"u": Val("V", "u"), "v": Val("V", "v")}, lines, "t")
    cav = ex.expr(body[0].value)
    out.append("Definition L_angle_cos (old : lat) (u : vec) (v : vec) : R :=\n  %s\n  %s." % ("\n  ".join(lines), cav.term))
    out.append("Definition L_angle (old : lat) (u v : vec) : R := acosd (Rmax (Rmin (L_angle_cos old u v) 1) (-1)).")
    # volume / unitvolume
    for g in ("unitvolume", "volume"):
        lines = []
        ex = Exec(ci, old_state(), {}, lines, "t")
        rv = ex.inline_getter(ci.getters[g])
        out.append("Definition L_%s (old : lat) : R :=\n  %s\n  %s." % (g, "\n  ".join(lines), rv.term))
    # reciprocal(): Lattice(base=numpy.transpose(self.recbase))
    fd = ci.methods["reciprocal"]
    if [ast.unparse(s) for s in fd.body if not (isinstance(s, ast.Expr) and isinstance(s.value, ast.Constant))] != \
            ["rv = Lattice(base=numpy.transpose(self.recbase))", "return rv"]:
        _refuse(fd, "reciprocal() differs from Lattice(base=numpy.transpose(self.recbase))")
    out.append("Definition L_reciprocal (old : lat) : lat := setLatBase lat0 (mT (l_recbase old)).")
    # abcABG
    fd = ci.methods["abcABG"]
    if ast.unparse(fd.body[-2].value if isinstance(fd.body[-1], ast.Return) and len(fd.body) > 1 else fd.body[-1].value) != \
            "(self.a, self.b, self.c, self.alpha, self.beta, self.gamma)":
        _refuse(fd, "abcABG() shape")
    # the constructor's dispatch is checked by shape: no args -> setLatPar(1,1,1,90,90,90,baserot)
    init = ast.unparse(ci.methods["__init__"])
    for needle in ("self.setLatPar(1.0, 1.0, 1.0, 90.0, 90.0, 90.0, baserot)", "self.setLatBase(base)",
                   "self.setLatPar(a, b, c, alpha, beta, gamma, baserot=baserot)", "self.baserot = numpy.identity(3)",
                   "self.__dict__.update(a.__dict__)"):
        if needle not in init:
            raise TranslatorRefusal("lattice.py: __init__ lacks `%s`" % needle)
    # _EXACT_COSD table
    tbl = [st for st in tree.body if isinstance(st, ast.Assign) and ast.unparse(st.targets[0]) == "_EXACT_COSD"]
    if len(tbl) != 1 or not isinstance(tbl[0].value, ast.Dict):
        raise TranslatorRefusal("lattice.py: _EXACT_COSD not found")
    pairs = []
    for k, v in zip(tbl[0].value.keys, tbl[0].value.values):
        pairs.append("(%s, %s)" % (rlit(ast.literal_eval(k)), rlit(ast.literal_eval(v))))
    out.append("Definition exact_cosd_table : list (R * R) := (%s :: nil)%%list." % " :: ".join(pairs))
    # cosd / sind bodies must be the recognised ones
    want = {"cosd": ["rv = _EXACT_COSD.get(x % 360.0)", "if rv is None:\n    rv = math.cos(math.radians(x))", "return rv"],
            "sind": ["return cosd(90.0 - x)"]}
    for n, w in want.items():
        got = [ast.unparse(s) for s in ci.module_funcs[n].body if not (isinstance(s, ast.Expr) and isinstance(s.value, ast.Constant))]
        if got != w:
            raise TranslatorRefusal("lattice.py: %s() differs from the recognised body" % n)
    return {"Gen/LatFormulas.v": "\n".join(out) + "\n"}


if __name__ == "__main__":
    print(generate()["Gen/LatFormulas.v"])
