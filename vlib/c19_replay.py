"""C19 schedule replay (child process): enforce a thread schedule on the real spacegroups module
WITHOUT source hooks: every worker thread installs a `sys.settrace` line hook for the five lookup
functions and parks on a threading.Event when it reaches its current pause point; the controller
lets exactly one thread run at a time.

stdin : {"funcs": [names], "threads": {"A": [call, ...], ...},
         "schedule": [["A", [func, line, occ] | null], ...]}
        call = ["get", sgid] | ["isid", sgid] | ["find", index, reverse?]
stdout: {"results": {"A": [outcome, ...]}, "segments": [[thread, [[func, line], ...]], ...], "hang": bool}
A segment lists the lines the thread EXECUTED while it was running (the line it is parked on is not
executed yet and opens the thread's next segment).
"""
import json
import sys
import threading


def main():
    spec = json.load(sys.stdin)
    import diffpy.structure.spacegroups as S
    funcs = set(spec["funcs"])
    nested = bool(spec.get("nested"))
    fname = S.__file__
    number_index = {sg.number: i for i, sg in enumerate(S.SpaceGroupList)}
    segments = []

    class Worker(threading.Thread):
        def __init__(self, name, calls):
            threading.Thread.__init__(self, name=name, daemon=True)
            self.calls = calls
            self.go = threading.Event()
            self.stopped = threading.Event()
            self.target = None
            self.seen = 0
            self.events = []
            self.results = []
            self.finished = False

        def tracer(self, frame, event, arg):
            co = frame.f_code
            if event == "call" and co.co_filename == fname:
                if co.co_name in funcs:
                    return self.local
                # finder mode: also generator expressions / comprehensions / lambdas written inside the module
                if nested and co.co_name.startswith("<"):
                    return self.local
            return None

        def local(self, frame, event, arg):
            if event == "line":
                key = [frame.f_code.co_name, frame.f_lineno]
                tg = self.target
                if tg is not None and key[0] == tg[0] and key[1] == tg[1]:
                    self.seen += 1
                    if self.seen == tg[2]:
                        self.park()
                self.events.append(key)
            return self.local

        def park(self):
            segments.append([self.name, self.events])
            self.events = []
            self.stopped.set()
            self.go.wait()
            self.go.clear()

        def run(self):
            self.go.wait()
            self.go.clear()
            sys.settrace(self.tracer)
            try:
                for c in self.calls:
                    self.results.append(self.do(c))
            finally:
                sys.settrace(None)
                segments.append([self.name, self.events])
                self.events = []
                self.finished = True
                self.stopped.set()

        def do(self, c):
            try:
                if c[0] == "get":
                    sg = S.GetSpaceGroup(c[1])
                    return "sg:%d" % number_index[sg.number]
                if c[0] == "isid":
                    return str(bool(S.IsSpaceGroupIdentifier(c[1])))
                if c[0] == "find":
                    ops = list(S.SpaceGroupList[c[1]].symop_list)
                    if len(c) > 2 and c[2]:
                        ops.reverse()
                    sg = S.FindSpaceGroup(ops, shuffle=bool(len(c) > 3 and c[3]))
                    return "sg:%d" % number_index[sg.number]
                return "bad-call"
            except BaseException as e:   # noqa: the outcome kind is the observation
                return type(e).__name__

    workers = {n: Worker(n, calls) for n, calls in spec["threads"].items()}
    for w in workers.values():
        w.start()
    hang = False

    def resume(w, target):
        nonlocal hang
        if w.finished:
            return
        w.target = target
        w.seen = 0
        w.stopped.clear()
        w.go.set()
        if not w.stopped.wait(60):
            hang = True

    for name, target in spec["schedule"]:
        if hang:
            break
        resume(workers[name], target)
    for name in sorted(workers):
        if hang:
            break
        resume(workers[name], None)
    out = {"results": {n: w.results for n, w in workers.items()}, "segments": segments, "hang": hang,
           "finished": {n: w.finished for n, w in workers.items()},
           "sizes": [len(S._sg_lookup_table), len(S._sg_hash_lookup_table)]}
    sys.stdout.write(json.dumps(out))
    sys.stdout.flush()


if __name__ == "__main__":
    main()
