import argparse
import importlib
import os
import sys
import traceback

from vlib import core


def main():
    ap = argparse.ArgumentParser()
    ap.add_argument("pid")
    ap.add_argument("--tier", default=os.environ.get("VERIF_TIER", "quick"), choices=["quick", "thorough"])
    ap.add_argument("--replay", default=None)
    a = ap.parse_args()
    seed = int(os.environ.get("VERIF_SEED", "20261001"))
    pid = a.pid.upper()
    if pid == "SETUP":
        from vlib import setup
        sys.exit(setup.run())
    ctx = core.Ctx(pid, a.tier, seed, a.replay)
    try:
        mod = importlib.import_module("vlib.props." + pid.lower())
        if a.replay and hasattr(mod, "replay"):
            import json
            mod.replay(ctx, json.load(open(a.replay)))
        else:
            mod.run(ctx)
    except Exception:
        tb = traceback.format_exc()
        ctx.log("harness exception:\n" + tb)
        ctx.obligation("harness-completed", False, tb[-800:])
    sys.exit(ctx.finish())


if __name__ == "__main__":
    main()
