"""C05/C06: run the real GeneratorSite on exact sites, turn what it reports into certificates for the
extracted Coq checker (ocaml/C0506/c0506_checker), and state the property directly on the real code (finders).

All comparisons against the implementation are made with exact Fractions; the tolerances are named constants.
"""
import ast
import math
import os
import re
import subprocess
from fractions import Fraction as F

import numpy

from vlib import c0506_strata as st

TOL_POS = F(1, 100000)        # the module's position tolerance (epsilon = 1e-5): constants are printed with %g
TOL_RATIONAL = 1e-9           # a reported null-space / Uspace entry must be this close to a small rational
U_REL = F(1, 10 ** 9)         # relative tolerance for displacement tensors (doubles)
CHECKER = os.path.join(os.path.dirname(os.path.dirname(os.path.abspath(__file__))), "ocaml", "C0506", "c0506_checker")
USYM = ["U11", "U22", "U33", "U12", "U13", "U23"]
UIDX = [(0, 0), (1, 1), (2, 2), (0, 1), (0, 2), (1, 2)]


class CertError(Exception):
    """What the code reported cannot be put into certificate form (the clause is named in the message)."""


# ---------------------------------------------------------------- formula reader
_TERM = re.compile(r"\s*([+-]?)\s*(?:((?:\d+(?:\.\d*)?|\.\d+)(?:[eE][-+]?\d+)?)(?:/(\d+))?)?\s*(?:\*?\s*([A-Za-z_]\w*))?")


def parse_linear(s, symbols):
    """'-x +1/3', '0.5*U11-U12', '+0.13' -> ({symbol: Fraction}, constant Fraction).  Exact decimal reading."""
    coeffs = {}
    const = F(0)
    pos = 0
    s = s.strip()
    if not s:
        raise CertError("empty formula")
    while pos < len(s):
        m = _TERM.match(s, pos)
        if m is None or m.end() == pos or (m.group(2) is None and m.group(4) is None):
            raise CertError("formula %r not understood at %d" % (s, pos))
        sign = -1 if m.group(1) == "-" else 1
        val = F(m.group(2)) if m.group(2) is not None else F(1)
        if m.group(3) is not None:
            if int(m.group(3)) == 0:
                raise CertError("formula %r divides by zero" % s)
            val = val / int(m.group(3))
        if m.group(4) is not None:
            sym = m.group(4)
            if sym not in symbols:
                raise CertError("formula %r uses unknown symbol %s" % (s, sym))
            coeffs[sym] = coeffs.get(sym, F(0)) + sign * val
        else:
            const += sign * val
        pos = m.end()
    return coeffs, const


def eval_formula_ast(s, values):
    """Independent reading of the same string by Python's own parser (only + - * / numbers names)."""
    def ev(n):
        if isinstance(n, ast.Expression):
            return ev(n.body)
        if isinstance(n, ast.BinOp) and isinstance(n.op, (ast.Add, ast.Sub, ast.Mult, ast.Div)):
            a, b = ev(n.left), ev(n.right)
            return a + b if isinstance(n.op, ast.Add) else a - b if isinstance(n.op, ast.Sub) else a * b if isinstance(n.op, ast.Mult) else a / b
        if isinstance(n, ast.UnaryOp) and isinstance(n.op, (ast.UAdd, ast.USub)):
            v = ev(n.operand)
            return -v if isinstance(n.op, ast.USub) else v
        if isinstance(n, ast.Constant) and isinstance(n.value, (int, float)) and not isinstance(n.value, bool):
            return F(repr(n.value))
        if isinstance(n, ast.Name) and n.id in values:
            return values[n.id]
        raise CertError("formula %r: unexpected syntax" % s)
    return ev(ast.parse(s.strip(), mode="eval"))


def read_formula(s, symbols, rng):
    """parse_linear cross-checked against the ast evaluation at a random exact point."""
    coeffs, const = parse_linear(s, symbols)
    vals = {k: F(rng.randrange(-999, 1000), 1009) for k in symbols}
    a = const + sum(c * vals[k] for k, c in coeffs.items())
    b = eval_formula_ast(s, vals)
    if a != b:
        raise CertError("formula reader disagrees with Python's parser on %r" % s)
    return coeffs, const


# ---------------------------------------------------------------- exact helpers
def rationalise(v, maxden=200):
    fr = F(float(v)).limit_denominator(maxden)
    if abs(float(fr) - float(v)) > TOL_RATIONAL:
        raise CertError("entry %r is not a small rational" % (float(v),))
    return fr


def conj(R, U):
    """R U R^T for R tuple of 9 ints and U = 6-vector (U11,U22,U33,U12,U13,U23) of Fractions."""
    M = [[U[0], U[3], U[4]], [U[3], U[1], U[5]], [U[4], U[5], U[2]]]
    RU = [[sum(R[3 * i + k] * M[k][j] for k in range(3)) for j in range(3)] for i in range(3)]
    X = [[sum(RU[i][k] * R[3 * j + k] for k in range(3)) for j in range(3)] for i in range(3)]
    return [X[a][b] for a, b in UIDX]


def unit(n, j):
    return [F(int(i == j)) for i in range(n)]


def span_witness(basis, dmats, n):
    """basis: k rows of length n; dmats: list of n x n matrices D_g (as rows).  Returns (P, C) with
    P (k x n) dual to the basis and C = list of n x n blocks (rows) with  B^T P + sum_g C_g D_g = I,
    or zeros where no such witness exists (the Coq clause then fails)."""
    k = len(basis)
    zeroP = [[F(0)] * n for _ in range(k)]
    zeroC = [[[F(0)] * n for _ in range(n)] for _ in dmats]
    if k:
        gram = [[sum(a * b for a, b in zip(r1, r2)) for r2 in basis] for r1 in basis]
        gi = st.matinv(gram)
        if gi is None:
            return zeroP, zeroC
        P = [[sum(gi[i][j] * basis[j][c] for j in range(k)) for c in range(n)] for i in range(k)]
    else:
        P = []
    E = [[F(int(i == j)) - sum(basis[l][i] * P[l][j] for l in range(k)) for j in range(n)] for i in range(n)]
    Drows = [row for D in dmats for row in D]           # (n*|S|) x n
    ncols = len(Drows)
    DT = [[Drows[r][c] for r in range(ncols)] for c in range(n)]   # n x ncols
    Crows = []
    for i in range(n):
        if ncols == 0:
            if any(v != 0 for v in E[i]):
                return P, zeroC
            Crows.append([])
            continue
        sol = st.solve_particular(DT, E[i], ncols)
        if sol is None:
            return P, zeroC
        Crows.append(sol)
    C = [[[Crows[i][n * g + j] for j in range(n)] for i in range(n)] for g in range(len(dmats))]
    return P, C


def qs(fr):
    fr = F(fr)
    return "%d %d" % (fr.numerator, fr.denominator)


# ---------------------------------------------------------------- running the implementation on one site
def observe(sg, x, Uin6):
    """Run GeneratorSite(sg, float(x), float(U)) and collect everything C05/C06 look at.
    x: 3 Fractions, Uin6: 6 Fractions.  Returns a dict of plain Python data (floats kept as floats)."""
    from diffpy.structure.symmetryutilities import GeneratorSite
    xyz = numpy.array([float(v) for v in x])
    U = numpy.zeros((3, 3))
    for v, (a, b) in zip(Uin6, UIDX):
        U[a, b] = U[b, a] = float(v)
    gen = GeneratorSite(sg, xyz, U)
    idx = {id(op): j for j, op in enumerate(sg.symop_list)}
    obs = {
        "x": list(x), "Uin": [float(v) for v in Uin6],
        "xyz_adj": [float(v) for v in gen.xyz],
        "inv": sorted(idx[id(op)] for op in gen.invariants),
        "mult": int(gen.multiplicity),
        "N": [[float(v) for v in row] for row in numpy.asarray(gen.null_space).reshape(-1, 3)],
        "ppar": [(n, float(v)) for n, v in gen.pparameters],
        "Usp": [[[float(v) for v in r] for r in M] for M in gen.Uspace],
        "Upar": [(n, float(v)) for n, v in gen.Uparameters],
        "Uij": [[float(v) for v in r] for r in gen.Uij],
        "iso": bool(gen.Uisotropy),
        "eq": [],
    }
    for i, pos in enumerate(gen.eqxyz):
        obs["eq"].append({
            "rep": idx[id(gen.symops[i][0])],
            "ops": sorted(idx[id(o)] for o in gen.symops[i]),
            "pos": [float(v) for v in pos],
            "pf": dict(gen.positionFormula(pos)),
            "uf": dict(gen.UFormula(pos)),
            "eqU": [[float(v) for v in r] for r in gen.eqUij[i]],
        })
    return obs


def sym6(M, what):
    for a in range(3):
        for b in range(a):
            if M[a][b] != M[b][a] and abs(M[a][b] - M[b][a]) > 1e-12 * (1 + abs(M[a][b])):
                raise CertError("%s is not symmetric" % what)
    return [M[a][b] for a, b in UIDX]


def pos_case(si, ops, stab, obs, rng):
    """Certificate line (kind 5) for the extracted checker + the parsed exact data used by the finder."""
    k = len(obs["N"])
    N = [[rationalise(v, 64) for v in row] for row in obs["N"]]
    names = [n for n, _ in obs["ppar"]]
    if len(names) != k or len(set(names)) != k:
        raise CertError("pparameters %r do not match the %d null-space rows" % (names, k))
    p0 = [F(v) for _, v in obs["ppar"]]
    dm = [[[F(ops[g][0][3 * a + b] - int(a == b)) for b in range(3)] for a in range(3)] for g in stab]
    P, C = span_witness(N, dm, 3)
    toks = ["5", str(si)] + [qs(v) for v in obs["x"]] + [qs(TOL_POS), str(k)]
    toks += [qs(v) for row in N for v in row] + [qs(v) for v in p0] + [qs(v) for row in P for v in row]
    toks += [str(len(obs["inv"]))] + [str(i) for i in obs["inv"]]
    toks += [str(len(C))]
    for Cg in C:
        for j in range(3):
            toks += [qs(Cg[i][j]) for i in range(3)]
    toks.append(str(len(obs["eq"])))
    forms = []
    for e in obs["eq"]:
        A = [[F(0)] * 3 for _ in range(k)]
        c = [F(0)] * 3
        if sorted(e["pf"]) != ["x", "y", "z"]:
            raise CertError("positionFormula returned keys %r" % sorted(e["pf"]))
        for ci, coord in enumerate("xyz"):
            co, cst = read_formula(e["pf"][coord], names, rng)
            c[ci] = cst
            for nm, v in co.items():
                A[names.index(nm)][ci] = v
        forms.append((A, c))
        toks.append(str(e["rep"]))
        toks += [qs(F(v)) for v in e["pos"]]
        toks += [qs(v) for col in A for v in col] + [qs(v) for v in c]
    return " ".join(toks), {"N": N, "p0": p0, "names": names, "forms": forms}


def u_case(si, ops, stab, obs, rng):
    """Certificate line (kind 6)."""
    B = [[rationalise(v, 1000) for v in sym6(M, "Uspace member")] for M in obs["Usp"]]
    k = len(B)
    names = [n for n, _ in obs["Upar"]]
    if len(names) != k or len(set(names)) != k:
        raise CertError("Uparameters %r do not match the %d Uspace members" % (names, k))
    floats = list(obs["Uin"]) + [v for _, v in obs["Upar"]] + [v for r in obs["Uij"] for v in r]
    for e in obs["eq"]:
        floats += [v for r in e["eqU"] for v in r]
    if not all(math.isfinite(v) for v in floats):
        raise CertError("a reported tensor entry is not finite")
    scale = 1
    for v in floats:
        d = F(v).denominator
        if d > scale:
            scale = d
    sc = lambda v: str(int(F(v) * scale)) + " 1"      # noqa: E731  (exact: scale is a common power of two)
    umax = max([abs(F(v)) for v in obs["Uin"]] + [F(1, 1000)])
    tol = (U_REL * umax + F(1, 10 ** 13)) * scale
    dm = []
    for g in stab:
        cols = [conj(ops[g][0], unit(6, j)) for j in range(6)]
        dm.append([[cols[j][i] - int(i == j) for j in range(6)] for i in range(6)])
    P, C = span_witness(B, dm, 6)
    toks = ["6", str(si)] + [qs(v) for v in obs["x"]] + [qs(tol), str(k)]
    toks += [qs(v) for b in B for v in b]
    toks += [sc(v) for v in obs["Uin"]] + [sc(v) for _, v in obs["Upar"]] + [sc(v) for v in sym6(obs["Uij"], "Uij")]
    toks.append("1" if obs["iso"] else "0")
    toks += [qs(v) for row in P for v in row]
    toks.append(str(len(C)))
    for Cg in C:
        for j in range(6):
            toks += [qs(Cg[i][j]) for i in range(6)]
    toks.append(str(len(obs["eq"])))
    forms = []
    for e in obs["eq"]:
        cols = [[F(0)] * 6 for _ in range(k)]
        if sorted(e["uf"]) != sorted(USYM):
            raise CertError("UFormula returned keys %r" % sorted(e["uf"]))
        for ui, usym in enumerate(USYM):
            co, cst = read_formula(e["uf"][usym], names, rng)
            if cst != 0:
                raise CertError("UFormula %s = %r has a constant term" % (usym, e["uf"][usym]))
            for nm, v in co.items():
                cols[names.index(nm)][ui] = v
        forms.append(cols)
        toks.append(str(e["rep"]))
        toks += [sc(v) for v in sym6(e["eqU"], "eqUij")]
        toks += [qs(v) for col in cols for v in col]
    return " ".join(toks), {"B": B, "names": names, "forms": forms}


POS_CLAUSES = {1: "invariants = exact stabiliser", 2: "null-space rows fixed by the site symmetry", 3: "one parameter per row",
               4: "rows independent", 5: "rows span the whole fixed space", 6: "formula coefficients = R_i N^T",
               7: "formulas at the reported parameters reproduce the images", 8: "reported equivalent positions = images",
               9: "listed positions are the whole orbit", 10: "listed positions pairwise different",
               -1: "certificate undecodable", -2: "no such setting", -3: "driver failure", -4: "driver stack overflow"}
U_CLAUSES = {1: "Uspace members invariant", 2: "Uspace members independent", 3: "Uspace spans the whole invariant space",
             4: "projection leaves the space fixed", 5: "Uisotropy <-> one parameter", 6: "U formula coefficients = R_i B R_i^T",
             7: "Uparameters = projection coefficients of the input", 8: "stored Uij = projection of the input",
             9: "eqUij = R_i Uij R_i^T and formulas at the reported parameters reproduce it",
             -1: "certificate undecodable", -2: "no such setting", -3: "driver failure", -4: "driver stack overflow"}


def run_checker(lines, nproc=16, timeout=1500):
    """Feed certificate lines to parallel instances of the extracted checker.  -> list of lists of failed clauses."""
    if not lines:
        return []
    nproc = max(1, min(nproc, len(lines)))
    order = sorted(range(len(lines)), key=lambda i: -len(lines[i]))
    chunks = [[] for _ in range(nproc)]
    for n, i in enumerate(order):
        chunks[n % nproc].append(i)
    procs = []
    for ch in chunks:
        p = subprocess.Popen(["bash", "-c", "ulimit -s unlimited 2>/dev/null; exec %s" % CHECKER], stdin=subprocess.PIPE,
                             stdout=subprocess.PIPE, stderr=subprocess.PIPE, text=True)
        procs.append((p, ch))
    import threading
    results = [None] * len(lines)

    def feed(p, ch):
        try:
            out, err = p.communicate("\n".join(lines[i] for i in ch) + "\n", timeout=timeout)
        except subprocess.TimeoutExpired:
            p.kill()
            out = ""
        rs = [ln for ln in out.splitlines() if ln.startswith("R")]
        for n, i in enumerate(ch):
            if n < len(rs):
                results[i] = [int(t) for t in rs[n].split()[1:]]
            else:
                results[i] = [-3]
    ths = [threading.Thread(target=feed, args=pc) for pc in procs]
    for t in ths:
        t.start()
    for t in ths:
        t.join()
    return results


# ---------------------------------------------------------------- finders: the property on the real code
def near_mod1(a, b, tol):
    return st.box_dist(a, b) <= tol


def finder_pos(ops, stab, obs, parsed, rng, nparam=2):
    """C05 stated directly on what the code returned.  Yields (kind, message, data)."""
    x = obs["x"]
    k = len(parsed["N"]) if parsed else len(obs["N"])
    dim = 3 - st.rank([[ops[g][0][3 * a + b] - int(a == b) for b in range(3)] for g in stab for a in range(3)], 3)
    orb = st.orbit(ops, x)
    if obs["mult"] != len(orb) or len(obs["eq"]) != len(orb):
        yield ("multiplicity", "multiplicity %d reported, exact orbit has %d points" % (obs["mult"], len(orb)), {})
    if len(obs["ppar"]) != dim:
        yield ("nparams", "%d position parameters reported, the site symmetry leaves %d free" % (len(obs["ppar"]), dim), {})
    if parsed is None:
        return
    names = parsed["names"]
    p0 = parsed["p0"]

    def images(p):
        return [[c[i] + sum(A[j][i] * p[j] for j in range(k)) for i in range(3)] for A, c in parsed["forms"]]
    # formulas at the reported parameters reproduce the reported positions and the exact images
    for e, y in zip(obs["eq"], images(p0)):
        if not near_mod1(y, [F(v) for v in e["pos"]], 2 * TOL_POS) or not near_mod1(y, st.apply_op(ops[e["rep"]], x), 2 * TOL_POS):
            yield ("reproduce", "formulas %r at %r give %s, position is %s" % (
                e["pf"], obs["ppar"], [float(v) for v in y], e["pos"]), {"formula": e["pf"]})
            break
    # other parameter values: still a full orbit of the same multiplicity.  The constants of the formulas carry
    # six digits, so the orbit of the moved generator is taken modulo CLUSTER (images closer than that are one site).
    Rm = numpy.array([[[op[0][3 * a + b] for b in range(3)] for a in range(3)] for op in ops], dtype=float)
    tv = numpy.array([[v / 12.0 for v in op[1]] for op in ops])
    for _ in range(nparam):
        for attempt in range(6):
            pr = st.BIGPRIMES[rng.randrange(len(st.BIGPRIMES))]
            p = [p0[j] + F(rng.randrange(pr[j] // 100 + 1, pr[j] // 7), pr[j]) * rng.choice((-1, 1)) for j in range(k)]
            ys = numpy.array([[float(v) for v in y] for y in images(p)])
            img = (Rm @ ys[0] + tv) % 1.0
            reps = []
            for q in img:
                if not any(_boxd(q, r) <= CLUSTER for r in reps):
                    reps.append(q)
            # fewer positions: the random parameters came within CLUSTER of a more special position; draw again
            # (reported only if it happens six times in a row)
            if len(reps) >= len(ys) or k == 0:
                break
        used = set()
        ok = True
        for y in ys:
            hit = next((n for n, o in enumerate(reps) if n not in used and _boxd(y % 1.0, o) <= CLUSTER), None)
            if hit is None:
                ok = False
                break
            used.add(hit)
        if len(reps) != len(ys) or not ok:
            tag = ""
            for row in parsed["N"]:
                for g in stab:
                    R = ops[g][0]
                    if [sum(R[3 * a + b] * row[b] for b in range(3)) for a in range(3)] != list(row):
                        tag = "row-not-fixed=(%s)" % ",".join(str(v) for v in row)
                        break
                if tag:
                    break
            yield ("moved" + (":" + tag if tag else ""), "parameters %s = %s: generator %s has %d equivalent positions, the %d formulas give %s" % (
                names, [float(v) for v in p], [float(v) for v in ys[0]], len(reps), len(ys),
                "a different set" if len(reps) == len(ys) else "not its orbit"),
                {"params": [float(v) for v in p], "generator": [float(v) for v in ys[0]], "orbit_size": len(reps),
                 "formulas": [e["pf"] for e in obs["eq"]][:4]})
            break


CLUSTER = 1e-4


def _boxd(a, b):
    d = numpy.abs(a - b) % 1.0
    return float(numpy.max(numpy.minimum(d, 1.0 - d)))


def finder_u(sg, ops, stab, obs, parsed, rng):
    """C06 stated directly on what the code returned (exact group average as oracle)."""
    from diffpy.structure.symmetryutilities import GeneratorSite
    Rs = [ops[g][0] for g in stab]
    rows = []
    for R in Rs:
        cols = [conj(R, unit(6, j)) for j in range(6)]
        rows += [[cols[j][i] - int(i == j) for j in range(6)] for i in range(6)]
    dim = 6 - st.rank(rows, 6)
    if len(obs["Usp"]) != dim:
        yield ("udim", "Uspace has %d members, the invariant space has dimension %d" % (len(obs["Usp"]), dim), {})
    if obs["iso"] != (dim == 1):
        yield ("iso", "Uisotropy=%s but %d free tensor parameters" % (obs["iso"], dim), {})
    Uij = [F(v) for v in sym6(obs["Uij"], "Uij")]
    scale = max([abs(v) for v in Uij] + [abs(F(v)) for v in obs["Uin"]] + [F(1, 1000)])
    tol = scale * F(1, 10 ** 8)
    for R in Rs:
        if max(abs(a - b) for a, b in zip(conj(R, Uij), Uij)) > tol:
            yield ("uinv", "stored Uij %s is not invariant under site rotation %s" % (obs["Uij"], R), {})
            break
    for e in obs["eq"]:
        want = conj(ops[e["rep"]][0], Uij)
        got = [F(v) for v in sym6(e["eqU"], "eqUij")]
        if max(abs(a - b) for a, b in zip(want, got)) > tol:
            yield ("equ", "eqUij at %s is not R Uij R^T for its operation" % (e["pos"],), {})
            break
        if parsed is not None:
            par = [F(v) for _, v in obs["Upar"]]
            val = [sum(parsed["forms"][obs["eq"].index(e)][j][i] * par[j] for j in range(len(par))) for i in range(6)]
            if max(abs(a - b) for a, b in zip(val, got)) > tol:
                yield ("uformula", "UFormula %r at %r does not give eqUij %s" % (e["uf"], obs["Upar"], e["eqU"]), {})
                break
    # an allowed input comes back unchanged (exact group average of the input as allowed tensor)
    Uin = [F(v) for v in obs["Uin"]]
    avg = [sum(conj(R, Uin)[i] for R in Rs) / len(Rs) for i in range(6)]
    U = numpy.zeros((3, 3))
    for v, (a, b) in zip(avg, UIDX):
        U[a, b] = U[b, a] = float(v)
    gen = GeneratorSite(sg, numpy.array([float(v) for v in obs["x"]]), U)
    back = [F(float(gen.Uij[a, b])) for a, b in UIDX]
    if max(abs(a - b) for a, b in zip(back, avg)) > tol:
        yield ("ufix", "allowed tensor %s is returned as %s" % ([float(v) for v in avg], [float(v) for v in back]),
               {"Uallowed": [str(v) for v in avg]})


# ---------------------------------------------------------------- whole lists: SymmetryConstraints / ExpandAsymmetricUnit
def make_listing(ops, strata_pts, rng, noise=1e-7):
    """strata_pts: list of (stratum, exact point).  Returns (positions float list, labels, exact orbits) for the union
    of the exact orbits, shuffled, shifted by whole cells, with uniform noise; None when two chosen sites are equivalent."""
    orbs = []
    seen = set()
    for stratum, x in strata_pts:
        o = [tuple(p) for p, _ in st.orbit(ops, x)]
        if seen & set(o):
            return None
        seen |= set(o)
        orbs.append(o)
    items = []
    for lab, o in enumerate(orbs):
        for p in o:
            shift = [rng.randrange(-2, 3) for _ in range(3)]
            items.append((lab, [float(p[i]) + shift[i] + rng.uniform(-noise, noise) for i in range(3)], p))
    rng.shuffle(items)
    return [it[1] for it in items], [it[0] for it in items], [it[2] for it in items]


def finder_listing(sg, ops, strata_pts, rng, with_u=False):
    """The partition clause of C05 (and the whole-structure clauses of C06) on the real SymmetryConstraints.
    Yields (kind, message, data)."""
    from diffpy.structure.symmetryutilities import SymmetryConstraints, ExpandAsymmetricUnit
    # every third listing is noisier than the default tolerance and is constrained with an explicit, matching tolerance
    noisy = (not with_u) and rng.random() < 0.34
    noise, eps = (5e-5, 2e-4) if noisy else (1e-7, None)
    made = make_listing(ops, strata_pts, rng, noise=noise)
    if made is None:
        return
    positions, labels, exact = made
    n = len(positions)
    Uijs = None
    if with_u:
        Uijs = []
        for _ in range(n):
            d = [rng.randrange(20, 900) / 10000.0 for _ in range(3)]
            o = [rng.randrange(-150, 150) / 10000.0 for _ in range(3)]
            Uijs.append([[d[0], o[0], o[1]], [o[0], d[1], o[2]], [o[1], o[2], d[2]]])
        if rng.random() < 0.25:
            # all-integer tensors (nested int lists, as in the module's own demo): results must not be truncated
            Uijs = []
            for _ in range(n):
                d = [rng.randrange(1, 10) for _ in range(3)]
                o = [rng.randrange(-2, 3) for _ in range(3)]
                Uijs.append([[d[0], o[0], o[1]], [o[0], d[1], o[2]], [o[1], o[2], d[2]]])
    sc = SymmetryConstraints(sg, [list(p) for p in positions], Uijs=Uijs) if eps is None else \
        SymmetryConstraints(sg, [list(p) for p in positions], Uijs=Uijs, eps=eps)
    data = {"positions": positions, "labels": labels}
    want = {}
    for i, lab in enumerate(labels):
        want.setdefault(lab, []).append(i)
    want_part = sorted(sorted(v) for v in want.values())
    got_part = sorted(sorted(v) for v in sc.coremap.values())
    if got_part != want_part:
        if not with_u:      # the partition clause belongs to C05; C06 only looks at tensors of correctly grouped positions
            yield ("partition", "coremap classes %s, exact orbits %s" % (got_part[:6], want_part[:6]), data)
        return
    for gidx, members in sc.coremap.items():
        if gidx != min(members):
            yield ("partition", "generator %d is not the first listed member of its orbit %s" % (gidx, sorted(members)[:8]), data)
            return
    if len(sc.corepos) != len(want):
        yield ("partition", "%d core positions for %d orbits" % (len(sc.corepos), len(want)), data)
        return
    dims = sum(len(s["fix"]) for s, _ in strata_pts)
    if not with_u and len(sc.pospars) != dims:
        yield ("nparams", "%d position parameters for orbits with %d free coordinates in total" % (len(sc.pospars), dims), data)
    vals = {s: F(float(v)) for s, v in sc.pospars}
    for i in range(n if not with_u else 0):
        eq = sc.poseqns[i]
        if eq is None or sorted(eq) != ["x", "y", "z"]:
            yield ("formulas", "position %d has formulas %r" % (i, eq), data)
            return
        y = [eval_formula_ast(eq[c], vals) for c in "xyz"]
        if not near_mod1(y, list(exact[i]), max(4 * TOL_POS, 6 * noise)):
            yield ("reproduce", "listing formulas %r at %r give %s for exact position %s" % (
                eq, sc.pospars, [float(v) for v in y], [float(v) for v in exact[i]]), data)
            return
        if max(abs(float(a) - b) for a, b in zip(sc.positions[i], positions[i])) > max(1e-5, 4 * noise):
            yield ("adjust", "position %d was moved from %s to %s" % (i, positions[i], list(sc.positions[i])), data)
            return
    if with_u:
        uvals = {s: F(float(v)) for s, v in sc.Upars}
        for i in range(n):
            stab = st.stabiliser(ops, list(exact[i]))
            U = [F(float(sc.Uijs[i][a][b])) for a, b in UIDX]
            tol = F(1, 10 ** 9)
            for g in stab:
                if max(abs(a - b) for a, b in zip(conj(ops[g][0], U), U)) > tol:
                    yield ("uinv", "constrained Uij of position %d is not invariant under its site symmetry" % i, data)
                    return
            ue = sc.Ueqns[i]
            got = [eval_formula_ast(ue[s], uvals) for s in USYM]
            if max(abs(a - b) for a, b in zip(got, U)) > tol:
                yield ("uformula", "listing U formulas %r at the reported parameters do not give Uijs[%d]" % (ue, i), data)
                return
            rows = []
            for g in stab:
                cols = [conj(ops[g][0], unit(6, j)) for j in range(6)]
                rows += [[cols[j][r] - int(r == j) for j in range(6)] for r in range(6)]
            if bool(sc.Uisotropy[i]) != (6 - st.rank(rows, 6) == 1):
                yield ("iso", "Uisotropy[%d]=%s disagrees with the dimension of the allowed space" % (i, sc.Uisotropy[i]), data)
                return
        # ExpandAsymmetricUnit on the generators found: rotated tensors at the expanded positions
        core = [list(map(float, p)) for p in sc.corepos]
        coreU = [numpy.array(sc.Uijs[i]) for i in sorted(sc.coremap)]
        eau = ExpandAsymmetricUnit(sg, core, coreU)
        for ci, (poss, Us) in enumerate(zip(eau.expandedpos, eau.expandedUijs)):
            x = exact[sorted(sc.coremap)[ci]]
            U0 = [F(float(coreU[ci][a][b])) for a, b in UIDX]
            if eau.multiplicity[ci] != len(st.orbit(ops, list(x))):
                yield ("multiplicity", "ExpandAsymmetricUnit multiplicity %d for an orbit of %d" % (
                    eau.multiplicity[ci], len(st.orbit(ops, list(x)))), data)
                return
            for pos, Ue in zip(poss, Us):
                g = next((gi for gi, op in enumerate(ops) if near_mod1(st.apply_op(op, list(x)), [F(float(v)) for v in pos], 4 * TOL_POS)), None)
                if g is None:
                    yield ("expand", "expanded position %s is not an image of its generator" % (list(pos),), data)
                    return
                want_u = conj(ops[g][0], U0)
                got_u = [F(float(Ue[a][b])) for a, b in UIDX]
                if max(abs(a - b) for a, b in zip(want_u, got_u)) > F(1, 10 ** 9):
                    yield ("equ", "expanded Uij at %s is not the rotated generator tensor" % (list(pos),), data)
                    return
