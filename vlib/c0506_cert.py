"""C05/C06: run the real GeneratorSite on exact sites, turn what it reports into certificates for the
extracted Coq checker (ocaml/C0506/c0506_checker), and state the property directly on the real code (finders).

All comparisons against the implementation are made with exact Fractions; the tolerances are named constants.
"""
import ast
import math
import os
import re
import subprocess
from fractions import Fraction as F

import numpy

from vlib import c0506_strata as st

TOL_POS = F(1, 100000)        # the module's position tolerance (epsilon = 1e-5): constants are printed with %g
TOL_RATIONAL = 1e-9           # a reported null-space / Uspace entry must be this close to a small rational
U_REL = F(1, 10 ** 9)         # relative tolerance for displacement tensors (doubles)
CHECKER = os.path.join(os.path.dirname(os.path.dirname(os.path.abspath(__file__))), "ocaml", "C0506", "c0506_checker")
USYM = ["U11", "U22", "U33", "U12", "U13", "U23"]
UIDX = [(0, 0), (1, 1), (2, 2), (0, 1), (0, 2), (1, 2)]


class CertError(Exception):
    """What the code reported cannot be put into certificate form (the clause is named in the message)."""


# ---------------------------------------------------------------- formula reader
_TERM = re.compile(r"\s*([+-]?)\s*(?:((?:\d+(?:\.\d*)?|\.\d+)(?:[eE][-+]?\d+)?)(?:/(\d+))?)?\s*(?:\*?\s*([A-Za-z_]\w*))?")


def parse_linear(s, symbols):
    """'-x +1/3', '0.5*U11-U12', '+0.13' -> ({symbol: Fraction}, constant Fraction).  Exact decimal reading."""
    coeffs = {}
    const = F(0)
    pos = 0
    s = s.strip()
    if not s:
        raise CertError("empty formula")
    while pos < len(s):
        m = _TERM.match(s, pos)
        if m is None or m.end() == pos or (m.group(2) is None and m.group(4) is None):
            raise CertError("formula %r not understood at %d" % (s, pos))
        sign = -1 if m.group(1) == "-" else 1
        val = F(m.group(2)) if m.group(2) is not None else F(1)
        if m.group(3) is not None:
            if int(m.group(3)) == 0:
                raise CertError("formula %r divides by zero" % s)
            val = val / int(m.group(3))
        if m.group(4) is not None:
            sym = m.group(4)
            if sym not in symbols:
                raise CertError("formula %r uses unknown symbol %s" % (s, sym))
            coeffs[sym] = coeffs.get(sym, F(0)) + sign * val
        else:
            const += sign * val
        pos = m.end()
    return coeffs, const


def eval_formula_ast(s, values):
    """Independent reading of the same string by Python's own parser (only + - * / numbers names)."""
    def ev(n):
        if isinstance(n, ast.Expression):
            return ev(n.body)
        if isinstance(n, ast.BinOp) and isinstance(n.op, (ast.Add, ast.Sub, ast.Mult, ast.Div)):
            a, b = ev(n.left), ev(n.right)
            return a + b if isinstance(n.op, ast.Add) else a - b if isinstance(n.op, ast.Sub) else a * b if isinstance(n.op, ast.Mult) else a / b
        if isinstance(n, ast.UnaryOp) and isinstance(n.op, (ast.UAdd, ast.USub)):
            v = ev(n.operand)
            return -v if isinstance(n.op, ast.USub) else v
        if isinstance(n, ast.Constant) and isinstance(n.value, (int, float)) and not isinstance(n.value, bool):
            return F(repr(n.value))
        if isinstance(n, ast.Name) and n.id in values:
            return values[n.id]
        raise CertError("formula %r: unexpected syntax" % s)
    return ev(ast.parse(s.strip(), mode="eval"))


def read_formula(s, symbols, rng):
    """parse_linear cross-checked against the ast evaluation at a random exact point."""
    coeffs, const = parse_linear(s, symbols)
    vals = {k: F(rng.randrange(-999, 1000), 1009) for k in symbols}
    a = const + sum(c * vals[k] for k, c in coeffs.items())
    b = eval_formula_ast(s, vals)
    if a != b:
        raise CertError("formula reader disagrees with Python's parser on %r" % s)
    return coeffs, const


# ---------------------------------------------------------------- exact helpers
def rationalise(v, maxden=200):
    fr = F(float(v)).limit_denominator(maxden)
    if abs(float(fr) - float(v)) > TOL_RATIONAL:
        raise CertError("entry %r is not a small rational" % (float(v),))
    return fr


def conj(R, U):
    """R U R^T for R tuple of 9 ints and U = 6-vector (U11,U22,U33,U12,U13,U23) of Fractions."""
    M = [[U[0], U[3], U[4]], [U[3], U[1], U[5]], [U[4], U[5], U[2]]]
    RU = [[sum(R[3 * i + k] * M[k][j] for k in range(3)) for j in range(3)] for i in range(3)]
    X = [[sum(RU[i][k] * R[3 * j + k] for k in range(3)) for j in range(3)] for i in range(3)]
    return [X[a][b] for a, b in UIDX]


def unit(n, j):
    return [F(int(i == j)) for i in range(n)]


def span_witness(basis, dmats, n):
    """basis: k rows of length n; dmats: list of n x n matrices D_g (as rows).  Returns (P, C) with
    P (k x n) dual to the basis and C = list of n x n blocks (rows) with  B^T P + sum_g C_g D_g = I,
    or zeros where no such witness exists (the Coq clause then fails)."""
    k = len(basis)
    zeroP = [[F(0)] * n for _ in range(k)]
    zeroC = [[[F(0)] * n for _ in range(n)] for _ in dmats]
    if k:
        gram = [[sum(a * b for a, b in zip(r1, r2)) for r2 in basis] for r1 in basis]
        gi = st.matinv(gram)
        if gi is None:
            return zeroP, zeroC
        P = [[sum(gi[i][j] * basis[j][c] for j in range(k)) for c in range(n)] for i in range(k)]
    else:
        P = []
    E = [[F(int(i == j)) - sum(basis[l][i] * P[l][j] for l in range(k)) for j in range(n)] for i in range(n)]
    Drows = [row for D in dmats for row in D]           # (n*|S|) x n
    ncols = len(Drows)
    DT = [[Drows[r][c] for r in range(ncols)] for c in range(n)]   # n x ncols
    Crows = []
    for i in range(n):
        if ncols == 0:
            if any(v != 0 for v in E[i]):
                return P, zeroC
            Crows.append([])
            continue
        sol = st.solve_particular(DT, E[i], ncols)
        if sol is None:
            return P, zeroC
        Crows.append(sol)
    C = [[[Crows[i][n * g + j] for j in range(n)] for i in range(n)] for g in range(len(dmats))]
    return P, C


def qs(fr):
    fr = F(fr)
    return "%d %d" % (fr.numerator, fr.denominator)


# ---------------------------------------------------------------- running the implementation on one site
def observe(sg, x, Uin6):
    """Run GeneratorSite(sg, float(x), float(U)) and collect everything C05/C06 look at.
    x: 3 Fractions, Uin6: 6 Fractions.  Returns a dict of plain Python data (floats kept as floats)."""
    from diffpy.structure.symmetryutilities import GeneratorSite
    xyz = numpy.array([float(v) for v in x])
    U = numpy.zeros((3, 3))
    for v, (a, b) in zip(Uin6, UIDX):
        U[a, b] = U[b, a] = float(v)
    gen = GeneratorSite(sg, xyz, U)
    idx = {id(op): j for j, op in enumerate(sg.symop_list)}
    obs = {
        "x": list(x), "Uin": [float(v) for v in Uin6],
        "xyz_adj": [float(v) for v in gen.xyz],
        "inv": sorted(idx[id(op)] for op in gen.invariants),
        "mult": int(gen.multiplicity),
        "N": [[float(v) for v in row] for row in numpy.asarray(gen.null_space).reshape(-1, 3)],
        "ppar": [(n, float(v)) for n, v in gen.pparameters],
        "Usp": [[[float(v) for v in r] for r in M] for M in gen.Uspace],
        "Upar": [(n, float(v)) for n, v in gen.Uparameters],
        "Uij": [[float(v) for v in r] for r in gen.Uij],
        "iso": bool(gen.Uisotropy),
        "eq": [],
    }
    for i, pos in enumerate(gen.eqxyz):
        obs["eq"].append({
            "rep": idx[id(gen.symops[i][0])],
            "ops": sorted(idx[id(o)] for o in gen.symops[i]),
            "pos": [float(v) for v in pos],
            "pf": dict(gen.positionFormula(pos)),
            "uf": dict(gen.UFormula(pos)),
            "eqU": [[float(v) for v in r] for r in gen.eqUij[i]],
        })
    return obs


def sym6(M, what):
    for a in range(3):
        for b in range(a):
            if M[a][b] != M[b][a] and abs(M[a][b] - M[b][a]) > 1e-12 * (1 + abs(M[a][b])):
                raise CertError("%s is not symmetric" % what)
    return [M[a][b] for a, b in UIDX]


def pos_case(si, ops, stab, obs, rng):
    """Certificate line (kind 5) for the extracted checker + the parsed exact data used by the finder."""
    k = len(obs["N"])
    N = [[rationalise(v, 64) for v in row] for row in obs["N"]]
    names = [n for n, _ in obs["ppar"]]
    if len(names) != k or len(set(names)) != k:
        raise CertError("pparameters %r do not match the %d null-space rows" % (names, k))
    p0 = [F(v) for _, v in obs["ppar"]]
    dm = [[[F(ops[g][0][3 * a + b] - int(a == b)) for b in range(3)] for a in range(3)] for g in stab]
    P, C = span_witness(N, dm, 3)
    toks = ["5", str(si)] + [qs(v) for v in obs["x"]] + [qs(TOL_POS), str(k)]
    toks += [qs(v) for row in N for v in row] + [qs(v) for v in p0] + [qs(v) for row in P for v in row]
    toks += [str(len(obs["inv"]))] + [str(i) for i in obs["inv"]]
    toks += [str(len(C))]
    for Cg in C:
        for j in range(3):
            toks += [qs(Cg[i][j]) for i in range(3)]
    toks.append(str(len(obs["eq"])))
    forms = []
    for e in obs["eq"]:
        A = [[F(0)] * 3 for _ in range(k)]
        c = [F(0)] * 3
        if sorted(e["pf"]) != ["x", "y", "z"]:
            raise CertError("positionFormula returned keys %r" % sorted(e["pf"]))
        for ci, coord in enumerate("xyz"):
            co, cst = read_formula(e["pf"][coord], names, rng)
            c[ci] = cst
            for nm, v in co.items():
                A[names.index(nm)][ci] = v
        forms.append((A, c))
        toks.append(str(e["rep"]))
        toks += [qs(F(v)) for v in e["pos"]]
        toks += [qs(v) for col in A for v in col] + [qs(v) for v in c]
    return " ".join(toks), {"N": N, "p0": p0, "names": names, "forms": forms}


def u_case(si, ops, stab, obs, rng):
    """Certificate line (kind 6)."""
    B = [[rationalise(v, 1000) for v in sym6(M, "Uspace member")] for M in obs["Usp"]]
    k = len(B)
    names = [n for n, _ in obs["Upar"]]
    if len(names) != k or len(set(names)) != k:
        raise CertError("Uparameters %r do not match the %d Uspace members" % (names, k))
    floats = list(obs["Uin"]) + [v for _, v in obs["Upar"]] + [v for r in obs["Uij"] for v in r]
    for e in obs["eq"]:
        floats += [v for r in e["eqU"] for v in r]
    if not all(math.isfinite(v) for v in floats):
        raise CertError("a reported tensor entry is not finite")
    scale = 1
    for v in floats:
        d = F(v).denominator
        if d > scale:
            scale = d
    sc = lambda v: str(int(F(v) * scale)) + " 1"      # noqa: E731  (exact: scale is a common power of two)
    umax = max([abs(F(v)) for v in obs["Uin"]] + [F(1, 1000)])
    tol = (U_REL * umax + F(1, 10 ** 13)) * scale
    dm = []
    for g in stab:
        cols = [conj(ops[g][0], unit(6, j)) for j in range(6)]
        dm.append([[cols[j][i] - int(i == j) for j in range(6)] for i in range(6)])
    P, C = span_witness(B, dm, 6)
    toks = ["6", str(si)] + [qs(v) for v in obs["x"]] + [qs(tol), str(k)]
    toks += [qs(v) for b in B for v in b]
    toks += [sc(v) for v in obs["Uin"]] + [sc(v) for _, v in obs["Upar"]] + [sc(v) for v in sym6(obs["Uij"], "Uij")]
    toks.append("1" if obs["iso"] else "0")
    toks += [qs(v) for row in P for v in row]
    toks.append(str(len(C)))
    for Cg in C:
        for j in range(6):
            toks += [qs(Cg[i][j]) for i in range(6)]
    toks.append(str(len(obs["eq"])))
    forms = []
    for e in obs["eq"]:
        cols = [[F(0)] * 6 for _ in range(k)]
        if sorted(e["uf"]) != sorted(USYM):
            raise CertError("UFormula returned keys %r" % sorted(e["uf"]))
        for ui, usym in enumerate(USYM):
            co, cst = read_formula(e["uf"][usym], names, rng)
            if cst != 0:
                raise CertError("UFormula %s = %r has a constant term" % (usym, e["uf"][usym]))
            for nm, v in co.items():
                cols[names.index(nm)][ui] = v
        forms.append(cols)
        toks.append(str(e["rep"]))
        toks += [sc(v) for v in sym6(e["eqU"], "eqUij")]
        toks += [qs(v) for col in cols for v in col]
    return " ".join(toks), {"B": B, "names": names, "forms": forms}


POS_CLAUSES = {1: "invariants = exact stabiliser", 2: "null-space rows fixed by the site symmetry", 3: "one parameter per row",
               4: "rows independent", 5: "rows span the whole fixed space", 6: "formula coefficients = R_i N^T",
               7: "formulas at the reported parameters reproduce the images", 8: "reported equivalent positions = images",
               9: "listed positions are the whole orbit", 10: "listed positions pairwise different",
               -1: "certificate undecodable", -2: "no such setting", -3: "driver failure", -4: "driver stack overflow"}
U_CLAUSES = {1: "Uspace members invariant", 2: "Uspace members independent", 3: "Uspace spans the whole invariant space",
             4: "projection leaves the space fixed", 5: "Uisotropy <-> one parameter", 6: "U formula coefficients = R_i B R_i^T",
             7: "Uparameters = projection coefficients of the input", 8: "stored Uij = projection of the input",
             9: "eqUij = R_i Uij R_i^T and formulas at the reported parameters reproduce it",
             -1: "certificate undecodable", -2: "no such setting", -3: "driver failure", -4: "driver stack overflow"}


def run_checker(lines, nproc=16, timeout=1500):
    """Feed certificate lines to parallel instances of the extracted checker.  -> list of lists of failed clauses."""
    if not lines:
        return []
    nproc = max(1, min(nproc, len(lines)))
    order = sorted(range(len(lines)), key=lambda i: -len(lines[i]))
    chunks = [[] for _ in range(nproc)]
    for n, i in enumerate(order):
        chunks[n % nproc].append(i)
    procs = []
    for ch in chunks:
        p = subprocess.Popen(["bash", "-c", "ulimit -s unlimited 2>/dev/null; exec %s" % CHECKER], stdin=subprocess.PIPE,
                             stdout=subprocess.PIPE, stderr=subprocess.PIPE, text=True)
        procs.append((p, ch))
    import threading
    results = [None] * len(lines)

    def feed(p, ch):
        try:
            out, err = p.communicate("\n".join(lines[i] for i in ch) + "\n", timeout=timeout)
        except subprocess.TimeoutExpired:
            p.kill()
            out = ""
        rs = [ln for ln in out.splitlines() if ln.startswith("R")]
        for n, i in enumerate(ch):
            if n < len(rs):
                results[i] = [int(t) for t in rs[n].split()[1:]]
            else:
                results[i] = [-3]
    ths = [threading.Thread(target=feed, args=pc) for pc in procs]
    for t in ths:
        t.start()
    for t in ths:
        t.join()
    return results


# ---------------------------------------------------------------- finders: the property on the real code
def near_mod1(a, b, tol):
    return st.box_dist(a, b) <= tol


def finder_pos(ops, stab, obs, parsed, rng, nparam=2):
    """C05 stated directly on what the code returned.  Yields (kind, message, data)."""
    x = obs["x"]
    k = len(parsed["N"]) if parsed else len(obs["N"])
    dim = 3 - st.rank([[ops[g][0][3 * a + b] - int(a == b) for b in range(3)] for g in stab for a in range(3)], 3)
    orb = st.orbit(ops, x)
    if obs["mult"] != len(orb) or len(obs["eq"]) != len(orb):
        yield ("multiplicity", "multiplicity %d reported, exact orbit has %d points" % (obs["mult"], len(orb)), {})
    if len(obs["ppar"]) != dim:
        yield ("nparams", "%d position parameters reported, the site symmetry leaves %d free" % (len(obs["ppar"]), dim), {})
    if parsed is None:
        return
    names = parsed["names"]
    p0 = parsed["p0"]

    def images(p):
        return [[c[i] + sum(A[j][i] * p[j] for j in range(k)) for i in range(3)] for A, c in parsed["forms"]]
    # formulas at the reported parameters reproduce the reported positions and the exact images
    for e, y in zip(obs["eq"], images(p0)):
        if not near_mod1(y, [F(v) for v in e["pos"]], 2 * TOL_POS) or not near_mod1(y, st.apply_op(ops[e["rep"]], x), 2 * TOL_POS):
            yield ("reproduce", "formulas %r at %r give %s, position is %s" % (
                e["pf"], obs["ppar"], [float(v) for v in y], e["pos"]), {"formula": e["pf"]})
            break
    # other parameter values: still a full orbit of the same multiplicity.  The constants of the formulas carry
    # six digits, so the orbit of the moved generator is taken modulo CLUSTER (images closer than that are one site).
    Rm = numpy.array([[[op[0][3 * a + b] for b in range(3)] for a in range(3)] for op in ops], dtype=float)
    tv = numpy.array([[v / 12.0 for v in op[1]] for op in ops])
    for _ in range(nparam):
        for attempt in range(6):
            pr = st.BIGPRIMES[rng.randrange(len(st.BIGPRIMES))]
            p = [p0[j] + F(rng.randrange(pr[j] // 100 + 1, pr[j] // 7), pr[j]) * rng.choice((-1, 1)) for j in range(k)]
            ys = numpy.array([[float(v) for v in y] for y in images(p)])
            img = (Rm @ ys[0] + tv) % 1.0
            reps = []
            for q in img:
                if not any(_boxd(q, r) <= CLUSTER for r in reps):
                    reps.append(q)
            # fewer positions: the random parameters came within CLUSTER of a more special position; draw again
            # (reported only if it happens six times in a row)
            if len(reps) >= len(ys) or k == 0:
                break
        used = set()
        ok = True
        for y in ys:
            hit = next((n for n, o in enumerate(reps) if n not in used and _boxd(y % 1.0, o) <= CLUSTER), None)
            if hit is None:
                ok = False
                break
            used.add(hit)
        if len(reps) != len(ys) or not ok:
            tag = ""
            for row in parsed["N"]:
                for g in stab:
                    R = ops[g][0]
                    if [sum(R[3 * a + b] * row[b] for b in range(3)) for a in range(3)] != list(row):
                        tag = "row-not-fixed=(%s)" % ",".join(str(v) for v in row)
                        break
                if tag:
                    break
            yield ("moved" + (":" + tag if tag else ""), "parameters %s = %s: generator %s has %d equivalent positions, the %d formulas give %s" % (
                names, [float(v) for v in p], [float(v) for v in ys[0]], len(reps), len(ys),
                "a different set" if len(reps) == len(ys) else "not its orbit"),
                {"params": [float(v) for v in p], "generator": [float(v) for v in ys[0]], "orbit_size": len(reps),
                 "formulas": [e["pf"] for e in obs["eq"]][:4]})
            break


CLUSTER = 1e-4


def _boxd(a, b):
    d = numpy.abs(a - b) % 1.0
    return float(numpy.max(numpy.minimum(d, 1.0 - d)))


def finder_u(sg, ops, stab, obs, parsed, rng):
    """C06 stated directly on what the code returned (exact group average as oracle)."""
    from diffpy.structure.symmetryutilities import GeneratorSite
    Rs = [ops[g][0] for g in stab]
    rows = []
    for R in Rs:
        cols = [conj(R, unit(6, j)) for j in range(6)]
        rows += [[cols[j][i] - int(i == j) for j in range(6)] for i in range(6)]
    dim = 6 - st.rank(rows, 6)
    if len(obs["Usp"]) != dim:
        yield ("udim", "Uspace has %d members, the invariant space has dimension %d" % (len(obs["Usp"]), dim), {})
    if obs["iso"] != (dim == 1):
        yield ("iso", "Uisotropy=%s but %d free tensor parameters" % (obs["iso"], dim), {})
    Uij = [F(v) for v in sym6(obs["Uij"], "Uij")]
    scale = max([abs(v) for v in Uij] + [abs(F(v)) for v in obs["Uin"]] + [F(1, 1000)])
    tol = scale * F(1, 10 ** 8)
    for R in Rs:
        if max(abs(a - b) for a, b in zip(conj(R, Uij), Uij)) > tol:
            yield ("uinv", "stored Uij %s is not invariant under site rotation %s" % (obs["Uij"], R), {})
            break
    for e in obs["eq"]:
        want = conj(ops[e["rep"]][0], Uij)
        got = [F(v) for v in sym6(e["eqU"], "eqUij")]
        if max(abs(a - b) for a, b in zip(want, got)) > tol:
            yield ("equ", "eqUij at %s is not R Uij R^T for its operation" % (e["pos"],), {})
            break
        if parsed is not None:
            par = [F(v) for _, v in obs["Upar"]]
            val = [sum(parsed["forms"][obs["eq"].index(e)][j][i] * par[j] for j in range(len(par))) for i in range(6)]
            if max(abs(a - b) for a, b in zip(val, got)) > tol:
                yield ("uformula", "UFormula %r at %r does not give eqUij %s" % (e["uf"], obs["Upar"], e["eqU"]), {})
                break
    # an allowed input comes back unchanged (exact group average of the input as allowed tensor)
    Uin = [F(v) for v in obs["Uin"]]
    avg = [sum(conj(R, Uin)[i] for R in Rs) / len(Rs) for i in range(6)]
    U = numpy.zeros((3, 3))
    for v, (a, b) in zip(avg, UIDX):
        U[a, b] = U[b, a] = float(v)
    gen = GeneratorSite(sg, numpy.array([float(v) for v in obs["x"]]), U)
    back = [F(float(gen.Uij[a, b])) for a, b in UIDX]
    if max(abs(a - b) for a, b in zip(back, avg)) > tol:
        yield ("ufix", "allowed tensor %s is returned as %s" % ([float(v) for v in avg], [float(v) for v in back]),
               {"Uallowed": [str(v) for v in avg]})


# ---------------------------------------------------------------- whole lists: SymmetryConstraints / ExpandAsymmetricUnit
def make_listing(ops, strata_pts, rng, noise=1e-7):
    """strata_pts: list of (stratum, exact point).  Returns (positions float list, labels, exact orbits) for the union
    of the exact orbits, shuffled, shifted by whole cells, with uniform noise; None when two chosen sites are equivalent."""
    orbs = []
    seen = set()
    for stratum, x in strata_pts:
        o = [tuple(p) for p, _ in st.orbit(ops, x)]
        if seen & set(o):
            return None
        seen |= set(o)
        orbs.append(o)
    items = []
    for lab, o in enumerate(orbs):
        for p in o:
            shift = [rng.randrange(-2, 3) for _ in range(3)]
            items.append((lab, [float(p[i]) + shift[i] + rng.uniform(-noise, noise) for i in range(3)], p))
    rng.shuffle(items)
    return [it[1] for it in items], [it[0] for it in items], [it[2] for it in items]


def finder_listing(sg, ops, strata_pts, rng, with_u=False):
    """The partition clause of C05 (and the whole-structure clauses of C06) on the real SymmetryConstraints.
    Yields (kind, message, data)."""
    from diffpy.structure.symmetryutilities import SymmetryConstraints, ExpandAsymmetricUnit
    # every third listing is noisier than the default tolerance and is constrained with an explicit, matching tolerance
    noisy = (not with_u) and rng.random() < 0.34
    noise, eps = (5e-5, 2e-4) if noisy else (1e-7, None)
    made = make_listing(ops, strata_pts, rng, noise=noise)
    if made is None:
        return
    positions, labels, exact = made
    n = len(positions)
    # margin rule: two listed sites of DIFFERENT exact orbits closer than the tolerance in force (plus the noise on both) are
    # legitimately merged by a tolerance-based grouping; such listings are not judged
    eff = (eps if eps is not None else 1e-5) + 2 * noise
    for i in range(n):
        for j in range(i + 1, n):
            if labels[i] != labels[j]:
                d = max(abs(float(a - b) - round(float(a - b))) for a, b in zip(exact[i], exact[j]))
                if d <= 4 * eff:
                    return
    Uijs = None
    if with_u:
        Uijs = []
        for _ in range(n):
            d = [rng.randrange(20, 900) / 10000.0 for _ in range(3)]
            o = [rng.randrange(-150, 150) / 10000.0 for _ in range(3)]
            Uijs.append([[d[0], o[0], o[1]], [o[0], d[1], o[2]], [o[1], o[2], d[2]]])
        if rng.random() < 0.25:
            # all-integer tensors (nested int lists, as in the module's own demo): results must not be truncated
            Uijs = []
            for _ in range(n):
                d = [rng.randrange(1, 10) for _ in range(3)]
                o = [rng.randrange(-2, 3) for _ in range(3)]
                Uijs.append([[d[0], o[0], o[1]], [o[0], d[1], o[2]], [o[1], o[2], d[2]]])
    sc = SymmetryConstraints(sg, [list(p) for p in positions], Uijs=Uijs) if eps is None else \
        SymmetryConstraints(sg, [list(p) for p in positions], Uijs=Uijs, eps=eps)
    data = {"positions": positions, "labels": labels}
    want = {}
    for i, lab in enumerate(labels):
        want.setdefault(lab, []).append(i)
    want_part = sorted(sorted(v) for v in want.values())
    got_part = sorted(sorted(v) for v in sc.coremap.values())
    if got_part != want_part:
        if not with_u:      # the partition clause belongs to C05; C06 only looks at tensors of correctly grouped positions
            yield ("partition", "coremap classes %s, exact orbits %s" % (got_part[:6], want_part[:6]), data)
        return
    for gidx, members in sc.coremap.items():
        if gidx != min(members):
            yield ("partition", "generator %d is not the first listed member of its orbit %s" % (gidx, sorted(members)[:8]), data)
            return
    if len(sc.corepos) != len(want):
        yield ("partition", "%d core positions for %d orbits" % (len(sc.corepos), len(want)), data)
        return
    dims = sum(len(s["fix"]) for s, _ in strata_pts)
    if not with_u and len(sc.pospars) != dims:
        yield ("nparams", "%d position parameters for orbits with %d free coordinates in total" % (len(sc.pospars), dims), data)
    vals = {s: F(float(v)) for s, v in sc.pospars}
    for i in range(n if not with_u else 0):
        eq = sc.poseqns[i]
        if eq is None or sorted(eq) != ["x", "y", "z"]:
            yield ("formulas", "position %d has formulas %r" % (i, eq), data)
            return
        y = [eval_formula_ast(eq[c], vals) for c in "xyz"]
        if not near_mod1(y, list(exact[i]), max(4 * TOL_POS, 6 * noise)):
            yield ("reproduce", "listing formulas %r at %r give %s for exact position %s" % (
                eq, sc.pospars, [float(v) for v in y], [float(v) for v in exact[i]]), data)
            return
        if max(abs(float(a) - b) for a, b in zip(sc.positions[i], positions[i])) > max(1e-5, 4 * noise):
            yield ("adjust", "position %d was moved from %s to %s" % (i, positions[i], list(sc.positions[i])), data)
            return
    if with_u:
        uvals = {s: F(float(v)) for s, v in sc.Upars}
        for i in range(n):
            stab = st.stabiliser(ops, list(exact[i]))
            U = [F(float(sc.Uijs[i][a][b])) for a, b in UIDX]
            tol = F(1, 10 ** 9)
            for g in stab:
                if max(abs(a - b) for a, b in zip(conj(ops[g][0], U), U)) > tol:
                    yield ("uinv", "constrained Uij of position %d is not invariant under its site symmetry" % i, data)
                    return
            ue = sc.Ueqns[i]
            got = [eval_formula_ast(ue[s], uvals) for s in USYM]
            if max(abs(a - b) for a, b in zip(got, U)) > tol:
                yield ("uformula", "listing U formulas %r at the reported parameters do not give Uijs[%d]" % (ue, i), data)
                return
            rows = []
            for g in stab:
                cols = [conj(ops[g][0], unit(6, j)) for j in range(6)]
                rows += [[cols[j][r] - int(r == j) for j in range(6)] for r in range(6)]
            if bool(sc.Uisotropy[i]) != (6 - st.rank(rows, 6) == 1):
                yield ("iso", "Uisotropy[%d]=%s disagrees with the dimension of the allowed space" % (i, sc.Uisotropy[i]), data)
                return
        # ExpandAsymmetricUnit on the generators found: rotated tensors at the expanded positions
        core = [list(map(float, p)) for p in sc.corepos]
        coreU = [numpy.array(sc.Uijs[i]) for i in sorted(sc.coremap)]
        eau = ExpandAsymmetricUnit(sg, core, coreU)
        for ci, (poss, Us) in enumerate(zip(eau.expandedpos, eau.expandedUijs)):
            x = exact[sorted(sc.coremap)[ci]]
            U0 = [F(float(coreU[ci][a][b])) for a, b in UIDX]
            if eau.multiplicity[ci] != len(st.orbit(ops, list(x))):
                yield ("multiplicity", "ExpandAsymmetricUnit multiplicity %d for an orbit of %d" % (
                    eau.multiplicity[ci], len(st.orbit(ops, list(x)))), data)
                return
            for pos, Ue in zip(poss, Us):
                g = next((gi for gi, op in enumerate(ops) if near_mod1(st.apply_op(op, list(x)), [F(float(v)) for v in pos], 4 * TOL_POS)), None)
                if g is None:
                    yield ("expand", "expanded position %s is not an image of its generator" % (list(pos),), data)
                    return
                want_u = conj(ops[g][0], U0)
                got_u = [F(float(Ue[a][b])) for a, b in UIDX]
                if max(abs(a - b) for a, b in zip(want_u, got_u)) > F(1, 10 ** 9):
                    yield ("equ", "expanded Uij at %s is not the rotated generator tensor" % (list(pos),), data)
                    return


# ---------------------------------------------------------------- usage patterns: shared arrays, non-default eps, read-only queries
def _sym(U6):
    M = numpy.zeros((3, 3))
    for v, (a, b) in zip(U6, UIDX):
        M[a, b] = M[b, a] = float(v)
    return M


def _formulas_tensor(uf, upars):
    vals = {s: F(float(v)) for s, v in upars}
    return [eval_formula_ast(uf[s], vals) for s in USYM]


def _gen_state(g):
    return {"xyz": numpy.array(g.xyz), "Uij": numpy.array(g.Uij), "eqxyz": [numpy.array(p) for p in g.eqxyz],
            "eqUij": [numpy.array(u) for u in g.eqUij], "ppar": list(g.pparameters), "Upar": list(g.Uparameters),
            "N": numpy.array(g.null_space), "Usp": numpy.array(g.Uspace), "iso": g.Uisotropy, "mult": g.multiplicity}


def _state_diff(a, b):
    for k in a:
        x, y = a[k], b[k]
        if isinstance(x, list) and x and isinstance(x[0], numpy.ndarray):
            same = len(x) == len(y) and all(numpy.array_equal(p, q) for p, q in zip(x, y))
        elif isinstance(x, numpy.ndarray):
            same = x.shape == y.shape and numpy.array_equal(x, y)
        else:
            same = x == y
        if not same:
            return k
    return None


def make_usage_case(ops, strata, rng, maxorbit=48):
    """Exact sites for the usage-pattern finder of one setting: s1 = most special stratum, s2 = a different one
    (general position if nothing else), both with decision margin > 1/100 so that eps = 1e-3 is unambiguous."""
    order = sorted(range(len(strata)), key=lambda i: (-len(strata[i]["stab"]), rng.random()))
    pts = []
    first = None
    for i in order:
        x = st.sample_point(ops, strata[i], rng, margin=F(1, 100))
        if x is not None:
            pts.append(x)
            first = i
            break
    if first is not None:
        others = [j for j in order if j != first]
        rng.shuffle(others)
        others.sort(key=lambda j: len(ops) // len(strata[j]["stab"]) > maxorbit)     # small orbits first, any as fallback
        for j in others + [first]:
            y = st.sample_point(ops, strata[j], rng, margin=F(1, 100))
            if y is not None:
                pts.append(y)
                break
    if not pts:
        return None
    d = [rng.randrange(20, 900) / 10000.0 for _ in range(3)]
    o = [rng.randrange(-150, 150) / 10000.0 for _ in range(3)]
    return {"sites": [[str(v) for v in x] for x in pts], "U": [d[0], d[1], d[2], o[0], o[1], o[2]],
            "delta": [rng.choice((-1, 1)) * rng.randrange(1, 4) / 10.0 for _ in range(3)]}


def _boxd_exact(u, v):
    m = F(0)
    for a, b in zip(u, v):
        d = (a - b) - math.floor(a - b)
        if d > F(1, 2):
            d = 1 - d
        m = max(m, d)
    return m


def query_record(g, q, eps, pid):
    """One query of the real GeneratorSite next to the certificate line for the extracted model
    (kind 7 = position_formula_query, 8 = u_formula_query); None when the decision margin is below 1e-9."""
    sites = [[F(float(v)) for v in p] for p in g.eqxyz]
    qq = [F(float(v)) for v in q]
    ds = sorted(_boxd_exact(sx, qq) for sx in sites)
    e = F(float(eps))
    if abs(ds[0] - e) < F(1, 10 ** 9) or (len(ds) > 1 and ds[1] - ds[0] < F(1, 10 ** 9)):
        return None
    kind = 7 if pid == "C05" else 8
    ans = g.positionFormula(q) if pid == "C05" else g.UFormula(q)
    real = int(g.eqIndex(q)) if ans else -9
    toks = [str(kind), "0", qs(e), str(len(sites))] + [qs(v) for sx in sites for v in sx] + [qs(v) for v in qq]
    return {"line": " ".join(toks), "real": real, "what": "GeneratorSite(%s, %s, eps=%g).%s(%s)" % (
        g_name(g), [float(v) for v in g.xyz], eps, "positionFormula" if pid == "C05" else "UFormula", [float(v) for v in q])}


def g_name(g):
    return getattr(getattr(g, "_c0506_sg", None), "short_name", "?")


def finder_usage(sg, ops, case, pid, qlog=None):
    """How the objects are used, on the real code.  Yields (kind, message, data); kinds prefixed by what they test:
    alias-*   the same float64 ndarray object handed over for several sites / constructions: the caller's array must stay
              unchanged and every result must equal the one obtained with fresh copies;
    eps-*     non-default tolerances (1e-3 with coordinates rounded to 4 decimals, 1e-7 with exact coordinates): formulas
              exist for every position within eps of an equivalent position and reproduce the stored values;
    query-*   read-only queries (formulas, pruned formulas, symbols) must not change what is returned afterwards."""
    from diffpy.structure.symmetryutilities import GeneratorSite, SymmetryConstraints, ExpandAsymmetricUnit
    sites = [[F(v) for v in x] for x in case["sites"]]
    xs = [numpy.array([float(v) for v in x]) for x in sites]
    U0 = _sym(case["U"])
    want_u = pid == "C06"
    data = {"usage": case}
    close = lambda a, b: numpy.allclose(a, b, rtol=0, atol=1e-12)      # noqa: E731

    # ---------------- aliasing
    ref = [GeneratorSite(sg, x.copy(), U0.copy()) for x in xs]
    U = U0.copy()
    built = []
    for n, x in enumerate(xs):
        xin = x.copy()
        g = GeneratorSite(sg, xin, U)
        if not numpy.array_equal(xin, x):
            if not want_u:
                yield ("alias-xyz", "GeneratorSite(%s, xyz=%s) changed the caller's coordinate array to %s" % (
                    sg.short_name, x.tolist(), xin.tolist()), data)
            return
        if want_u:
            if not numpy.array_equal(U, U0):
                yield ("alias-input", "GeneratorSite(%s, %s, U) overwrote the caller's tensor array: %s -> %s" % (
                    sg.short_name, x.tolist(), U0.tolist(), U.tolist()), data)
                return
            if not close(g.Uij, ref[n].Uij) or not all(close(a, b) for a, b in zip(g.eqUij, ref[n].eqUij)):
                yield ("alias-result", "GeneratorSite(%s, %s, U) built after %d other site(s) from the same array object stores %s, "
                       "with a fresh copy of the same tensor %s" % (sg.short_name, x.tolist(), n, g.Uij.tolist(), ref[n].Uij.tolist()), data)
                return
        built.append((g, _gen_state(g)))
        for gp, sp in built[:-1]:
            k = _state_diff(sp, _gen_state(gp))
            if k is not None and (want_u or k in ("xyz", "eqxyz", "ppar", "N", "mult")):
                yield ("alias-history", "attribute %s of GeneratorSite(%s, %s) changed when another GeneratorSite was built from the same arrays"
                       % (k, sg.short_name, xs[built.index((gp, sp))].tolist()), data)
                return
    if want_u and len(xs) > 1:
        U = U0.copy()
        e1 = ExpandAsymmetricUnit(sg, [x.tolist() for x in xs], len(xs) * [U])
        e2 = ExpandAsymmetricUnit(sg, [x.tolist() for x in xs], [U0.copy() for _ in xs])
        if not numpy.array_equal(U, U0):
            yield ("alias-input", "ExpandAsymmetricUnit(%s, %s, %d*[U]) overwrote the caller's tensor array" % (
                sg.short_name, [x.tolist() for x in xs], len(xs)), data)
            return
        for n in range(len(xs)):
            if not all(close(a, b) for a, b in zip(e1.expandedUijs[n], e2.expandedUijs[n])):
                yield ("alias-result", "ExpandAsymmetricUnit(%s, %s, %d*[U]): site %d gets %s, with separate copies of U %s" % (
                    sg.short_name, [x.tolist() for x in xs], len(xs), n, numpy.array(e1.expandedUijs[n][0]).tolist(),
                    numpy.array(e2.expandedUijs[n][0]).tolist()), data)
                return
    # arrays handed to SymmetryConstraints stay as they were
    P = numpy.array([x for x in xs] + [xs[0] + numpy.array([1.0, -1.0, 2.0])])
    UA = numpy.array([U0 for _ in range(len(P))])
    P0, UA0 = P.copy(), UA.copy()
    sc = SymmetryConstraints(sg, P, UA)
    if not numpy.array_equal(P, P0) and not want_u:
        yield ("alias-input", "SymmetryConstraints(%s, positions) modified the caller's position array" % sg.short_name, data)
        return
    if not numpy.array_equal(UA, UA0) and want_u:
        yield ("alias-input", "SymmetryConstraints(%s, positions, Uijs) modified the caller's Uijs array" % sg.short_name, data)
        return

    # ---------------- read-only queries
    import copy
    snap = copy.deepcopy((sc.poseqns, sc.pospars, sc.Ueqns, sc.Upars, sc.coremap, [list(map(float, p)) for p in sc.positions],
                          numpy.array(sc.Uijs).tolist(), list(sc.Uisotropy)))
    first = copy.deepcopy((sc.positionFormulas(), sc.UFormulas()))
    sc.positionFormulasPruned(); sc.UFormulasPruned(); sc.posparSymbols(); sc.posparValues(); sc.UparSymbols(); sc.UparValues()  # noqa: E702
    if sc.pospars:
        sc.positionFormulas(["p%d" % i for i in range(len(sc.pospars))]); sc.positionFormulasPruned(["p%d" % i for i in range(len(sc.pospars))])  # noqa: E702
    if sc.Upars:
        sc.UFormulas(["q%d" % i for i in range(len(sc.Upars))]); sc.UFormulasPruned(["q%d" % i for i in range(len(sc.Upars))])  # noqa: E702
    after = (sc.poseqns, sc.pospars, sc.Ueqns, sc.Upars, sc.coremap, [list(map(float, p)) for p in sc.positions],
             numpy.array(sc.Uijs).tolist(), list(sc.Uisotropy))
    names = ["poseqns", "pospars", "Ueqns", "Upars", "coremap", "positions", "Uijs", "Uisotropy"]
    mine = (0, 1, 4, 5) if not want_u else (2, 3, 6, 7)
    for i in mine:
        if snap[i] != after[i]:
            yield ("query-state", "SymmetryConstraints(%s).%s changed after the read-only queries positionFormulasPruned()/UFormulasPruned()/...: "
                   "%r -> %r" % (sg.short_name, names[i], snap[i][:3] if isinstance(snap[i], list) else snap[i],
                                 after[i][:3] if isinstance(after[i], list) else after[i]), data)
            return
    again = (sc.positionFormulas(), sc.UFormulas())
    if first[0 if not want_u else 1] != again[0 if not want_u else 1]:
        yield ("query-state", "SymmetryConstraints(%s).%s() returns %r after the pruned view was requested, before %r" % (
            sg.short_name, "positionFormulas" if not want_u else "UFormulas", again[0 if not want_u else 1][:2],
            first[0 if not want_u else 1][:2]), data)
        return
    g0 = ref[0]
    s0 = _gen_state(g0)
    q1 = [(dict(g0.positionFormula(p)), dict(g0.UFormula(p)), int(g0.eqIndex(p))) for p in g0.eqxyz]
    q2 = [(dict(g0.positionFormula(p)), dict(g0.UFormula(p)), int(g0.eqIndex(p))) for p in g0.eqxyz]
    k = _state_diff(s0, _gen_state(g0))
    if k is not None or q1 != q2:
        yield ("query-state", "GeneratorSite(%s, %s): %s changed by calling positionFormula/UFormula/eqIndex" % (
            sg.short_name, xs[0].tolist(), k or "the answers"), data)
        return

    # ---------------- non-default tolerances
    delta = numpy.array(case["delta"])
    for eps, rounded in ((1e-3, True), (1e-7, False)):
        for x, xf in zip(sites, xs):
            xin = numpy.round(xf, 4) if rounded else xf.copy()
            what = "GeneratorSite(%s, %s, U, eps=%g)" % (sg.short_name, xin.tolist(), eps)
            g = GeneratorSite(sg, xin, U0.copy(), eps=eps)
            orb = st.orbit(ops, x)
            if g.multiplicity != len(orb):
                if not want_u:
                    yield ("eps-multiplicity", "%s: multiplicity %d, the site within eps has an orbit of %d" % (what, g.multiplicity, len(orb)), data)
                break
            upar = g.Uparameters
            ppar = {n: F(float(v)) for n, v in g.pparameters}
            g._c0506_sg = sg
            for i, p in enumerate(g.eqxyz):
                q = p + 0.9 * eps * delta
                pf, uf = g.positionFormula(q), g.UFormula(q)
                if qlog is not None and i < 6:
                    for qq in (q, p + 40.0 * eps * delta, p + 1.7 * eps * delta, p + numpy.array([1.0, -2.0, 3.0]) + 0.5 * eps * delta):
                        r = query_record(g, qq, eps, pid)
                        if r is not None:
                            qlog.append(r)
                if not want_u:
                    if sorted(pf) != ["x", "y", "z"]:
                        yield ("eps-formula", "%s.positionFormula(%s) = %r for a point within eps of the equivalent position %s" % (
                            what, q.tolist(), pf, p.tolist()), data)
                        return
                    y = [eval_formula_ast(pf[c], ppar) for c in "xyz"]
                    if not near_mod1(y, [F(float(v)) for v in p], 4 * TOL_POS):
                        yield ("eps-formula", "%s.positionFormula(%s) = %r at %r does not give the equivalent position %s" % (
                            what, q.tolist(), pf, g.pparameters, p.tolist()), data)
                        return
                else:
                    if sorted(uf) != sorted(USYM):
                        yield ("eps-formula", "%s.UFormula(%s) = %r for a point within eps of the equivalent position %s "
                               "(positionFormula gives %r)" % (what, q.tolist(), uf, p.tolist(), pf), data)
                        return
                    got = _formulas_tensor(uf, upar)
                    wantU = [F(float(g.eqUij[i][a][b])) for a, b in UIDX]
                    if max(abs(a - b) for a, b in zip(got, wantU)) > F(1, 10 ** 9):
                        yield ("eps-formula", "%s.UFormula(%s) = %r at %r does not give eqUij %s" % (
                            what, q.tolist(), uf, upar, g.eqUij[i].tolist()), data)
                        return
                # a point farther than eps from every equivalent position: both formula queries agree that it is foreign
                far = p + 40.0 * eps * delta
                if min(_boxd(far % 1.0, numpy.array(e) % 1.0) for e in g.eqxyz) > 2 * eps:
                    pf2, uf2 = g.positionFormula(far), g.UFormula(far)
                    if bool(pf2) != bool(uf2) and (want_u or not pf2):
                        yield ("eps-consistency", "%s: positionFormula(%s) = %r but UFormula gives %r" % (what, far.tolist(), pf2, uf2), data)
                        return
        # the same through SymmetryConstraints: the whole (rounded) orbit of the first site
        orb = [numpy.array([float(v) for v in p]) for p, _ in st.orbit(ops, sites[0])]
        if len(orb) > 48:
            continue
        pos = [(numpy.round(p, 4) if rounded else p).tolist() for p in orb]
        Us = [U0.tolist() for _ in pos]
        what = "SymmetryConstraints(%s, %s..., Uijs, eps=%g)" % (sg.short_name, pos[:2], eps)
        sc = SymmetryConstraints(sg, pos, Us, eps=eps)
        if sorted(sorted(v) for v in sc.coremap.values()) != [list(range(len(pos)))]:
            if not want_u:
                yield ("eps-partition", "%s: coremap %r, the positions are one orbit within eps" % (what, dict(sc.coremap)), data)
            continue
        if not want_u:
            vals = {s: F(float(v)) for s, v in sc.pospars}
            for i, eq in enumerate(sc.positionFormulas()):
                if sorted(eq) != ["x", "y", "z"] or not near_mod1([eval_formula_ast(eq[c], vals) for c in "xyz"],
                                                                  [F(float(v)) for v in sc.positions[i]], 4 * TOL_POS):
                    yield ("eps-formula", "%s: positionFormulas()[%d] = %r at %r does not give the stored position %s" % (
                        what, i, eq, sc.pospars, list(sc.positions[i])), data)
                    return
        else:
            for i, ue in enumerate(sc.UFormulas()):
                if sorted(ue) != sorted(USYM):
                    yield ("eps-formula", "%s: UFormulas()[%d] = %r (positionFormulas()[%d] = %r)" % (what, i, ue, i, sc.poseqns[i]), data)
                    return
                got = _formulas_tensor(ue, sc.Upars)
                wantU = [F(float(sc.Uijs[i][a][b])) for a, b in UIDX]
                if max(abs(a - b) for a, b in zip(got, wantU)) > F(1, 10 ** 9):
                    yield ("eps-formula", "%s: UFormulas()[%d] = %r at %r does not give Uijs[%d] = %s" % (
                        what, i, ue, sc.Upars, i, numpy.array(sc.Uijs[i]).tolist()), data)
                    return


# ---------------------------------------------------------------- long listings: two-digit site indices, custom symbols, query histories
def _symname(i):
    return "s" + chr(97 + (i // 26) % 26) + chr(97 + i % 26)


def make_long_case(ops, strata, rng, norbits=12, minpos=20, maxpos=120):
    """>= 12 different orbits of one stratum with free coordinates (smallest multiplicity available), >= 20 positions;
    one member of every orbit first (generators at listing indices 0..11, so parameter symbols x1 and x10, x11 coexist),
    the other members shuffled behind them."""
    cands = [s for s in strata if len(s["fix"]) > 0]
    if not cands:
        return None
    cands.sort(key=lambda s: (len(ops) // len(s["stab"]), rng.random()))
    s = cands[0]
    m = len(ops) // len(s["stab"])
    k = max(norbits, -(-minpos // m))
    if k * m > maxpos:
        k = max(2, maxpos // m)
    pts = []
    for _ in range(4 * k):
        x = st.sample_point(ops, s, rng, big=bool(len(pts) % 2))
        if x is not None and all(tuple(x) != tuple(y) for y in pts):
            pts.append(x)
        if len(pts) == k:
            break
    return {"sites": [[str(v) for v in x] for x in pts], "seed": rng.randrange(10 ** 9)} if len(pts) >= 2 else None


def translation_record(formula, pairs, real, which):
    """One custom-symbol translation of the real code next to the line for the extracted scanner model (kind 9),
    and whether the formula meets the well-formedness hypothesis of the translation theorem."""
    def enc(t):
        return [str(len(t))] + [str(ord(c)) for c in t]
    toks = ["9", str(which), str(len(pairs))]
    for k, v in pairs:
        toks += enc(k) + enc(v)
    toks += enc(formula)
    pat = re.compile(r"(?<![A-Za-z0-9_])[xyz]\d+" if which == 1 else r"(?<![A-Za-z0-9_])U\d\d\d+")
    rest = pat.sub("", formula)
    wf = not any(c in rest for c in ("xyz" if which == 1 else "U")) and all(ord(c) < 128 for c in formula)
    return {"line": " ".join(toks), "real": [ord(c) for c in real], "formula": formula, "wf": wf}


def finder_long_listing(sg, ops, case, pid, tlog=None):
    """Custom-symbol forms and query histories of SymmetryConstraints on a long listing.  Yields (kind, message, data)."""
    from diffpy.structure.symmetryutilities import SymmetryConstraints, isconstantFormula
    rng = __import__("random").Random(case["seed"])
    want_u = pid == "C06"
    sites = [[F(v) for v in x] for x in case["sites"]]
    orbs = []
    seen = set()
    for x in sites:
        o = [tuple(p) for p, _ in st.orbit(ops, x)]
        if seen & set(o):
            continue
        seen |= set(o)
        orbs.append(o)
    head, tail = [], []
    for lab, o in enumerate(orbs):
        o = list(o)
        rng.shuffle(o)
        head.append((lab, o[0]))
        tail += [(lab, p) for p in o[1:]]
    rng.shuffle(tail)
    items = head + tail
    positions = [[float(p[i]) + rng.randrange(-2, 3) + rng.uniform(-1e-7, 1e-7) for i in range(3)] for _, p in items]
    labels = [lab for lab, _ in items]
    exact = [p for _, p in items]
    n = len(positions)
    # margin rule (as in finder_listing): sites of different exact orbits closer than 4 x (default tolerance + noise) are not judged
    for i in range(n):
        for j in range(i + 1, n):
            if labels[i] != labels[j]:
                d = max(abs(float(a - b) - round(float(a - b))) for a, b in zip(exact[i], exact[j]))
                if d <= 4 * (1e-5 + 2e-7):
                    return
    Uijs = None
    if want_u:
        Uijs = []
        for _ in range(n):
            d = [rng.randrange(20, 900) / 10000.0 for _ in range(3)]
            o = [rng.randrange(-150, 150) / 10000.0 for _ in range(3)]
            Uijs.append([[d[0], o[0], o[1]], [o[0], d[1], o[2]], [o[1], o[2], d[2]]])
    data = {"long": case, "positions": positions}

    def build():
        return SymmetryConstraints(sg, [list(p) for p in positions], Uijs=[[list(r) for r in U] for U in Uijs] if want_u else None)
    sc = build()
    want = {}
    for i, lab in enumerate(labels):
        want.setdefault(lab, []).append(i)
    if sorted(sorted(v) for v in sc.coremap.values()) != sorted(sorted(v) for v in want.values()):
        if not want_u:
            yield ("partition", "long listing of %d positions: coremap classes differ from the %d exact orbits" % (n, len(want)), data)
        return
    what = "SymmetryConstraints(%s, <%d positions, generators at %s>)" % (sg.short_name, n, sorted(sc.coremap)[:14])
    if not want_u:
        pars, default, custom_fn, pruned_fn, keys = sc.pospars, sc.positionFormulas(), sc.positionFormulas, sc.positionFormulasPruned, ["x", "y", "z"]
        target = [[F(float(v)) for v in sc.positions[i]] for i in range(n)]
        argname, qname = "xyzsymbols", "positionFormulas"
    else:
        pars, default, custom_fn, pruned_fn, keys = sc.Upars, sc.UFormulas(), sc.UFormulas, sc.UFormulasPruned, USYM
        target = [[F(float(sc.Uijs[i][a][b])) for a, b in UIDX] for i in range(n)]
        argname, qname = "Usymbols", "UFormulas"
    default = [dict(d) for d in default]
    syms = [_symname(i) for i in range(len(pars))]
    dvals = {s: F(float(v)) for s, v in pars}
    cvals = {c: F(float(v)) for c, (s, v) in zip(syms, pars)}
    if pars:
        custom = custom_fn(syms)
        cpruned = pruned_fn(syms)
        if tlog is not None:
            pairs = [(sname, c) for (sname, _), c in zip(pars, syms)]
            for i in list(range(min(n, 14))) + list(range(max(14, n - 6), n)):
                for key in keys:
                    if key in custom[i] and key in default[i]:
                        tlog.append(translation_record(default[i][key], pairs, custom[i][key], 3 if want_u else 1))
        for i in range(n):
            if sorted(custom[i]) != sorted(keys):
                yield ("custom-symbols", "%s.%s(%s=...)[%d] = %r" % (what, qname, argname, i, custom[i]), data)
                return
            for kx, key in enumerate(keys):
                try:
                    cv = eval_formula_ast(custom[i][key], cvals)
                except CertError:
                    yield ("custom-symbols", "%s.%s(%s=%s...)[%d][%r] = %r cannot be evaluated with the user's symbols bound to the parameter "
                           "values (standard formula %r, parameters %s...)" % (what, qname, argname, syms[:3], i, key, custom[i][key],
                                                                               default[i][key], [s for s, _ in pars][:14]), data)
                    return
                dv = eval_formula_ast(default[i][key], dvals)
                ok = cv == dv and ((abs(cv - target[i][kx]) <= F(1, 10 ** 9)) if want_u else True)
                if not ok:
                    yield ("custom-symbols", "%s.%s(%s=...)[%d][%r] = %r evaluates to %s, the standard formula %r to %s" % (
                        what, qname, argname, i, key, custom[i][key], float(cv), default[i][key], float(dv)), data)
                    return
            if not want_u and not near_mod1([eval_formula_ast(custom[i][c], cvals) for c in "xyz"], target[i], 4 * TOL_POS):
                yield ("custom-symbols", "%s.%s(%s=...)[%d] = %r does not reproduce the stored position" % (what, qname, argname, i, custom[i]), data)
                return
            if cpruned[i] != {k: v for k, v in custom[i].items() if not isconstantFormula(v)}:
                yield ("custom-symbols", "%s.%sPruned(%s=...)[%d] = %r, the unpruned translation is %r" % (what, qname, argname, i, cpruned[i], custom[i]), data)
                return
    # interleaved queries on the one object answer like a fresh object asked once
    seq = [("pruned", None), ("full", syms), ("pruned", syms), ("full", None), ("pruned", None), ("full", None)]
    for step, (which, arg) in enumerate(seq):
        if arg is not None and not pars:
            continue
        fresh = build()
        f_fn = {"full": (fresh.UFormulas if want_u else fresh.positionFormulas), "pruned": (fresh.UFormulasPruned if want_u else fresh.positionFormulasPruned)}[which]
        s_fn = {"full": custom_fn, "pruned": pruned_fn}[which]
        a = s_fn(arg) if arg is not None else s_fn()
        b = f_fn(arg) if arg is not None else f_fn()
        if [dict(d) for d in a] != [dict(d) for d in b]:
            i = next(j for j in range(n) if dict(a[j]) != dict(b[j]))
            yield ("query-history", "%s: query %d of the history %s (%s%s) answers %r for position %d, a fresh object answers %r" % (
                what, step + 1, [w + ("(custom)" if g else "()") for w, g in seq[:step + 1]], qname, "Pruned" if which == "pruned" else "",
                dict(a[i]), i, dict(b[i])), data)
            return
