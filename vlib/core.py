"""Shared driver pieces: context, Coq build, evidence, replays, known findings.

Run with /venv/bin/python.  The implementation under test is imported from
/repo/src (forced at the front of sys.path by ./check).
"""
import fcntl
import hashlib
import json
import os
import random
import re
import shutil
import subprocess
import sys
import tempfile
import time

VERIF = os.path.dirname(os.path.dirname(os.path.abspath(__file__)))
REPO = os.environ.get("VERIF_REPO", "/repo")
SRC = os.path.join(REPO, "src", "diffpy", "structure")
COQ = os.path.join(VERIF, "coq")
GEN = os.path.join(COQ, "Gen")
EVID = os.environ.get("VERIF_EVIDENCE_DIR") or os.path.join(VERIF, "evidence")   # seeded-change runs write elsewhere
REPLAYS = os.path.join(VERIF, "replays")
LOCK = os.path.join(VERIF, ".build.lock")
NPROC = os.cpu_count() or 4

FORBIDDEN = re.compile(
    r"\b(Admitted|admit|Axiom|Axioms|Parameter|Parameters|Conjecture|Hypothesis|Variable|"
    r"Unset\s+Guard|bypass_check|Admit\s+Obligations|native_compute)\b|type-in-type|impredicative-set"
)


class TranslatorRefusal(Exception):
    """The fail-closed translator met a construct it does not understand."""


class BuildLock:
    def __enter__(self):
        self.f = open(LOCK, "w")
        fcntl.flock(self.f, fcntl.LOCK_EX)
        return self

    def __exit__(self, *a):
        fcntl.flock(self.f, fcntl.LOCK_UN)
        self.f.close()


def write_if_changed(path, text):
    os.makedirs(os.path.dirname(path), exist_ok=True)
    try:
        with open(path) as f:
            if f.read() == text:
                return False
    except FileNotFoundError:
        pass
    with open(path, "w") as f:
        f.write(text)
    return True


def sh(cmd, timeout=None, cwd=None, env=None):
    p = subprocess.run(cmd, shell=isinstance(cmd, str), cwd=cwd, env=env, timeout=timeout,
                       stdout=subprocess.PIPE, stderr=subprocess.STDOUT, text=True)
    return p.returncode, p.stdout


def ensure_makefile():
    mk = os.path.join(COQ, "Makefile")
    proj = os.path.join(COQ, "_CoqProject")
    # _CoqProject is rebuilt from the directory listing so new files are always included
    files = []
    for d in sorted(os.listdir(COQ)):
        p = os.path.join(COQ, d)
        if os.path.isdir(p):
            for f in sorted(os.listdir(p)):
                if f.endswith(".v") and not f.startswith("."):
                    files.append("%s/%s" % (d, f))
    text = "-R . DS\n-arg -w -arg -notation-overridden,-deprecated-hint-without-locality,-deprecated-instance-without-locality\n" + "\n".join(files) + "\n"
    changed = write_if_changed(proj, text)
    if changed or not os.path.exists(mk):
        rc, out = sh("coq_makefile -f _CoqProject -o Makefile", cwd=COQ, timeout=120)
        if rc != 0:
            raise RuntimeError("coq_makefile failed:\n" + out)


def scan_forbidden(files=None):
    """Return list of (file, line, text) for forbidden vernacular anywhere in coq/."""
    hits = []
    for root, _, fs in os.walk(COQ):
        for f in fs:
            if not f.endswith(".v"):
                continue
            p = os.path.join(root, f)
            in_section = 0
            for i, line in enumerate(open(p, errors="replace"), 1):
                code = re.sub(r"\(\*.*?\*\)", "", line)
                if re.match(r"\s*Section\b", code):
                    in_section += 1
                if re.match(r"\s*End\b", code) and in_section:
                    in_section -= 1
                m = FORBIDDEN.search(code)
                if m:
                    w = m.group(0)
                    if w in ("Variable", "Hypothesis") and in_section:
                        continue
                    hits.append((os.path.relpath(p, COQ), i, line.strip()))
    return hits


def coq_make(targets, timeout=1500, jobs=None):
    """Build the given .vo targets (paths relative to coq/).  Returns (ok, log).

    Full .vo build, never -vos.  Caller holds the build lock."""
    ensure_makefile()
    jobs = jobs or NPROC
    cmd = "timeout %d make -j%d %s 2>&1" % (timeout, jobs, " ".join(targets))
    t0 = time.time()
    rc, out = sh(cmd, cwd=COQ, timeout=timeout + 30)
    return rc == 0, out, time.time() - t0


def parse_assumptions(log):
    """Extract the `Print Assumptions` blocks printed during compilation.

    Returns list of axiom names (deduplicated) and whether any block said
    'Closed under the global context'."""
    axioms = []
    closed = 0
    lines = log.splitlines()
    i = 0
    while i < len(lines):
        if lines[i].startswith("Closed under the global context"):
            closed += 1
        if lines[i].startswith("Axioms:"):
            i += 1
            while i < len(lines) and lines[i] and not re.match(r"^(COQC|COQDEP|Closed|Axioms:|make|File )", lines[i]):
                m = re.match(r"^([A-Za-z_][\w.']*)\s*(:|$)", lines[i])
                if m and m.group(1) not in axioms:
                    axioms.append(m.group(1))
                i += 1
            continue
        i += 1
    return axioms, closed


# standard-library axioms that the brief allows (must be named in the trusted base)
ALLOWED_AXIOMS = {
    "ClassicalDedekindReals.sig_forall_dec",
    "ClassicalDedekindReals.sig_not_dec",
    "FunctionalExtensionality.functional_extensionality_dep",
    "Classical_Prop.classic",
    "Eqdep.Eq_rect_eq.eq_rect_eq",
    "JMeq.JMeq_eq",
    "ProofIrrelevance.proof_irrelevance",
}


def theorem_names(vfile):
    """Names of Theorem/Corollary statements in a Props file."""
    names = []
    for line in open(vfile):
        m = re.match(r"\s*(Theorem|Corollary)\s+([\w']+)", line)
        if m:
            names.append(m.group(2))
    return names


def load_known():
    out = {"findings": [], "fixed": []}
    paths = [os.path.join(VERIF, "known_findings.json")]
    d = os.path.join(VERIF, "known_findings.d")
    if os.path.isdir(d):
        paths += [os.path.join(d, f) for f in sorted(os.listdir(d)) if f.endswith(".json")]
    for p in paths:
        if os.path.exists(p):
            j = json.load(open(p))
            out["findings"] += j.get("findings", [])
            out["fixed"] += j.get("fixed", [])
    return out


class Ctx:
    """Per-run context handed to a property's run() function."""

    def __init__(self, pid, tier, seed, replay=None):
        self.pid = pid
        self.tier = tier
        self.seed = seed
        self.replay = replay
        self.rng = random.Random(seed)
        self.t0 = time.time()
        self.tmp = tempfile.mkdtemp(prefix="verif_%s_" % pid)
        self.obligations = []      # (name, ok, detail)
        self.broken = []           # names of broken obligations / correspondences
        self.violations = []       # dicts
        self.known_hits = []       # dicts
        self.coverage = {}
        self.assumptions = []
        self.trusted = []
        self.axioms = []
        self.checker_cmds = []
        self.samples = []
        self.notes = []
        self.level = "proof"
        self.known = [k for k in load_known().get("findings", []) if k.get("property") == pid]
        self.evaluations = 0
        self.nontrivial = set()

    # ---- bookkeeping -------------------------------------------------
    def log(self, *a):
        print("[%s %6.1fs]" % (self.pid, time.time() - self.t0), *a, flush=True)

    def obligation(self, name, ok, detail=""):
        self.obligations.append((name, bool(ok), detail))
        if not ok:
            self.broken.append(name)
            self.log("BROKEN obligation:", name, detail[:300])

    def count(self, key=None, n=1):
        self.evaluations += n
        if key is not None:
            self.nontrivial.add(key)

    def sample(self, s, limit=6):
        if len(self.samples) < limit:
            self.samples.append(s)

    # ---- coq -----------------------------------------------------------
    def regen(self, name, fn):
        """Run a translator; fn() returns {relative path under coq/: text}.

        A refusal is a broken tie (not yet a violation)."""
        try:
            files = fn()
        except TranslatorRefusal as e:
            self.obligation("translate:" + name, False, str(e))
            return False
        except SyntaxError as e:
            self.obligation("translate:" + name, False, "source does not parse: %s" % e)
            return False
        for rel, text in files.items():
            write_if_changed(os.path.join(COQ, rel), text)
        self.obligation("translate:" + name, True)
        return True

    def coq(self, targets, theorems_in=None, timeout=1500, keep_going=True):
        """Build targets; register one obligation per theorem listed in the
        Props files `theorems_in` (all discharged iff the file compiled)."""
        hits = scan_forbidden()
        self.obligation("no-forbidden-vernacular", not hits, "; ".join("%s:%d %s" % h for h in hits[:5]))
        cmd = "make -C coq -j%d %s" % (NPROC, " ".join(targets))
        self.checker_cmds.append(cmd)
        # Props files are always recompiled so that Print Assumptions is printed by this run
        for t in targets:
            base = t[:-3] if t.endswith(".vo") else t
            if theorems_in and base in theorems_in:
                for ext in (".vo", ".glob", ".vok", ".vos"):
                    try:
                        os.remove(os.path.join(COQ, base + ext))
                    except FileNotFoundError:
                        pass
        flags = "-k" if keep_going else ""
        ok, log, dt = coq_make([flags] + list(targets) if flags else list(targets), timeout=timeout)
        self.log("coq build %s: %s in %.1fs" % (" ".join(targets), "ok" if ok else "FAILED", dt))
        self.last_coq_log = log
        axioms, closed = parse_assumptions(log)
        for a in axioms:
            if a not in self.axioms:
                self.axioms.append(a)
        bad_ax = [a for a in axioms if a not in ALLOWED_AXIOMS and not a.startswith(("PrimFloat", "Uint63", "PrimInt63", "FloatAxioms", "FloatOps", "PArray"))]
        if bad_ax:
            self.obligation("axioms-allowed", False, ", ".join(bad_ax))
        failed_files = set(re.findall(r"make.*\*\*\* \[[^\]]*?:\s*\d+:\s*(\S+?)\.vo\]", log))
        err_snips = {}
        for m in re.finditer(r'File "\./([^"]+)\.v", line (\d+).*?\n(Error:.*?)(?=\n(?:make|COQC|File )|\Z)', log, re.S):
            err_snips.setdefault(m.group(1), "line %s: %s" % (m.group(2), " ".join(m.group(3).split())[:400]))
        for t in targets:
            base = t[:-3] if t.endswith(".vo") else t
            vo = os.path.join(COQ, base + ".vo")
            built = os.path.exists(vo) and os.path.getmtime(vo) >= os.path.getmtime(os.path.join(COQ, base + ".v"))
            if theorems_in and base in theorems_in:
                for th in theorem_names(os.path.join(COQ, base + ".v")):
                    detail = ""
                    if not built:
                        detail = "; ".join("%s %s" % kv for kv in err_snips.items()) or log[-600:]
                    self.obligation("%s:%s" % (base, th), built, detail)
            else:
                self.obligation("build:" + base, built and ok,
                                "" if built and ok else ("; ".join("%s %s" % kv for kv in err_snips.items()) or log[-600:]))
        return ok, log

    def coq_eval(self, name, text, timeout=600):
        """Compile a scratch .v (cases file) in tmp with -R coq DS and return stdout."""
        p = os.path.join(self.tmp, name + ".v")
        with open(p, "w") as f:
            f.write(text)
        rc, out = sh("ulimit -s unlimited 2>/dev/null; timeout %d coqc -R %s DS -w none %s" % (timeout, COQ, p), cwd=self.tmp,
                     timeout=timeout + 30)
        return rc, out

    # ---- verdicts ------------------------------------------------------
    def violation(self, what, case, kind="input", key=None, found=True):
        """Report a violation of the property on the implementation (found=True:
        a concrete failing input) or an obligation no longer shown (found=False)."""
        for k in self.known:
            if key is not None and re.search(k["match"], key):
                if not any(h["id"] == k["id"] for h in self.known_hits):
                    self.known_hits.append(k)
                return
        self.violations.append({"what": what, "case": case, "kind": kind, "key": key, "found": found})

    def finish(self):
        os.makedirs(EVID, exist_ok=True)
        os.makedirs(REPLAYS, exist_ok=True)
        # broken obligations with no concrete violation => no-failing-input-found
        if self.broken and not any(v["found"] for v in self.violations):
            unexplained = [b for b in self.broken if not getattr(self, "explained", {}).get(b)]
            if unexplained:
                self.violations.append({"what": "obligations no longer checked: " + ", ".join(unexplained),
                                        "case": {"broken": unexplained,
                                                 "details": {n: d for n, ok, d in self.obligations if not ok}},
                                        "kind": "broken-obligation", "key": None, "found": False})
        rc = 0
        for k in self.known_hits:
            print("KNOWN-FINDING: property=%s %s" % (self.pid, k["what"]), flush=True)
        for i, v in enumerate(self.violations):
            h = hashlib.sha1(json.dumps(v, sort_keys=True, default=str).encode()).hexdigest()[:10]
            path = os.path.join(REPLAYS, "%s_%s.json" % (self.pid, h))
            with open(path, "w") as f:
                json.dump({"property": self.pid, "seed": self.seed, "tier": self.tier, **v,
                           "replay_cmd": "./check %s --replay %s" % (self.pid, path)}, f, indent=1, default=str)
            tail = "" if v["found"] else " no-failing-input-found"
            print("VIOLATION property=%s replay=%s%s" % (self.pid, path, tail), flush=True)
            self.log("  ->", v["what"][:300])
            rc = 1
            if i >= 20:
                break
        n_obl = len(self.obligations)
        n_ok = sum(1 for _, ok, _ in self.obligations if ok)
        cov = {
            "obligations": n_obl,
            "discharged": n_ok,
            "obligation_names": [n for n, _, _ in self.obligations],
            "broken": self.broken,
            "checker_cmd": " && ".join(self.checker_cmds) or "n/a",
            "trusted_base": self.trusted + ["Print Assumptions axioms: " + (", ".join(self.axioms) or "none (closed under the global context)")],
            "evaluations": self.evaluations,
            "distinct_nontrivial": len(self.nontrivial),
            "samples": self.samples or ["(no correspondence cases in this run)"],
            "known_findings_hit": [k["id"] for k in self.known_hits],
        }
        cov.update(self.coverage)
        ev = {
            "property_id": self.pid, "tier": self.tier, "seed": self.seed, "level": self.level,
            "coverage": cov, "assumptions": self.assumptions, "wall_s": round(time.time() - self.t0, 2),
            "violations": len(self.violations), "notes": self.notes,
        }
        with open(os.path.join(EVID, self.pid + ".json"), "w") as f:
            json.dump(ev, f, indent=1, default=str)
        shutil.rmtree(self.tmp, ignore_errors=True)
        self.log("done: obligations %d/%d, evaluations %d, violations %d, known %d" %
                 (n_ok, n_obl, self.evaluations, len(self.violations), len(self.known_hits)))
        return rc
