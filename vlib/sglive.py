"""Implementation-side oracles on the live space-group tables (finders for C03/C11/C02)."""
from fractions import Fraction
import itertools

import numpy

I9 = (1, 0, 0, 0, 1, 0, 0, 0, 1)
TS = 48   # translations are handled as integers / 48


def approx_op(op, tol=1e-4):
    """Like exact_op but snapping the translation to the nearest 1/48 within tol (for decimal text input)."""
    R = numpy.asarray(op.R, dtype=float)
    t = numpy.asarray(op.t, dtype=float)
    Ri = numpy.rint(R)
    ti = numpy.rint(t * TS)
    if not numpy.allclose(R, Ri, atol=1e-9) or not numpy.allclose(t * TS, ti, atol=tol * TS):
        return None
    return tuple(int(v) for v in Ri.flatten()), tuple(int(v) % TS for v in ti)


def exact_op(op):
    """(R as 9 ints, t as 3 ints = 48*t) of a live SymOp, or None when not exactly representable."""
    R = numpy.asarray(op.R, dtype=float)
    t = numpy.asarray(op.t, dtype=float)
    if R.shape != (3, 3) or t.shape != (3,):
        return None
    Ri = numpy.rint(R)
    if not numpy.allclose(R, Ri, atol=1e-12):
        return None
    tf = []
    for x in t:
        f = Fraction(float(x)).limit_denominator(48)
        if abs(float(f) - float(x)) > 1e-12 or (f * TS).denominator != 1:
            return None
        tf.append(int(f * TS))
    return tuple(int(v) for v in Ri.flatten()), tuple(tf)


def compose(a, b):
    Ra, ta = a
    Rb, tb = b
    R = tuple(sum(Ra[3 * i + k] * Rb[3 * k + j] for k in range(3)) for i in range(3) for j in range(3))
    t = tuple((sum(Ra[3 * i + k] * tb[k] for k in range(3)) + ta[i]) % TS for i in range(3))
    return R, t


def det(R):
    return (R[0] * (R[4] * R[8] - R[5] * R[7]) - R[1] * (R[3] * R[8] - R[5] * R[6]) + R[2] * (R[3] * R[7] - R[4] * R[6]))


def rot_order(R):
    d = det(R)
    t = d * (R[0] + R[4] + R[8])
    return {3: 1, -1: 2, 0: 3, 1: 4, 2: 6}.get(t, 0)


def system_of(ops):
    rs = set(R for R, _ in ops)
    orders = [rot_order(R) for R in rs]
    if 0 in orders:
        return "INVALID"
    n = {k: orders.count(k) for k in (2, 3, 4, 6)}
    if n[3] >= 8:
        return "CUBIC"
    if n[6]:
        return "HEXAGONAL"
    if n[3]:
        return "TRIGONAL"
    if n[4]:
        return "TETRAGONAL"
    if n[2] >= 3:
        return "ORTHORHOMBIC"
    if n[2]:
        return "MONOCLINIC"
    return "TRICLINIC"


H = TS // 2
CENTRINGS = {
    frozenset([(0, 0, 0)]): "P",
    frozenset([(0, 0, 0), (0, H, H)]): "A",
    frozenset([(0, 0, 0), (H, 0, H)]): "B",
    frozenset([(0, 0, 0), (H, H, 0)]): "C",
    frozenset([(0, 0, 0), (H, H, H)]): "I",
    frozenset([(0, 0, 0), (0, H, H), (H, 0, H), (H, H, 0)]): "F",
    frozenset([(0, 0, 0), (2 * TS // 3, TS // 3, TS // 3), (TS // 3, 2 * TS // 3, 2 * TS // 3)]): "H",
}
RANGES = {"TRICLINIC": (1, 2), "MONOCLINIC": (3, 15), "ORTHORHOMBIC": (16, 74), "TETRAGONAL": (75, 142),
          "TRIGONAL": (143, 167), "HEXAGONAL": (168, 194), "CUBIC": (195, 230)}


def check_setting(sg):
    """Yield (field, message) for every clause of C03 that the live setting violates."""
    ops = [exact_op(o) for o in sg.symop_list]
    if any(o is None for o in ops):
        yield "entries", "an operation is not an integer rotation with a rational translation"
        return
    if not ops or ops[0] != (I9, (0, 0, 0)):
        yield "identity", "identity is not the first operation"
    for R, t in ops:
        if any(abs(x) > 1 for x in R) or det(R) not in (1, -1):
            yield "entries", "rotation %s has det %s" % (R, det(R))
            break
        if any(not (0 <= x < TS) for x in t):
            yield "entries", "translation %s outside [0,1)" % (t,)
            break
    red = [(R, tuple(x % TS for x in t)) for R, t in ops]
    s = set(red)
    if len(s) != len(red):
        yield "nodup", "an operation is listed twice (modulo lattice translations)"
    for a in red:
        bad = next((b for b in red if compose(a, b) not in s), None)
        if bad is not None:
            yield "closure", "product of %s and %s is not listed" % (a, bad)
            break
    for a in red:
        if not any(compose(a, b) == (I9, (0, 0, 0)) for b in red):
            yield "inverse", "no inverse of %s" % (a,)
            break
    ncent = sum(1 for R, t in red if R == I9)
    if sg.num_sym_equiv != len(ops):
        yield "counts", "num_sym_equiv=%s but %d operations" % (sg.num_sym_equiv, len(ops))
    elif sg.num_primitive_sym_equiv * ncent != sg.num_sym_equiv:
        yield "counts", "num_primitive_sym_equiv=%s with %d centring translations and %d operations" % (
            sg.num_primitive_sym_equiv, ncent, len(ops))
    sysm = system_of(red)
    if sysm != sg.crystal_system:
        yield "system", "declared %s, operations imply %s" % (sg.crystal_system, sysm)
    letter = CENTRINGS.get(frozenset(t for R, t in red if R == I9))
    allowed = {letter}
    if letter == "P" and sysm == "TRIGONAL":
        allowed.add("R")
    if letter == "H":
        allowed.add("R")
    for nm in (sg.short_name, sg.pdb_name):
        if not nm or nm[0] not in allowed:
            yield "letter", "symbol %r but centring translations imply %s" % (nm, sorted(x for x in allowed if x))
            break
    lo, hi = RANGES.get(sg.crystal_system, (1, 0))
    if not (lo <= sg.number % 1000 <= hi and sg.number > 0):
        yield "number", "number %s outside the %s range" % (sg.number, sg.crystal_system)


GENERIC = [  # (cell, system it is generic for)
    ((3, 4, 5, 80, 85, 95), "TRICLINIC"), ((3, 4, 5, 90, 100, 90), "MONOCLINIC"), ((3, 4, 5, 90, 90, 100), "MONOCLINIC"),
    ((3, 4, 5, 100, 90, 90), "MONOCLINIC"), ((3, 4, 5, 90, 90, 90), "ORTHORHOMBIC"), ((3, 3, 5, 90, 90, 90), "TETRAGONAL"),
    ((5, 3, 3, 90, 90, 90), "TETRAGONAL"), ((3, 5, 3, 90, 90, 90), "TETRAGONAL"),
    ((3, 3, 5, 90, 90, 120), "HEXAGONAL"), ((3, 3, 3, 80, 80, 80), "TRIGONAL"), ((3, 3, 3, 90, 90, 90), "CUBIC"),
]
LOWER = {"TRICLINIC": [], "MONOCLINIC": ["TRICLINIC"], "ORTHORHOMBIC": ["TRICLINIC", "MONOCLINIC"],
         "TETRAGONAL": ["TRICLINIC", "MONOCLINIC", "ORTHORHOMBIC"],
         "TRIGONAL": ["TRICLINIC", "MONOCLINIC", "ORTHORHOMBIC", "TETRAGONAL"],
         "HEXAGONAL": ["TRICLINIC", "MONOCLINIC", "ORTHORHOMBIC", "TETRAGONAL"],
         "CUBIC": ["TRICLINIC", "MONOCLINIC", "ORTHORHOMBIC", "TETRAGONAL", "HEXAGONAL"]}


def metric(cell):
    from math import cos, radians
    a, b, c, al, be, ga = cell
    ca, cb, cg = (0.0 if x == 90 else (-0.5 if x == 120 else cos(radians(x))) for x in (al, be, ga))
    return numpy.array([[a * a, a * b * cg, a * c * cb], [a * b * cg, b * b, b * c * ca], [a * c * cb, b * c * ca, c * c]])


def check_latpar(sg, isSpaceGroupLatPar):
    """Invariant generic cells must be accepted; generic cells of strictly lower systems rejected."""
    Rs = [numpy.array(o.R, dtype=float) for o in sg.symop_list]
    for cell, sysname in GENERIC:
        G = metric(cell)
        inv = all(numpy.allclose(R.T @ G @ R, G, atol=1e-9) for R in Rs)
        acc = bool(isSpaceGroupLatPar(sg, *cell))
        if inv and not acc:
            yield "latpar-accept", "cell %s is invariant under all operations but rejected" % (cell,)
        if sysname in LOWER.get(sg.crystal_system, []) and acc and not inv:
            yield "latpar-reject", "generic %s cell %s accepted" % (sysname.lower(), cell)


# ---- affine-invariant type fingerprint (mirrors coq/Model/C03_Type.v) ----------------------------------------------------
def _mm(a, b):
    return tuple(sum(a[3 * i + k] * b[3 * k + j] for k in range(3)) for i in range(3) for j in range(3))


def _mv(a, v):
    return tuple(sum(a[3 * i + k] * v[k] for k in range(3)) for i in range(3))


def type_fingerprint(ops):
    """ops: exact operations (R as 9 ints, t as 3 ints in units 1/TS)."""
    byR = {}
    for R, t in ops:
        byR.setdefault(R, []).append(t)
    out = []
    for R, ts in byR.items():
        P, k, acc = R, 1, list(I9)
        while P != I9 and k < 13:
            acc = [x + y for x, y in zip(acc, P)]
            P = _mm(P, R)
            k += 1
        sm = tuple(acc)
        pure = False
        for t in ts:
            s0 = _mv(sm, t)
            for n in itertools.product(range(k), repeat=3):
                sn = _mv(sm, tuple(TS * x for x in n))
                if all((a + b) % (TS * k) == 0 for a, b in zip(s0, sn)):
                    pure = True
                    break
            if pure:
                break
        out.append((R[0] + R[4] + R[8], det(R), pure))
    return tuple(sorted(out))
