"""C01 - fractional and Cartesian descriptions of a lattice are the same geometry."""
import math

import numpy

from translate import lattice as tlattice
from vlib import core, latlive

TARGETS = ["Props/C01.vo"]
S = lambda v: ("Some", float(v))


def correspondence(ctx, n):
    """Translator validation: the generated definitions, evaluated by vlib/coqterm.py, against the live class."""
    from diffpy.structure.lattice import Lattice
    M = latlive.load_module("LatFormulas.v")
    rng = ctx.rng
    bad = []
    for i in range(n):
        kind = i % 3
        if kind == 0:
            cell = latlive.rand_cell(rng)
            live = Lattice(*cell)
            model = M.call("setLatPar", latlive.lat0(), *[S(x) for x in cell], None)
            case = {"cell": cell}
        elif kind == 1:
            cell = latlive.rand_cell(rng)
            rot = latlive.rand_rot(rng)
            live = Lattice(*cell, baserot=rot)
            model = M.call("setLatPar", latlive.lat0(), *[S(x) for x in cell], ("Some", latlive.flat(rot)))
            case = {"cell": cell, "rot": rot.tolist()}
        else:
            B = latlive.rand_base(rng)
            live = Lattice(base=B)
            model = M.call("setLatBase", latlive.lat0(), latlive.flat(B))
            case = {"base": B.tolist()}
        ctx.count(("tv", kind, i))
        d = latlive.diff_records(model, latlive.live_record(live))
        u = tuple(rng.uniform(-2, 2) for _ in range(3))
        v = tuple(rng.uniform(-2, 2) for _ in range(3))
        pairs = [("cartesian", M.call("L_cartesian", model, u), live.cartesian(u)),
                 ("fractional", M.call("L_fractional", model, u), live.fractional(u)),
                 ("dot", M.call("L_dot", model, u, v), live.dot(u, v)),
                 ("norm", M.call("L_norm", model, u), live.norm(u)),
                 ("rnorm", M.call("L_rnorm", model, u), live.rnorm(u)),
                 ("dist", M.call("L_dist", model, u, v), live.dist(u, v)),
                 ("angle", M.call("L_angle", model, u, v), live.angle(u, v)),
                 ("volume", M.call("L_volume", model), live.volume),
                 ("unitvolume", M.call("L_unitvolume", model), live.unitvolume)]
        for name, x, y in pairs:
            xs = numpy.atleast_1d(numpy.array(x, dtype=float))
            ys = numpy.atleast_1d(numpy.array(y, dtype=float))
            if not numpy.allclose(xs, ys, rtol=1e-9, atol=1e-9):
                d.append("%s: model %s live %s" % (name, xs, ys))
        if d:
            bad.append((case, d[:3]))
        if i < 3:
            ctx.sample(case)
    ctx.obligation("correspondence:generated-formulas-vs-live-Lattice", not bad, "; ".join("%s -> %s" % b for b in bad[:3]))
    return bad


def euclid_angle(x, y):
    c = numpy.dot(x, y) / (numpy.linalg.norm(x) * numpy.linalg.norm(y))
    return math.degrees(math.acos(max(-1.0, min(1.0, c))))


def trig_probe(ctx):
    """cosd/sind are the cosine/sine of the angle in degrees, exactly at the multiples of 30 where the value is rational."""
    from diffpy.structure.lattice import cosd, sind
    exact = {0: 1.0, 60: 0.5, 90: 0.0, 120: -0.5, 180: -1.0, 240: -0.5, 270: 0.0, 300: 0.5}
    exact_s = {0: 0.0, 30: 0.5, 90: 1.0, 150: 0.5, 180: 0.0, 210: -0.5, 270: -1.0, 330: -0.5}
    angles = [30.0 * k for k in range(-24, 25)] + [ctx.rng.uniform(-720, 720) for _ in range(200)] + [1e-9, 59.999999, 60.000001, 89.9999999]
    for x in angles:
        for name, f, ref, tab in (("cosd", cosd, math.cos, exact), ("sind", sind, math.sin, exact_s)):
            v = f(x)
            want = tab.get(x % 360.0)
            ctx.count(("trig", name))
            if abs(v - ref(math.radians(x))) > 1e-12 or (want is not None and v != want):
                ctx.violation("%s(%r) = %r is not the %s of the angle (%r)" % (name, x, v, "cosine" if name == "cosd" else "sine", want if want is not None else ref(math.radians(x))),
                              {"function": name, "angle": x, "value": v}, key="trig:%s" % name)


def finder(ctx, n):
    """The property text stated directly with plain Euclidean geometry on the live object."""
    from diffpy.structure.lattice import Lattice
    rng = ctx.rng
    tol = 1e-8
    trig_probe(ctx)
    for i in range(n):
        kind = i % 5
        if kind == 4:
            # the lattice was copied and the COPY then changed: the original must still describe its own cell
            import copy as _copy
            cell = latlive.rand_cell(rng)
            rot = latlive.rand_rot(rng)
            L = Lattice(*cell, baserot=rot)
            L2 = rng.choice([Lattice, _copy.copy, _copy.deepcopy])(L)
            L2.setLatPar(*latlive.rand_cell(rng), baserot=latlive.rand_rot(rng))
            L2.setLatBase(latlive.rand_base(rng))
            case = {"cell": cell, "rot": rot.tolist(), "then": "a copy of the lattice is updated"}
        elif kind == 3:
            # a lattice defined by base vectors and then updated through one cell parameter
            B = latlive.rand_base(rng)
            L = Lattice(base=B)
            p = rng.choice(["a", "b", "c"])
            setattr(L, p, getattr(L, p) * rng.choice([0.5, 1.5, 2.0]))
            cell = L.abcABG()
            case = {"base": B.tolist(), "then": "scale " + p}
        elif kind == 0:
            cell = latlive.rand_cell(rng)
            L = Lattice(*cell)
            case = {"cell": cell}
        elif kind == 1:
            cell = latlive.rand_cell(rng)
            rot = latlive.rand_rot(rng)
            L = Lattice(*cell, baserot=rot)
            case = {"cell": cell, "rot": rot.tolist()}
        else:
            B = latlive.rand_base(rng)
            L = Lattice(base=B)
            cell = L.abcABG()
            case = {"base": B.tolist(), "then": "the caller scales its own array in place"}
            B *= 1.7          # the caller re-uses its buffer: the lattice must keep its own copy
        ctx.count(("finder", kind, i))
        probs = []
        B = numpy.array(L.base)
        a, b, c, al, be, ga = L.abcABG()
        lens = [numpy.linalg.norm(B[k]) for k in range(3)]
        if not numpy.allclose(lens, [a, b, c], rtol=tol):
            probs.append("base vector lengths %s vs a,b,c %s" % (lens, (a, b, c)))
        angs = [euclid_angle(B[1], B[2]), euclid_angle(B[0], B[2]), euclid_angle(B[0], B[1])]
        if not numpy.allclose(angs, [al, be, ga], atol=1e-6):
            probs.append("base vector angles %s vs %s" % (angs, (al, be, ga)))
        if kind in (0, 1, 4) and not numpy.allclose((a, b, c, al, be, ga), cell, rtol=1e-12):
            probs.append("abcABG() %s differs from the constructor arguments %s" % ((a, b, c, al, be, ga), cell))
        if not numpy.allclose(L.metrics, B @ B.T, rtol=tol, atol=1e-9):
            probs.append("metrics is not the Gram matrix of base")
        if not numpy.allclose(B @ L.recbase, numpy.identity(3), atol=1e-8):
            probs.append("recbase is not the inverse of base")
        if not numpy.isclose(L.volume, numpy.linalg.det(B), rtol=tol) or L.volume <= 0:
            probs.append("volume %r vs det(base) %r" % (L.volume, numpy.linalg.det(B)))
        U = numpy.array([[rng.uniform(-3, 3) for _ in range(3)] for _ in range(4)])
        V = numpy.array([[rng.uniform(-3, 3) for _ in range(3)] for _ in range(4)])
        C, D = U @ B, V @ B
        if not numpy.allclose(L.fractional(L.cartesian(U)), U, atol=1e-8) or not numpy.allclose(L.cartesian(L.fractional(C)), C, atol=1e-8):
            probs.append("cartesian/fractional round trip (Nx3)")
        if not numpy.allclose(L.cartesian(U[0]), C[0], atol=1e-9):
            probs.append("cartesian of a single vector")
        if not numpy.allclose(L.dot(U, V), (C * D).sum(axis=1), rtol=tol, atol=1e-8):
            probs.append("dot (Nx3)")
        if not numpy.allclose(L.dot(U[0], V), (C[0] * D).sum(axis=1), rtol=tol, atol=1e-8):
            probs.append("dot broadcasting one vector against many")
        if not numpy.allclose(L.norm(U), numpy.linalg.norm(C, axis=1), rtol=tol):
            probs.append("norm (Nx3)")
        if not numpy.allclose(L.dist(U, V), numpy.linalg.norm(C - D, axis=1), rtol=tol, atol=1e-9):
            probs.append("dist (Nx3)")
        if not numpy.allclose(L.dist(U[0], V), numpy.linalg.norm(C[0] - D, axis=1), rtol=tol, atol=1e-9):
            probs.append("dist broadcasting")
        eang = [euclid_angle(C[k], D[k]) for k in range(4)]
        if not numpy.allclose(L.angle(U, V), eang, atol=1e-6) or not numpy.isclose(L.angle(U[1], V[1]), eang[1], atol=1e-6):
            probs.append("angle")
        # parallel and antiparallel pairs (the cosine can overshoot +-1 by one ulp): 0 and 180 degrees, in every calling form
        W = numpy.array([[0.34, -0.17, 0.12], [1.0, 0.0, 0.0], [rng.uniform(-1, 1), rng.uniform(-1, 1), 0.7], [0.25, 0.5, -0.75]])
        for kfac, want in ((1.0, 0.0), (2.0, 0.0), (0.37, 0.0), (-1.0, 180.0), (-2.5, 180.0)):
            got = numpy.concatenate([numpy.atleast_1d(L.angle(W, kfac * W)), numpy.atleast_1d(L.angle(W[0], kfac * W[:1])),
                                     [L.angle(W[2], kfac * W[2])]])
            # acos amplifies a cosine error d to sqrt(2 d): 1.4e-4 degrees were seen on skewed cells (d = 3e-12) in 20 000 cases
            if not numpy.allclose(got, want, atol=5e-3):
                probs.append("angle of parallel vectors (factor %g): %s, Euclidean %g" % (kfac, got.tolist(), want))
                break
        H = numpy.array([[rng.randint(-4, 4) for _ in range(3)] for _ in range(4)], dtype=float)
        Hc = H @ numpy.linalg.inv(B).T
        if not numpy.allclose(L.rnorm(H), numpy.linalg.norm(Hc, axis=1), rtol=tol, atol=1e-9):
            probs.append("rnorm (Nx3)")
        for p in probs:
            ctx.violation("Lattice %s: %s" % (case, p), {"case": case, "clause": p}, key="geometry:%s" % p.split(" ")[0])


def run(ctx):
    ctx.trusted += ["Coq 8.16.1 kernel", "translate/lattice.py (fail-closed symbolic translator; validated each run by evaluating the generated .v with vlib/coqterm.py against the live class)",
                    "stdlib Reals axioms: ClassicalDedekindReals.sig_forall_dec, sig_not_dec, FunctionalExtensionality.functional_extensionality_dep, Classical_Prop.classic"]
    ctx.assumptions += ["IEEE rounding of numpy/math is outside the model: the float results are compared with the real-number definitions at 1e-9 relative",
                        "Nx3 arrays and broadcasting are row-wise applications of the vector definitions (checked by the finder on the live code)",
                        "angle(): theorem on the cosine; clamp + acos + degrees is the recognised fixed tail"]
    with core.BuildLock():
        if ctx.regen("lattice", tlattice.generate):
            ctx.coq(TARGETS, theorems_in={"Props/C01"}, timeout=1500)
    n = 150 if ctx.tier == "quick" else 6000
    if "translate:lattice" not in ctx.broken:
        correspondence(ctx, n)
    finder(ctx, n if ctx.tier == "quick" else 20000)
    ctx.coverage.update({"rule": "random valid cells (special + oblique angles), random proper rotations, random positive-determinant bases; keyed by (kind, index)"})
