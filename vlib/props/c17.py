"""C17 - file content is treated as data, never executed.

Proof (coq/Props/C17.v): on the call graph + sink table regenerated from the package source, no function
reachable from a parse entry point hands text-derived data to a code-executing / process / network /
file sink (verified reachability: closed set containing the entries).
Correspondence (dynamic within static): every parser is run on benign and adversarial inputs in child
processes under sys.addaudithook + sys.setprofile; every observed in-package call edge must be an edge
of the static graph and every audit event must be explained by an allowed static sink.
Finder: field-by-field injection of Python expressions and hostile names into every token position of
valid documents of all 8 formats under the audit hook; any unexplained effect is a violation.
"""
import concurrent.futures as cf
import json
import os
import re
import subprocess
import sys

from translate import c17_effects, c17_numeric
from vlib import core

TARGETS = ["Props/C17.vo", "Props/C17_RegexEq.vo"]
PKG = "diffpy.structure"
ALLOWED_EXEC_NODE = PKG + ".parsers:getParser"
COMP = {"<genexpr>", "<listcomp>", "<setcomp>", "<dictcomp>"}
EXT = {"cif": "cif", "pdb": "pdb", "discus": "stru", "pdffit": "stru", "rawxyz": "xyz", "xyz": "xyz", "xcfg": "xcfg", "auto": "dat"}

NAMEDTUPLE = re.compile(r"^bytes:b'lambda _cls, [A-Za-z_][A-Za-z0-9_, ]*: _tuple_new\(_cls, \([A-Za-z0-9_, ]*\)\)'$")

FORMAT_FIELD_PAYLOADS = ["QZX{0.__class__.__name__}QZX", "P{0[0]}{0[1]}QZX", "{0.no_such_attribute}", "{0.__class__.__mro__}", "{}{}", "{1}"]

PAYLOADS = [
    "__import__('os').mkdir('pwn')",
    'z+[__import__("os").mkdir("pwn")].count(1)',
    "[__import__('os').mkdir('pwn')].count(1)",
    "{0.__class__.__mro__}",
    "{a.__init__.__globals__}",
    "1;import+os;os.mkdir('pwn')",
    "$(mkdir${IFS}pwn)",
    "`mkdir${IFS}pwn`",
    "../../../../etc/passwd",
    "file:///etc/passwd",
    "http://127.0.0.1:9/pwn",
    "__class__",
    "lattice",
    "%s%s%s%n",
    "%(pwn)s",
    "exec(\"import+os\")",
    "eval(compile('1','pwn','eval'))",
    "open('pwn','w')",
    "1e999",
    "0x41",
    "1_000",
    "\\N{BULLET}",
]
DIRECTIVES = ["include", "#include", "@include", "import", "load", "read", "source", "file", "<", "@", "exec", "system", "open"]
HOSTILE_NAMES = ["__class__", "lattice", "xyz", "__dict__", "element", "xyz_cartn", "__init__", "U", "_U", "anisotropy",
                 "__class__.__name__", "a.__class__", "occupancy}{a.__class__", "__globals__", "label", "B11"]


# ---------------------------------------------------------------- documents
def documents():
    """valid documents per input format from the repository's test data"""
    td = os.path.join(core.REPO, "tests", "testdata")
    want = {
        "cif": ["PbTe.cif", "graphite.cif", "TeI.cif", "customsg.cif", "curlybrackets.cif", "Ni_ref.cif"],
        "pdb": ["arginine.pdb"],
        "discus": ["Ni-discus.stru"],
        "pdffit": ["Ni.stru", "CdSe_bulk.stru", "Ni_prim123.stru"],
        "rawxyz": ["bucky-raw.xyz", "hexagon-raw.xyz"],
        "xyz": ["bucky.xyz", "bucky-plain.xyz"],
        "xcfg": ["BubbleRaftShort.xcfg"],
    }
    docs = {}
    for fmt, names in want.items():
        docs[fmt] = []
        for n in names:
            p = os.path.join(td, n)
            if os.path.exists(p):
                docs[fmt].append((n, open(p, encoding="utf-8", errors="replace").read()))
    return docs


def shorten(text, fmt, maxlines=60):
    """keep documents small: header lines + a few atom lines (bucky has 60 atoms; that is fine)"""
    lines = text.split("\n")
    if len(lines) <= maxlines or fmt in ("cif",):
        return text
    if fmt == "xyz":
        keep = lines[2:maxlines]
        return "\n".join([str(len([x for x in keep if x.strip()])), lines[1]] + keep) + "\n"
    return "\n".join(lines[:maxlines]) + "\n"


def token_positions(text):
    out = []
    for i, line in enumerate(text.split("\n")):
        for m in re.finditer(r"\S+", line):
            out.append((i, m.start(), m.end()))
    return out


def inject(text, pos, payload):
    lines = text.split("\n")
    i, s, e = pos
    lines[i] = lines[i][:s] + payload + lines[i][e:]
    return "\n".join(lines)


SHIFTED_ORIGIN_CIF = """data_shifted_origin
_cell_length_a 5
_cell_length_b 6
_cell_length_c 7
_cell_angle_alpha 80
_cell_angle_beta 85
_cell_angle_gamma 95
loop_
_symmetry_equiv_pos_as_xyz
'x,y,z'
'-x+1/4,-y,-z'
loop_
_atom_site_label
_atom_site_fract_x
_atom_site_fract_y
_atom_site_fract_z
C1 0.10 0.20 0.30
"""

XCFG_TMPL = """Number of particles = 2
A = 1.0 Angstrom
H0(1,1) = 4 A
H0(1,2) = 0 A
H0(1,3) = 0 A
H0(2,1) = 0 A
H0(2,2) = 4 A
H0(2,3) = 0 A
H0(3,1) = 0 A
H0(3,2) = 0 A
H0(3,3) = 4 A
.NO_VELOCITY.
entry_count = 4
auxiliary[0] = %s [au]
12.011
C
0.1 0.2 0.3 0.5
0.6 0.7 0.8 0.25
"""


def make_cases(ctx):
    docs = documents()
    thorough = ctx.tier == "thorough"
    cases = {}       # fmt -> list of case dicts
    n = 0

    def add(fmt, text, mode, kind, **kw):
        nonlocal n
        n += 1
        c = dict(id="%s%d" % (fmt, n), fmt=fmt, text=text, mode=mode, kind=kind, ext=EXT.get(fmt, "dat"), **kw)
        cases.setdefault(kw.get("batch", fmt), []).append(c)

    for fmt, ds in docs.items():
        for name, text in ds:
            # benign: every entry-point kind
            for mode in ("parse", "file", "read", "readStr", "load"):
                add(fmt, text, mode, "benign:" + name)
            add("auto", text, "readStr", "benign-auto:" + name, batch=fmt)
            add("auto", text, "read", "benign-auto:" + name, batch=fmt)
            outs = ["cif", "discus", "pdb", "pdffit", "rawxyz", "xcfg", "xyz"]
            for out in (outs if thorough else [outs[(n + k) % 7] for k in range(2)]):
                add(fmt, text, "write", "benign-write:" + name, out=out)
        # adversarial: one payload per token position
        for name, text in ds[: (len(ds) if thorough else 2)]:
            short = shorten(text, fmt)
            pos = token_positions(short)
            if not thorough:
                k = 70 if fmt == "cif" else 45
                pos = ctx.rng.sample(pos, min(k, len(pos)))
            for j, p in enumerate(pos):
                pls = PAYLOADS if thorough and j % 4 == 0 else [PAYLOADS[(j + len(name)) % len(PAYLOADS)]]
                if thorough and j % 4 != 0:
                    pls = [PAYLOADS[j % len(PAYLOADS)], PAYLOADS[(j * 7 + 3) % len(PAYLOADS)]]
                for pl in pls:
                    mode = ("parse", "readStr", "file")[j % 3]
                    add(fmt, inject(short, p, pl), mode, "inject:%s:%d.%d" % (name, p[0], p[1]), payload=pl)
                    if j % 5 == 0:
                        add("auto", inject(short, p, pl), "readStr", "inject-auto:%s:%d.%d" % (name, p[0], p[1]), payload=pl, batch=fmt)
    # whole-line replacements: include/import style directives naming a file
    for fmt, ds in docs.items():
        for name, text in ds[:1]:
            short = shorten(text, fmt)
            lines = short.split("\n")
            idx = list(range(len(lines)))
            if not thorough:
                idx = sorted(set(idx[:8] + ctx.rng.sample(idx, min(3, len(idx)))))
            for k, i in enumerate(idx):
                for kw in DIRECTIVES:
                    new = list(lines)
                    new[i] = "%s /etc/hostname" % kw
                    add(fmt, "\n".join(new), "parse", "directive:%s:%d" % (name, i), payload=kw)
    # CIF: every symmetry-operator position with code in the translation part
    for name, text in docs.get("cif", []):
        lines = text.split("\n")
        sym = [i for i, l in enumerate(lines) if re.search(r"[xyz]\s*,.*[xyz]\s*,", l, re.I)]
        for i in (sym if thorough else sym[:3]):
            for pl in ("x,y,z+[__import__(\"os\").mkdir(\"pwn\")].count(1)", "x,y,z+__import__('os').getpid()*0", "x+1/2,y,1/(2)",
                       "x,y,[].append(1)", "x,y,z+1/0", "x,y", "x,y,z+().__class__.__base__.__subclasses__()"):
                q = "'" if '"' in pl else '"'
                new = list(lines)
                new[i] = re.sub(r"['\"].*['\"]|\S+,\S+,\S+", lambda m: q + pl + q, lines[i], count=1)
                add("cif", "\n".join(new), "parse", "symop:%s:%d" % (name, i), payload=pl)
    # parse / edit the returned objects in place / parse again with a fresh parser: same result, nothing shared
    for fmt, ds in docs.items():
        for name, text in ds:
            add(fmt, text, "twice", "twice:" + name)
    add("cif", SHIFTED_ORIGIN_CIF, "twice", "twice:shifted-origin")
    add("cif", SHIFTED_ORIGIN_CIF.replace("-x+1/4,-y,-z", "-x+1/4,-y+1/2,-z+3/4").replace("'x,y,z'", "'x,y,z'\n'x+1/2,y,z'"),
        "twice", "twice:custom-operators")
    # CIF without a symmetry loop: the space-group identifier ends up in the error message - it must be quoted, not used
    # as a format template (replacement fields are attribute/index lookups on live objects)
    for k, pl in enumerate(FORMAT_FIELD_PAYLOADS):
        for item in ("_symmetry_space_group_name_H-M", "_symmetry_Int_Tables_number", "_space_group_IT_number"):
            text = ("data_x\n_cell_length_a 4\n_cell_length_b 4\n_cell_length_c 4\n_cell_angle_alpha 90\n_cell_angle_beta 90\n"
                    "_cell_angle_gamma 90\n%s '%s'\nloop_\n_atom_site_label\n_atom_site_fract_x\n_atom_site_fract_y\n"
                    "_atom_site_fract_z\nC1 0 0 0\n" % (item, pl))
            add("cif", text, "parse", "format-field:%s:%d" % (item, k), payload=pl)
    # xcfg: hostile auxiliary names (attribute names taken from the file), read and write
    for nm in HOSTILE_NAMES:
        add("xcfg", XCFG_TMPL % nm, "parse", "xcfg-name:" + nm, payload=nm, probe_atoms=True)
        add("xcfg", XCFG_TMPL % nm, "write", "xcfg-name-write:" + nm, payload=nm, out="xcfg")
    return cases


# ---------------------------------------------------------------- child
def run_child(args):
    batch, cs, scratch = args
    result = scratch.rstrip(os.sep) + "_result.json"
    spec = {"src": os.path.join(core.REPO, "src"), "scratch": scratch, "cases": cs, "result": result}
    env = dict(os.environ)
    env["PYTHONPATH"] = os.path.join(core.REPO, "src") + ":" + core.VERIF
    env["PYTHONHASHSEED"] = "0"
    env["PYTHONDONTWRITEBYTECODE"] = "1"
    try:
        p = subprocess.run(["/venv/bin/python", "-W", "ignore", "-m", "vlib.c17_audit"], input=json.dumps(spec), text=True,
                           stdout=subprocess.PIPE, stderr=subprocess.PIPE, env=env, cwd=core.VERIF, timeout=1500)
    except Exception as e:   # child crashed: report, do not hide
        return batch, cs, [], "%s: %s" % (type(e).__name__, str(e)[:300])
    try:
        return batch, cs, json.load(open(result))["cases"], ""
    except Exception as e:
        return batch, cs, [], "%s: %s; stdout %r; stderr %s" % (type(e).__name__, str(e)[:100], p.stdout[:80], p.stderr[-400:])


# ---------------------------------------------------------------- static side
class Static:
    def __init__(self, a):
        self.a = a
        self.index = a["index"]
        self.graph = {k: set(v) for k, v in a["graph"].items()}
        self.classes = {m.name: set(m.classes) for m in a["an"].mods.values()}
        self.entries = set(a["entries"]) | set(a["write_entries"])
        self.sinks = {}
        for s in a["sinks"]:
            self.sinks.setdefault(s["node"], []).append(s)
        self.reg_modules = sorted({p["module"] for p in a["registry"].values()})
        self.src = os.path.join(core.REPO, "src") + os.sep
        self.lib_roots = tuple(r.rstrip(os.sep) + os.sep for r in {sys.prefix, sys.base_prefix, sys.exec_prefix, self.src,
                                                                 os.path.realpath(sys.prefix), os.path.realpath(sys.base_prefix)})

    def node(self, raw):
        if raw is None or raw == "ENTRY":
            return raw
        mod, qual = raw.split(":", 1)
        parts = qual.split(".")
        while parts and parts[-1] in COMP:
            parts = parts[:-1]
            if parts and parts[-1] == "<locals>":
                parts = parts[:-1]
        qual = ".".join(parts) or "<module>"
        if mod + ":" + qual in self.index:
            return mod + ":" + qual
        if qual in self.classes.get(mod, ()):
            return mod + ":<module>"
        return mod + ":" + qual

    def edge_ok(self, caller, callee):
        if callee not in self.index:
            return False
        if caller == "ENTRY" or caller == callee:
            return True          # called by the harness itself / class body inside its module
        g = self.graph.get(caller)
        if g is None:
            return False
        return callee in g or ("IMPLICIT" in g and callee in self.graph["IMPLICIT"]) or ("DYN" in g and callee in self.graph["DYN"])

    def static_sink(self, node, kinds):
        return [s for s in self.sinks.get(node, []) if s["kind"] in kinds]

    def under_lib(self, path):
        return isinstance(path, str) and (path.startswith(self.lib_roots) or os.path.realpath(path).startswith(self.lib_roots))

    def explain(self, ev, case_path):
        """-> None if the event is explained by an allowed static sink / library housekeeping, else a reason"""
        name, args = ev["event"], ev["args"]
        tk, trig = ev["trigger"]
        pkg = self.node(ev["pkg"])
        a0 = args[0] if args else None
        if ev["synthetic"] or tk == "synthetic":
            # code compiled from a string is running; only the registry import of parsers.getParser may
            if pkg != ALLOWED_EXEC_NODE:
                return "code compiled from a string is running under %s" % pkg
            if name == "import":
                ok = a0 in ["%s.parsers.%s" % (PKG, m) for m in self.reg_modules] + [PKG, PKG + ".parsers", "diffpy"]
                return None if ok else "exec'd import statement imports %s" % a0
            if tk == "lib" and name in ("open", "compile", "exec", "marshal.loads", "os.listdir", "os.scandir"):
                tgt = args[1] if name == "compile" and len(args) > 1 else a0
                if name == "marshal.loads" or (isinstance(tgt, str) and self.under_lib(tgt.replace("code:", ""))):
                    return None
            return "effect %s%s from code compiled from a string" % (name, args[:2])
        if name in ("compile", "exec"):
            fn = args[1] if name == "compile" and len(args) > 1 else (a0 or "")
            fn = str(fn).replace("code:", "")
            synthetic_code = fn.startswith("<") and not fn.startswith("<frozen")
            if not synthetic_code:
                return None if (self.under_lib(fn) or tk == "lib") else "compiles/executes %s" % fn
            if tk == "pkg":
                node = self.node(trig)
                sk = [s for s in self.static_sink(node, ("KExec", "KEval", "KCompile")) if max(s["args"] + [0]) <= c17_effects.REGISTRY]
                if node == ALLOWED_EXEC_NODE and sk:
                    if name == "compile":
                        srcs = ["bytes:" + repr(("from diffpy.structure.parsers import %s as pm" % m).encode()) for m in self.reg_modules]
                        return None if a0 in srcs else "exec in getParser compiles %s" % a0
                    return None
                return "%s compiles/executes a string: %s" % (node, str(a0)[:80])
            if ev.get("in_import"):
                return None      # a library module being imported builds code itself (e.g. collections.namedtuple)
            if trig.endswith(os.path.join("collections", "__init__.py")) and self.under_lib(trig) and (
                    name == "exec" or NAMEDTUPLE.match(str(a0))):
                return None      # collections.namedtuple: a constructor lambda over plain identifiers
            return "library code compiles/executes a string (%s): %s" % (trig[-40:], str(a0)[:60])
        if name == "import":
            if tk == "lib":
                return None
            node = self.node(trig)
            stmts = self.a["imports"].get(node, [])
            ok = any(a0 == st or st.startswith(a0 + ".") or a0.startswith(st + ".") for st in stmts)
            return None if ok else "%s imports %s without an import statement" % (node, a0)
        if name == "open":
            mode = args[1] if len(args) > 1 else None
            readonly = mode is None or (isinstance(mode, str) and set(mode) <= set("rbtU"))
            if case_path and isinstance(a0, str) and os.path.realpath(a0) == os.path.realpath(case_path) and readonly:
                if tk == "pkg" and not self.static_sink(self.node(trig), ("KOpen",)):
                    return "%s opens the input file without a static open sink" % self.node(trig)
                return None
            if tk == "lib" and self.under_lib(a0) and readonly:
                return None
            if tk == "lib" and readonly and trig.endswith(os.sep + "mimetypes.py") and self.under_lib(trig):
                return None      # mimetypes.init() reads the system's mime.types tables (urllib file: handler)
            return "opens %r mode %r" % (a0, mode)
        if name == "marshal.loads" and tk == "lib":
            return None
        if name in ("os.listdir", "os.scandir") and tk == "lib" and self.under_lib(a0 if isinstance(a0, str) else ""):
            return None
        if name == "urllib.Request" and case_path and isinstance(a0, str) and a0.replace("file://", "") == case_path:
            return None
        return "unexpected audit event %s%s" % (name, args[:2])


# ---------------------------------------------------------------- evaluation
def evaluate(ctx, st, results):
    bad_edges, unknown_nodes, unexplained = {}, set(), []
    nviol = 0
    seen_keys = set()
    tot_events = tot_edges = 0
    outcomes = {}
    for batch, cs, outs, err in results:
        if err or len(outs) != len(cs):
            ctx.obligation("harness:child-%s" % batch, False, err or "child returned %d of %d cases" % (len(outs), len(cs)))
            continue
        for c, o in zip(cs, outs):
            ctx.count((c["fmt"], c["mode"], c["kind"], c.get("payload", "")))
            outcomes[o["outcome"]] = outcomes.get(o["outcome"], 0) + 1
            if o["outcome"] == "harness-error":
                ctx.obligation("harness:case", False, o["detail"])
                continue
            for caller, callee in o["edges"]:
                tot_edges += 1
                ca, ce = st.node(caller), st.node(callee)
                if ce not in st.index:
                    unknown_nodes.add(ce)
                elif not st.edge_ok(ca, ce):
                    bad_edges.setdefault((ca, ce), c["id"])
            problems = []
            for ev in o["events"]:
                tot_events += 1
                why = st.explain(ev, o.get("path"))
                if why:
                    problems.append(why)
            d = o["diff"]
            imported = {str(ev["args"][0]) for ev in o["events"] if ev["event"] == "import" and ev["args"]}
            stray = [m for m in d.get("new_modules", []) if m not in imported and not any(i.startswith(m + ".") for i in imported)]
            if stray:
                problems.append("modules appeared without an import event: %s" % stray[:4])
            for k in ("cwd_changed", "scratch_changed", "env_changed", "classes_changed", "sys_path_changed", "module_attrs_changed"):
                if d.get(k):
                    problems.append("%s: %s" % (k, d[k]))
            if d.get("memo_grew"):
                problems.append("memo_changed: a memo table of the package grew while parsing: %s" % d["memo_grew"][:3])
            tw = o.get("twice")
            if c["mode"] == "twice" and o["outcome"] == "ok" and isinstance(tw, dict):
                if tw["shared"]:
                    problems.append("state_changed: objects returned by a second parse of the same text ARE objects returned by the "
                                    "first parse (kept in process-wide state): %s" % tw["shared"][:3])
                if not tw["same"]:
                    problems.append("state_changed: after the caller edited the arrays returned by the first parse, a fresh parser "
                                    "gives a different result for the same text: %s" % tw["diff"])
            if c["kind"].startswith("format-field:"):
                det = o.get("detail", "")
                if "QZXstrQZX" in det or "<class" in det or (c["payload"].startswith("P{0[0]}") and "{0[0]}" not in det and "QZX" in det):
                    problems.append("the text was used as a str.format template: replacement field evaluated in %r" % det[:80])
                elif o["outcome"] in ("AttributeError", "IndexError", "KeyError") and "{" in c["payload"]:
                    problems.append("the text was used as a str.format template: %s raised for %r" % (o["outcome"], c["payload"]))
            if c["kind"].startswith("xcfg-name:") and isinstance(o.get("probe"), list):
                clob = [p for p in o["probe"] if p[:3] != ["ndarray", "Lattice", "str"]]
                if clob:
                    key = "xcfg:setattr-name:" + c["payload"]
                    ctx.violation("xcfg auxiliary name %r from the file overwrites a core Atom attribute of the returned atoms "
                                  "(types now %s)" % (c["payload"], clob[0][:3]), {"fmt": "xcfg", "text": c["text"], "mode": "parse"},
                                  key=key)
            if problems:
                sev = lambda w: 0 if "_changed" in w else 1 if "compiled from a string" in w else 2   # noqa: E731
                problems.sort(key=sev)
                nviol += 1
                cls = re.sub(r"[^a-zA-Z]+", "-", problems[0])[:40]
                key = "effect:%s:%s" % (c["fmt"], cls)
                unexplained.append((c["id"], problems[0]))
                if key not in seen_keys:
                    seen_keys.add(key)
                    ctx.violation("parsing %s text (%s, mode %s) had an effect not explained by an allowed sink: %s"
                                  % (c["fmt"], c["kind"], c["mode"], "; ".join(problems[:3])),
                                  {"fmt": c["fmt"], "mode": c["mode"], "text": c["text"], "out": c.get("out"), "ext": c.get("ext"),
                                   "problems": problems[:5]}, key=key)
            if c["kind"].startswith(("inject", "symop")) and len(ctx.samples) < 5 and o["outcome"] != "ok":
                ctx.sample({"fmt": c["fmt"], "mode": c["mode"], "kind": c["kind"], "payload": c.get("payload"), "outcome": o["outcome"],
                            "events": len(o["events"]), "edges": len(o["edges"])})
    ctx.obligation("correspondence:observed-calls-in-static-graph", not bad_edges and not unknown_nodes,
                   "; ".join(["%s -> %s (case %s)" % (k[0], k[1], v) for k, v in list(bad_edges.items())[:4]]
                             + ["unknown function %s" % u for u in sorted(unknown_nodes)[:4]]))
    if bad_edges:
        ctx.notes.append("observed edges missing from the static graph: " + "; ".join("%s -> %s" % k for k in sorted(bad_edges)[:40]))
    ctx.obligation("correspondence:audit-events-explained", not unexplained, "; ".join("%s: %s" % u for u in unexplained[:3]))
    ctx.coverage.update({"audit_events": tot_events, "observed_call_edges": tot_edges, "outcomes": outcomes,
                         "unexplained_cases": nviol})


# ---------------------------------------------------------------- numeric fields of symmetry operators
NUMCH = "0123456789./+-eE"
JUNK = "*;_)(!@#%&=~^|:?<>[]{}\\\"'$`jJqQwW\t"
BASE_TERMS = ["1/2", "+1/4", "-3/4", "0.5", "1/3+1/6", "2/3", "1e-1", ".25", "1/2.", "12/5", "3/4.5", "-1/6-1/3", "1.5e+1/30"]

NUM_PRELUDE = """From Coq Require Import NArith List Bool.
From DS Require Import Model.C17_Regex.
Import ListNotations.
Open Scope N_scope.
"""


def spec_value(t):
    """value of a string the reference recogniser accepts (independent of the implementation: Decimal arithmetic)"""
    from decimal import Decimal
    terms, cur = [], ""
    for i, ch in enumerate(t):
        if ch in "+-" and cur and cur[-1] not in "eE":
            terms.append(cur)
            cur = ch
        else:
            cur += ch
    if cur:
        terms.append(cur)
    tot = Decimal(0)
    for term in terms:
        num, _, den = term.partition("/")
        tot += Decimal(num) / Decimal(den) if den else Decimal(num)
    return float(tot)


def numeric_strings(ctx):
    out = set(BASE_TERMS) | {""}
    chars = JUNK + NUMCH
    for b in BASE_TERMS:
        for i in range(len(b) + 1):
            for ch in chars:
                out.add(b[:i] + ch + b[i:])              # insertion, also after a denominator and between digits
        for i in range(len(b)):
            for ch in chars:
                out.add(b[:i] + ch + b[i + 1:])          # substitution
            out.add(b[:i] + b[i + 1:])                   # deletion
    n = 4000 if ctx.tier == "thorough" else 600
    for _ in range(n):
        k = ctx.rng.randint(1, 9)
        out.add("".join(ctx.rng.choice(NUMCH + "*") if ctx.rng.random() < 0.9 else ctx.rng.choice(JUNK) for _ in range(k)))
    # the splitting of an operator at [+-]?[xyz] and at commas/blanks is not part of the numeric reader
    return sorted((t for t in out if not set(t) & set("xyzXYZ, \n\r") and all(ord(c) < 128 for c in t)),
                  key=lambda t: (any(ord(c) < 32 for c in t), len(t), t))


def numeric_check(ctx):
    try:
        a = c17_numeric.analyse()
    except core.TranslatorRefusal as e:
        ctx.log("numeric translator refused (%s): finder runs against the reference recogniser only" % e)
        a = None
    try:
        from diffpy.structure.parsers.p_cif import getSymOp
        from diffpy.structure.parsers import getParser
        from diffpy.structure.structureerrors import StructureFormatError
    except Exception as e:
        ctx.obligation("harness:getSymOp-importable", False, str(e))
        return
    strings = numeric_strings(ctx)
    rxtext = a["translation"] if a else "RNone"
    lst = "[" + "; ".join("[" + "; ".join(str(ord(c)) for c in t) + "]" for t in strings) + "]"
    rc, out = ctx.coq_eval("c17_numeric_cases", NUM_PRELUDE + "Definition case_rx : rx := %s.\n" % rxtext +
                           "Eval vm_compute in (map (fun s => (rmatch case_rx s, is_number_sum s)) %s).\n" % lst, timeout=600)
    pairs = re.findall(r"\(\s*(true|false)\s*,\s*(true|false)\s*\)", out)
    if rc != 0 or len(pairs) != len(strings):
        ctx.obligation("correspondence:symop-number-pattern", False, "model evaluation failed: " + out[-300:])
        return
    mism, seen = [], set()
    ncif = 0
    for t, (m, sp) in zip(strings, pairs):
        model_acc, spec_acc = m == "true", sp == "true"
        op = t + "+x,y,z"
        try:
            o = getSymOp(op)
            impl_acc, val = True, float(o.t[0])
        except ValueError:
            impl_acc, val = False, None
        except Exception as e:       # any other escape: not a number either, but not the documented error
            impl_acc, val = False, None
            if a is not None and model_acc:
                mism.append("getSymOp(%r) raised %s" % (op, type(e).__name__))
        ctx.count(("symop-term", t))
        want = None
        if spec_acc:
            try:
                want = spec_value(t)
            except Exception as e:
                if "flow" in type(e).__name__:      # decimal.Overflow/Underflow: a number whose exponent is out of every range
                    want = None                     # (8E2230349); still a number - only its value is not compared
                else:                               # zero denominator: matches the pattern, is not a number; the reader must refuse it
                    spec_acc = model_acc = False
        if a is not None and impl_acc != model_acc:
            mism.append("getSymOp(%r): implementation %s, regenerated pattern %s" % (op, "accepts" if impl_acc else "rejects",
                                                                                  "accepts" if model_acc else "rejects"))
        key = None
        if impl_acc and not spec_acc:
            key, what = "symop-number:junk-accepted", ("symmetry operator %r: the translation term %r is not a number (sum of signed "
                                                       "decimals/fractions) but is read as %r instead of a format error" % (op, t, val))
        elif spec_acc and not impl_acc:
            key, what = "symop-number:number-refused", "symmetry operator %r: the translation term %r is a number but is refused" % (op, t)
        elif impl_acc and spec_acc:
            if want is not None and abs(want) < 1e6:
                dlt = abs((val - want % 1.0 + 0.5) % 1.0 - 0.5)
                if dlt > 1e-9:
                    key, what = "symop-number:value", "symmetry operator %r: translation read as %r, the text says %r (mod 1)" % (op, val, want % 1.0)
        if key and key not in seen:
            seen.add(key)
            ctx.violation(what, {"operator": op, "term": t, "via": "getSymOp"}, key=key)
        # the same through the parser, for a sample of non-numbers
        if not spec_acc and ncif < (600 if ctx.tier == "thorough" else 120) and not set(t) & set("'\"#\t;_$[]{}\\"):
            ncif += 1
            text = SHIFTED_ORIGIN_CIF.replace("-x+1/4,-y,-z", "-x+%s,-y,-z" % t if t[:1] not in "+-" else "-x%s,-y,-z" % t)
            try:
                getParser("cif").parse(text)
                k2 = "symop-number:junk-accepted-by-parser"
                if k2 not in seen:
                    seen.add(k2)
                    ctx.violation("CIF with the operator '-x+%s,-y,-z' parses although %r is not a number" % (t, t),
                                  {"fmt": "cif", "mode": "parse", "text": text}, key=k2)
            except StructureFormatError:
                pass
            except Exception:
                pass                 # other escapes are C13's subject
    if a is not None:
        ctx.obligation("correspondence:symop-number-pattern", not mism, "; ".join(mism[:3]))
    ctx.coverage.update({"symop_terms_checked": len(strings), "symop_terms_through_parser": ncif})
    ctx.sample({"symop_terms": strings[5:9], "model_accepts": [p[0] for p in pairs[5:9]], "spec_accepts": [p[1] for p in pairs[5:9]]})


def run(ctx):
    ctx.trusted += ["Coq 8.16.1 kernel + vm_compute (no native_compute)",
                    "translate/c17_effects.py: name-based call resolution (every method of a name for unknown receivers, IMPLICIT/DYN "
                    "nodes for dunders, properties and dynamic calls), the sink table, the intra-procedural flow-insensitive provenance "
                    "rules (default Text; parameters named `filename` are the caller's path; parameters of private functions joined over "
                    "in-package call sites)",
                    "C extensions and third-party libraries (numpy, PyCifRW) are outside the graph; they are covered by the audit hook only",
                    "CPython audit events (PEP 578) report compile/exec/import/open/os/subprocess/socket operations",
                    "vlib/c17_audit.py frame classification (package / library / code compiled from a string)"]
    ctx.assumptions += ["the theorem speaks about in-package Python code; effects inside libraries are observed, not proved absent",
                        "reflective setattr/getattr/str.format with text-derived names are classified separately (C17_reflective_names_confined)",
                        "global state = sys.modules, sys.path/meta_path, cwd, environment, scratch and cwd listings, class dictionaries of "
                        "Atom/Structure/Lattice/parser classes; lazily built caches inside the package are not compared"]
    with core.BuildLock():
        ok = ctx.regen("c17_effects", c17_effects.generate)
        if not ctx.regen("c17_numeric", c17_numeric.generate):
            # the numeric reader no longer has the recognised shape: a pattern that accepts anything makes the
            # pattern theorems fail honestly instead of reusing a stale translation
            core.write_if_changed(os.path.join(core.COQ, "Gen", "C17_SymopRegex.v"),
                                  "From DS Require Import Model.C17_Regex.\nDefinition gen_rx_translation : rx := RStar RAny.\n"
                                  "Definition gen_rx_term : rx := RStar RAny.\n")
        if ok:
            ctx.coq(TARGETS, theorems_in={"Props/C17", "Props/C17_RegexEq"})
    try:
        a = c17_effects.analyse()
    except core.TranslatorRefusal as e:
        ctx.log("translator refused (%s): finder runs with an empty static table" % e)
        a = None
    if a is None:
        a = {"index": {}, "graph": {"IMPLICIT": [], "DYN": []}, "sinks": [], "entries": [], "write_entries": [], "registry": {},
             "imports": {}, "an": type("X", (), {"mods": {}})()}
    st = Static(a)
    cases = make_cases(ctx)
    jobs = []
    for batch, cs in cases.items():
        # split big batches so that children run in parallel
        nchunk = max(1, min(4 if ctx.tier == "quick" else 8, len(cs) // 40))
        for k in range(nchunk):
            sub = cs[k::nchunk]
            scratch = os.path.join(ctx.tmp, "c17_%s_%d" % (batch, k))
            os.makedirs(scratch, exist_ok=True)
            jobs.append((batch + str(k), sub, scratch))
    ctx.log("%d cases in %d child processes" % (sum(len(j[1]) for j in jobs), len(jobs)))
    with cf.ThreadPoolExecutor(min(core.NPROC, 16)) as ex:
        results = list(ex.map(run_child, jobs))
    evaluate(ctx, st, results)
    numeric_check(ctx)
    refl = [s for s in a["sinks"] if s["kind"] in ("KSetattr", "KGetattr", "KFormat")
            and (s["args"][0] if s["kind"] == "KFormat" else (s["args"][1] if len(s["args"]) > 1 else 3)) == c17_effects.TEXT]
    ctx.coverage.update({
        "static_nodes": len(a["index"]), "static_edges": sum(len(v) for v in a["graph"].values()), "static_sinks": len(a["sinks"]),
        "reflective_text_name_sinks": ["%s line %d %s" % (s["node"], s["line"], s["kind"]) for s in refl],
        "rule": "benign: every test document of every input format through parse/parseFile/read/readStr/loadStructure/auto and "
                "write; adversarial: one payload (Python expressions, format-string tricks, shell, paths, URLs, dunder names) per token "
                "position of valid documents, CIF symmetry operators with code in the translation term, xcfg auxiliary names; distinct = "
                "distinct (format, mode, document position, payload)"})


def replay(ctx, case):
    c = case["case"]
    if "text" not in c:
        ctx.log("replay file names broken obligations only:", c)
        return run(ctx)
    a = c17_effects.analyse()
    st = Static(a)
    scratch = os.path.join(ctx.tmp, "replay")
    os.makedirs(scratch, exist_ok=True)
    cs = [dict(id="r1", fmt=c["fmt"], text=c["text"], mode=c["mode"], kind="replay", ext=c.get("ext") or "dat", out=c.get("out"),
               probe_atoms=True)]
    _, _, outs, err = run_child(("replay", cs, scratch))
    ctx.count(("replay", c["fmt"]))
    ctx.count(("replay", c["mode"]))
    for o in outs:
        probs = [w for w in (st.explain(ev, o.get("path")) for ev in o["events"]) if w]
        for k in ("cwd_changed", "scratch_changed", "env_changed", "classes_changed", "sys_path_changed", "module_attrs_changed"):
            if o["diff"].get(k):
                probs.append("%s: %s" % (k, o["diff"][k]))
        ctx.log("replayed:", o["outcome"], o["detail"][:100], "problems:", probs[:3], "probe:", o.get("probe"))
        if probs:
            ctx.violation("effect not explained by an allowed sink: " + "; ".join(probs[:3]), c, key="effect:%s:replay" % c["fmt"])
        if isinstance(o.get("probe"), list) and [p for p in o["probe"] if p[:3] != ["ndarray", "Lattice", "str"]]:
            ctx.violation("auxiliary name from the file overwrites a core Atom attribute", c, key="xcfg:setattr-name:replay")
    if err:
        ctx.obligation("harness:child-replay", False, err)
