"""C11 - space groups are found by any of their identifiers and by their operations."""
import os
import re
from fractions import Fraction

from translate import sgtables, lookupspec
from vlib import core, sglive

TARGETS = ["Props/C11.vo", "Props/C11_SymText.vo", "Props/C11_SymTextRegex.vo"]


def variants(n):
    ns = n.replace(" ", "")
    return [n, n.lower(), n.upper(), "  " + n + " ", ns, " ".join(ns), n.replace(" ", "  "), ns.lower(), " ".join(ns).upper(),
            " ".join(ns).lower(), n.replace(" ", "  ").lower(), ("  " + n + " ").lower(), n.replace(" ", "  ").upper(),
            n[:1].lower() + n[1:].upper(), " ".join(ns)[:1].lower() + " ".join(ns)[1:].upper()]


def norm(x):
    return x.replace(" ", "").lower()


def carries(sg, n):
    return norm(sg.short_name) == norm(n) or norm(sg.pdb_name) == norm(n)


def op_text(R, t, style):
    """Render an exact operation as x,y,z text in one of several spellings."""
    out = []
    for i in range(3):
        terms = []
        for j, v in enumerate("xyz"):
            c = R[3 * i + j]
            if c:
                terms.append(("+" if c > 0 else "-") + (v.upper() if style == 3 else v))
        f = Fraction(t[i], sglive.TS)
        if style == 4 and f:
            f = f - 1            # the same translation written negative (modulo a lattice vector): y-1/4 for y+3/4
        if style in (5, 6):
            f = f + (1 + i if style == 5 else -2)      # shifted by whole lattice vectors: x+1, y+3/2, z-2
        tt = ""
        if f:
            tt = "%+d/%d" % (f.numerator, f.denominator) if style != 2 else "%+.6f" % float(f)
            if style in (7, 8):     # decimal written without the leading zero: x+.5, .25+y
                tt = ("%+.6f" % float(f)).replace("+0.", "+.").replace("-0.", "-.").rstrip("0")
            elif style == 9:        # decimal point inside a fraction: 1./2
                tt = "%+d./%d" % (f.numerator, f.denominator)
            elif style == 10:       # exponent form
                tt = "%+e" % float(f)
        if style in (1, 8):      # translation first
            s = (tt + "".join(terms))
        else:
            s = "".join(terms) + tt
        s = s.lstrip("+")
        if style == 3:
            s = " " + s.replace("+", " + ") + " "
        out.append(s)
    return ",".join(out)


def coq_str(s):
    return '"%s"' % s.replace('"', '""')


def coq_ops(ops):
    def z(x):
        return "(%d)" % x if x < 0 else "%d" % x
    return "[" + "; ".join("(M3 %s, V3 %s)" % (" ".join(z(x) for x in R), " ".join(z(x // 4) for x in t)) for R, t in ops) + "]"


def run(ctx):
    from diffpy.structure.spacegroups import (SpaceGroupList, GetSpaceGroup, IsSpaceGroupIdentifier, FindSpaceGroup, SymOp)
    from diffpy.structure.parsers.p_cif import getSymOp
    import numpy

    ctx.trusted += ["Coq 8.16.1 kernel + vm_compute", "translate/sgtables.py, translate/lookupspec.py (fail-closed ast translators)",
                    "Python hash() of a tuple of strings has no collision between different operation lists (outside the model)",
                    "str(SymOp) '%6.3f' rendering modelled as (1000*R_ij, round(1000*t_i)); ASCII model of str.strip/upper/lower/replace",
                    "Model/C11_SymText.v is a hand-written model of getSymOp/_parseSymOpTranslation (ASCII, exact rationals); tied by evaluation on exhaustive short strings, grammar renderings and single-character faults (vlib/symtext.py); the regular expressions themselves are regenerated as data by translate/c17_numeric.py (C17)"]
    ctx.assumptions += ["identifier variants quantified: the 15 spellings of Model/C11_LookupDefs.variants; unknown identifiers: 20 listed strings/ints + random junk on the implementation",
                        "operation lists: theorems hold for every list; entries rendered by %6.3f"]
    with core.BuildLock():
        ok = ctx.regen("sgtables", sgtables.generate) and ctx.regen("lookupspec", lookupspec.generate)
        from translate import c17_numeric
        if not ctx.regen("c17_numeric", c17_numeric.generate):
            # same fail-closed stand-in as C17 uses: a pattern that accepts anything, never a stale translation
            core.write_if_changed(os.path.join(core.COQ, "Gen", "C17_SymopRegex.v"),
                                  "From DS Require Import Model.C17_Regex.\nDefinition gen_rx_translation : rx := RStar RAny.\n"
                                  "Definition gen_rx_term : rx := RStar RAny.\n")
        if ok:
            ctx.coq(TARGETS, theorems_in={"Props/C11", "Props/C11_SymText", "Props/C11_SymTextRegex"}, timeout=1500)

        # ---------- correspondence: model vs implementation -----------------
        rng = ctx.rng
        idx = list(range(len(SpaceGroupList)))
        chosen = idx if ctx.tier == "thorough" else sorted(rng.sample(idx, 120))
        keys = []           # (coq key text, python id)
        for i in chosen:
            sg = SpaceGroupList[i]
            keys.append(("KNum (%d)" % sg.number, sg.number))
            keys.append(("KStr %s" % coq_str(str(sg.number)), str(sg.number)))
            for n in (sg.short_name, sg.pdb_name):
                for v in variants(n):
                    keys.append(("KStr %s" % coq_str(v), v))
        junk_pool = ["P", "", "p 1", "P1 ", "pnma", "PNMA", "F m -3 m", "fm3m", "Fm3m", "R3", "H3", "r-3c", "P 63/m m c", "P63/MMC", "230", " 230 ",
                     "231", "0", "-1", "P21/c", "P 1 21/c 1", "P121/c1", "Pm3", "I a 3 d", "Ia3d", "x", "P1x", "Fm-3x", "1.0", "1e0", "B 1 1 2", "b112"]
        for j in junk_pool:
            keys.append(("KStr %s" % coq_str(j), j))
        for _ in range(60):
            base = rng.choice(SpaceGroupList).short_name
            k = rng.randrange(len(base) + 1)
            mut = base[:k] + rng.choice(["", "x", "1", "-", " ", "/", "m"]) + base[k + (rng.random() < 0.5):]
            keys.append(("KStr %s" % coq_str(mut), mut))
        for n in (0, -1, 231, 999, 1000, 1003, 2003, 3, 225, 1146, 12345):
            keys.append(("KNum (%d)" % n, n))
        # operation-list cases
        exact = [[sglive.exact_op(o) for o in sg.symop_list] for sg in SpaceGroupList]
        allops = sorted(set(o for ops in exact for o in ops))
        opcases = []
        for i in (chosen if ctx.tier == "thorough" else chosen[:60]):
            ops = list(exact[i])
            perm = ops[:]
            rng.shuffle(perm)
            opcases.append(("perm", i, perm))
            opcases.append(("same", i, ops))
            if len(ops) > 1:
                k = rng.randrange(len(ops))
                opcases.append(("drop", i, ops[:k] + ops[k + 1:]))
            extra = rng.choice(allops)
            opcases.append(("add", i, perm + [extra]))
            k = rng.randrange(len(ops))
            opcases.append(("replace", i, ops[:k] + [rng.choice(allops)] + ops[k + 1:]))
        text = ["From Coq Require Import ZArith List String.", "From DS Require Import Base.ZMat Base.SGDefs Model.C11_LookupDefs Model.C11_Checks Gen.SGTables Gen.LookupSpec.",
                "Import ListNotations.", "Open Scope Z_scope.", "Open Scope string_scope.",
                "Definition T := match the_table with Some t => t | None => [] end.",
                "Definition keys : list key := [%s]." % ";\n ".join(k for k, _ in keys),
                "Definition r1 := map (fun k => match get_space_group T k with Some s => sg_number s | None => -1 end) keys.",
                "Definition opl : list (list symop) := [%s]." % ";\n ".join(coq_ops(c[2]) for c in opcases),
                "Definition r2 := map (fun o => match find_space_group all_settings o with Some (s, b) => (sg_number s) * 2 + (if b then 1 else 0) | None => -1 end) opl.",
                "Eval vm_compute in (r1, r2)."]
        rc, out = ctx.coq_eval("c11cases", "\n".join(text), timeout=900)
        # ---------- correspondence: text form of operations, Model/C11_SymText vs getSymOp ----------
        from vlib import symtext
        tparts = symtext.exhaustive_tparts(3 if ctx.tier == "quick" else 4) + [symtext.rand_tpart(rng) for _ in range(400 if ctx.tier == "quick" else 4000)]
        optexts = list(symtext.CORPUS_OPS)
        for _ in range(300 if ctx.tier == "quick" else 4000):
            o = symtext.rand_op(rng)
            optexts.append(o)
            optexts += symtext.faults(rng, o, 3)
        st_res, st_err = symtext.run_model(ctx, tparts, optexts)
    if st_res is None:
        ctx.obligation("correspondence:symop-text-model-evaluates", False, st_err)
    else:
        ctx.obligation("correspondence:symop-text-model-evaluates", True)
        st_bad, st_skipped = symtext.compare(ctx, tparts, optexts, st_res)
        ctx.obligation("correspondence:symop-text-model-vs-getSymOp", not st_bad,
                       "; ".join("%s %r: implementation %s, model %s" % b for b in st_bad[:6]))
        ctx.coverage.update({"symop_text": {"translation_parts": len(tparts), "operations": len(optexts), "value_comparisons_skipped_for_magnitude": st_skipped,
                                            "alphabet_exhaustive": symtext.ALPHA_T, "exhaustive_length": 3 if ctx.tier == "quick" else 4}})
    nums = [int(x) for x in re.findall(r"-?\d+", out.split(":")[0].replace("%Z", ""))] if rc == 0 else []
    if rc != 0 or len(nums) != len(keys) + len(opcases):
        ctx.obligation("correspondence:model-evaluates", False, "rc=%s, %d numbers for %d cases: %s" % (rc, len(nums), len(keys) + len(opcases), out[-400:]))
    else:
        ctx.obligation("correspondence:model-evaluates", True)
        bad = []
        for (ck, pk), m in zip(keys, nums[:len(keys)]):
            try:
                r = GetSpaceGroup(pk).number
            except ValueError:
                r = -1
            except Exception as e:     # noqa: only ValueError is the documented rejection
                r = -2
                ctx.violation("GetSpaceGroup(%r) raised %s instead of returning a setting or ValueError" % (pk, type(e).__name__),
                              {"identifier": repr(pk), "exception": type(e).__name__}, key="lookup-exception:%s" % type(e).__name__)
            ctx.count(("id", pk))
            if r != m:
                bad.append("GetSpaceGroup(%r): implementation %s, model %s" % (pk, r, m))
        tab = {id(sg): sg for sg in SpaceGroupList}
        for (kind, i, ops), m in zip(opcases, nums[len(keys):]):
            live = [SymOp(numpy.array(R, dtype=float).reshape(3, 3), numpy.array([x / float(sglive.TS) for x in t])) for R, t in ops]
            try:
                rv = FindSpaceGroup(live)
                r = rv.number * 2 + (1 if id(rv) in tab else 0)
            except ValueError:
                r = -1
            ctx.count(("ops", kind, SpaceGroupList[i].number))
            if r != m:
                bad.append("FindSpaceGroup(%s of #%d): implementation %s, model %s" % (kind, SpaceGroupList[i].number, r, m))
        ctx.obligation("correspondence:GetSpaceGroup+FindSpaceGroup-vs-model", not bad, "; ".join(bad[:5]))
        ctx.sample({"identifier_cases": [pk for _, pk in keys[:12]], "oplist_cases": [(k, SpaceGroupList[i].number, len(o)) for k, i, o in opcases[:6]]})

    # ---------- finder: the property stated directly on the implementation ----------
    setsig = {}
    for sg, ops in zip(SpaceGroupList, exact):
        setsig.setdefault(frozenset(ops), sg)
    full = ctx.tier == "thorough" or bool(ctx.broken)
    for i, sg in enumerate(SpaceGroupList):
        if not full and i not in chosen:
            continue
        for ident in (sg.number, str(sg.number)):
            try:
                r = GetSpaceGroup(ident)
                okk = r.number == sg.number
            except ValueError:
                okk = False
            if not okk:
                ctx.violation("GetSpaceGroup(%r) does not return the setting registered under that number" % (ident,), {"identifier": ident}, key="number:%s" % sg.number)
        for n in (sg.short_name, sg.pdb_name):
            for v in variants(n):
                try:
                    r = GetSpaceGroup(v)
                    okk = carries(r, n) and IsSpaceGroupIdentifier(v)
                except ValueError:
                    okk = False
                ctx.count()
                if not okk:
                    ctx.violation("identifier %r (a spelling of %r, setting #%d) is rejected or returns a setting not carrying it" % (v, n, sg.number),
                                  {"identifier": v, "symbol": n, "setting": sg.number}, key="name:%s:%s" % (sg.number, v))
        ops = exact[i]
        for trial in range(2):
            perm = ops[:]
            ctx.rng.shuffle(perm)
            for style in (0, 1, 2, 3, 4, 5, 6, 7, 8, 9, 10):
                try:
                    texts = [op_text(R, t, style) for R, t in perm]
                    live = [getSymOp(s) for s in texts]
                    r = FindSpaceGroup(live)
                    okk = frozenset(sglive.approx_op(o) for o in r.symop_list) == frozenset(ops) and r.number == setsig[frozenset(ops)].number
                    if okk and [sglive.approx_op(o) for o in r.symop_list] != perm:
                        okk = False
                except ValueError as e:
                    okk = False
                ctx.count(("text", style, sg.number))
                if not okk:
                    ctx.violation("FindSpaceGroup on a permutation of setting #%d rendered as text (style %d) does not return that setting with the caller's order" % (sg.number, style),
                                  {"setting": sg.number, "texts": texts}, key="find-text:%s" % sg.number)
                    break
        # sub/super lists that are not tabulated sets must fail
        for kind in ("drop", "add") + tuple("flip%d" % e for e in range(9)) + ("shift",):
            if kind == "drop" and len(ops) > 1:
                k = ctx.rng.randrange(len(ops))
                cand = ops[:k] + ops[k + 1:]
            elif kind.startswith("flip"):
                # one rotation entry of one operation changed (sign flipped, or 0 -> 1)
                e = int(kind[4:])
                ks = [k for k in range(len(ops)) if ops[k][0][e] != 0] or [0]
                k = ctx.rng.choice(ks)
                R = list(ops[k][0])
                R[e] = -R[e] if R[e] else 1
                cand = ops[:k] + [(tuple(R), ops[k][1])] + ops[k + 1:]
            elif kind == "shift":
                k = ctx.rng.randrange(len(ops))
                t = list(ops[k][1])
                j = ctx.rng.randrange(3)
                t[j] = (t[j] + sglive.TS // 12 * ctx.rng.choice([1, 2, 3, 4, 6])) % sglive.TS
                cand = ops[:k] + [(ops[k][0], tuple(t))] + ops[k + 1:]
            else:
                cand = ops + [ctx.rng.choice(allops)]
            if frozenset(cand) in setsig and len(set(cand)) == len(cand):
                continue
            live = [SymOp(numpy.array(R, dtype=float).reshape(3, 3), numpy.array([x / float(sglive.TS) for x in t])) for R, t in cand]
            try:
                r = FindSpaceGroup(live)
                if sorted(sglive.exact_op(o) for o in r.symop_list) != sorted(cand):
                    ctx.violation("FindSpaceGroup accepts a list that is not a tabulated set (%s one operation of #%d) -> #%d" % (kind, sg.number, r.number),
                                  {"setting": sg.number, "kind": kind}, key="find-nonset:%s" % sg.number)
            except ValueError:
                pass
    from diffpy.structure.spacegroups import _sg_lookup_table
    for j in junk_pool + [0, -1, 231, 999, 1.5, None, (1,), "P1x"]:
        try:
            acc = IsSpaceGroupIdentifier(j)
        except Exception as e:   # unhashable etc. are not ValueError: report
            acc = "raised %s" % type(e).__name__
        if acc is True:
            r = GetSpaceGroup(j)
            if not (isinstance(j, str) and (carries(r, j) or norm(j) in (norm(str(r.number)),) or any(norm(j) == norm(a) for a in _alias_names())) or j == r.number):
                ctx.violation("unknown identifier %r accepted as #%d" % (j, r.number), {"identifier": repr(j)}, key="unknown:%r" % (j,))
        elif acc is not False:
            ctx.violation("IsSpaceGroupIdentifier(%r) %s" % (j, acc), {"identifier": repr(j)}, key="unknown-exc:%r" % (j,))
    ctx.coverage.update({"rule": "identifier cases keyed by spelling; operation-list cases keyed by (kind, setting); text renderings keyed by (style, setting)",
                         "settings_in_finder": len(SpaceGroupList) if full else len(chosen), "exhaustive": False})


def _alias_names():
    import ast
    import os
    src = open(os.path.join(core.SRC, "spacegroups.py")).read()
    return re.findall(r'\("([A-Za-z0-9]+)", "[A-Z] [^"]+"\)', src)
