"""C10 - a lattice's derived quantities are coherent after any update history."""
import numpy

from translate import lattice as tlattice
from vlib import core, latlive

TARGETS = ["Props/C10.vo"]
S = lambda v: ("Some", float(v))
PARS = ["a", "b", "c", "alpha", "beta", "gamma"]


def rand_history(rng, nsteps):
    ops = []
    for _ in range(nsteps):
        k = rng.random()
        if k < 0.35:
            cell = latlive.rand_cell(rng)
            sub = [p for p in PARS if rng.random() < 0.5] or [rng.choice(PARS)]
            kw = {p: cell[PARS.index(p)] for p in sub}
            if rng.random() < 0.3:
                kw["baserot"] = latlive.rand_rot(rng).tolist()
            ops.append(("setLatPar", kw))
        elif k < 0.6:
            cell = latlive.rand_cell(rng)
            p = rng.choice(PARS)
            ops.append(("assign", {p: cell[PARS.index(p)]}))
        elif k < 0.8:
            ops.append(("setLatBase", latlive.rand_base(rng).tolist()))
        elif k < 0.9:
            ops.append(("copy", None))
            if rng.random() < 0.5:
                ops.append(("rot", latlive.rand_rot(rng).tolist()))
        else:
            ops.append(("rot", latlive.rand_rot(rng).tolist()))
    return ops


def valid_after(L, kw):
    """Would the cell stay valid (positive volume radicand) after this partial update?"""
    import math
    cur = dict(zip(PARS, L.abcABG()))
    cur.update({k: v for k, v in kw.items() if k in PARS})
    ca, cb, cg = (math.cos(math.radians(cur[x])) for x in ("alpha", "beta", "gamma"))
    return 1 + 2 * ca * cb * cg - ca * ca - cb * cb - cg * cg > 0.02


def apply_live(L, op):
    from diffpy.structure.lattice import Lattice
    kind, arg = op
    if kind == "setLatPar":
        L.setLatPar(**arg)
    elif kind == "assign":
        (p, v), = arg.items()
        setattr(L, p, v)
    elif kind == "setLatBase":
        buf = numpy.array(arg, dtype=float)
        L.setLatBase(buf)
        buf *= 0.5          # the caller re-uses its float array afterwards: the lattice must not alias it
    elif kind == "copy":
        L = Lattice(L)
    elif kind == "rot":
        L.setLatPar(baserot=arg)
    return L


def apply_model(M, rec, op):
    kind, arg = op
    if kind in ("setLatPar", "assign", "rot"):
        kw = {"baserot": arg} if kind == "rot" else arg
        args = [S(kw[p]) if p in kw else None for p in PARS]
        rot = ("Some", latlive.flat(kw["baserot"])) if "baserot" in kw else None
        return M.call("setLatPar", rec, *args, rot)
    if kind == "setLatBase":
        return M.call("setLatBase", rec, latlive.flat(arg))
    return rec


def run(ctx):
    from diffpy.structure.lattice import Lattice
    ctx.trusted += ["Coq 8.16.1 kernel", "translate/lattice.py (validated each run against the live class through vlib/coqterm.py)",
                    "stdlib Reals axioms (sig_forall_dec, sig_not_dec, functional_extensionality_dep, classic)"]
    ctx.assumptions += ["float rounding outside the model (1e-9 relative comparisons)", "repr(Lattice) is compared on the implementation only",
                        "angle attributes: equality through acos/degrees as real functions"]
    with core.BuildLock():
        if ctx.regen("lattice", tlattice.generate):
            ctx.coq(TARGETS, theorems_in={"Props/C10"}, timeout=1500)
    nh = 120 if ctx.tier == "quick" else 5000
    rng = ctx.rng
    M = latlive.load_module("LatFormulas.v") if "translate:lattice" not in ctx.broken else None
    bad = []
    for h in range(nh):
        cell = latlive.rand_cell(rng)
        L = Lattice(*cell)
        rec = M.call("setLatPar", latlive.lat0(), *[S(x) for x in cell], None) if M else None
        ops = rand_history(rng, rng.randint(1, 8 if ctx.tier == "quick" else 25))
        done = []
        kept = []      # (object that is no longer updated, its attribute record at that moment): copies must not share state
        for op in ops:
            if op[0] in ("setLatPar", "assign") and not valid_after(L, op[1]):
                continue
            if op[0] == "copy":
                kept.append((L, latlive.live_record(L)))
            L = apply_live(L, op)
            done.append(op)
            for Lold, rec_old in kept:
                dk = latlive.diff_records(latlive.live_record(Lold), rec_old, tol=0.0)
                if dk:
                    ctx.violation("updating a copy changed the lattice it was copied from after %s: %s" % (done, dk[:2]),
                                  {"start": cell, "ops": done[:], "diff": dk[:4]}, kind="history", key="alias:%s" % dk[0].split(":")[0].split("[")[0])
                    kept = []
                    break
            ctx.count(("step", op[0], h, len(done)))
            live = latlive.live_record(L)
            if M:
                rec = apply_model(M, rec, op)
                d = latlive.diff_records(rec, live, tol=1e-8)
                if d and len(bad) < 5:
                    bad.append(({"start": cell, "ops": done[:]}, d[:3]))
            # finder: every attribute equals that of a freshly built lattice
            fresh = Lattice(*L.abcABG(), baserot=L.baserot)
            d2 = latlive.diff_records(latlive.live_record(fresh), live, tol=1e-7)
            if repr(fresh) != repr(L) and not numpy.allclose(fresh.base, L.base, atol=1e-12):
                d2.append("repr differs: %s vs %s" % (repr(L), repr(fresh)))
            if d2:
                ctx.violation("after history %s the lattice differs from a freshly built one: %s" % (done, d2[:2]),
                              {"start": cell, "ops": done[:], "diff": d2[:4]}, kind="history", key="stale:%s" % d2[0].split(":")[0])
                break
            # two definitions agree, reciprocal of reciprocal
            L2 = Lattice(base=L.base)
            d3 = latlive.diff_records(latlive.live_record(L2), live, tol=1e-6)
            if d3:
                ctx.violation("Lattice(base=L.base) differs from L after %s: %s" % (done, d3[:2]), {"start": cell, "ops": done[:]}, kind="history",
                              key="two-defs:%s" % d3[0].split(":")[0])
                break
            R = L.reciprocal()
            rr = R.reciprocal()
            if not numpy.allclose(rr.base, L.base, atol=1e-8) or not numpy.allclose(
                    [R.a, R.b, R.c, R.alpha, R.beta, R.gamma], [L.ar, L.br, L.cr, L.alphar, L.betar, L.gammar], rtol=1e-7, atol=1e-7):
                ctx.violation("reciprocal cell parameters / involution fail after %s" % (done,), {"start": cell, "ops": done[:]}, kind="history", key="reciprocal")
                break
        if h < 3:
            ctx.sample({"start": cell, "ops": [(k, (a if k != "setLatBase" and k != "rot" else "3x3")) for k, a in done]})
    if M:
        ctx.obligation("correspondence:histories-model-vs-live-Lattice", not bad, "; ".join("%s -> %s" % b for b in bad[:2]))
    ctx.coverage.update({"rule": "random histories of setLatPar(any subset)/property assignment/rotation/setLatBase/copy from a random valid cell; keyed by (op kind, history, step)"})
