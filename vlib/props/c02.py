"""C02 - symmetry expansion of a site returns exactly its crystallographic orbit.

Theorems: coq/Props/C02.v (exact model on the discrete torus for ANY group list + all tabulated settings,
tolerance algorithm = exact expansion under separation).
Tie: (T) Gen/SGTables regenerated from the source on every run; (C) the Coq model `expand_eps` /
`expand_exact` evaluated by the kernel (vm_compute) on the same exact inputs as the real `expandPosition`.
Finder: independent fractions.Fraction orbit applied to the output of expandPosition / GeneratorSite /
ExpandAsymmetricUnit (property text stated directly on the implementation).
"""
import json
import multiprocessing
import os
import random
import re
import time
from concurrent.futures import ThreadPoolExecutor
from fractions import Fraction as F

from translate import sgtables
from vlib import core
from vlib import c02_orbit as co

TARGETS = ["Props/C02.vo"]
NSHARDS = 16
MAX_REPORT = 3          # violations reported per (clause, entry point)


# ------------------------------------------------------------------------------------------------
# implementation side (runs in worker processes)
# ------------------------------------------------------------------------------------------------
def _floats(case):
    Dn = case["D"]
    import numpy
    x = numpy.array([float(F(v, Dn)) for v in case["x"]])
    off = numpy.array([float(F(v, Dn)) for v in case["off"]])
    return x, off


def _oplists(sg, nested):
    ids = {id(op): i for i, op in enumerate(sg.symop_list)}
    return [[ids.get(id(op), -1) for op in l] for l in nested]


def _one_clause(sg, site, off, clause):
    """Separate the D14 witness (a coordinate that is negative by less than 1e-12 before the reduction
    x - floor(x)) from any other way of returning a coordinate equal to 1.0."""
    if clause != "coordinate-equals-1.0":
        return clause
    import numpy
    site = numpy.asarray(site, dtype=float)
    for op in sg.symop_list:
        raw = op(site + off) - off
        if numpy.any((raw < 0.0) & (raw > -1e-12)):
            return "coordinate-equals-1.0-from-tiny-negative"
    return clause


def run_case(sg, ops, case, want_generator=True):
    """Run the real code on one case and judge it with the exact oracle.  Returns a result dict."""
    from diffpy.structure.symmetryutilities import expandPosition, GeneratorSite
    x, off = _floats(case)
    res = {"case": case, "bad": [], "judged": 0, "not_judged": 0, "why_not": ""}
    exp = co.analyse(ops, case)
    res["fragile"] = exp["fragile"]
    res["nclusters"] = len(exp["clusters"])
    res["nstab"] = len(exp["stab"])
    try:
        pos, nested, mult = expandPosition(sg, x, off)
        res["impl"] = {"pos": [[float(c) for c in p] for p in pos], "ops": _oplists(sg, nested), "mult": int(mult)}
    except Exception as e:  # noqa
        res["impl"] = None
        res["bad"].append(("exception", "expandPosition", "expandPosition raised %s: %s" % (type(e).__name__, e)))
        return res
    if exp["judged"]:
        res["judged"] += 1
        for clause, msg in co.judge(exp, res["impl"]["pos"], res["impl"]["ops"], res["impl"]["mult"]):
            res["bad"].append((_one_clause(sg, x, off, clause), "expandPosition", msg))
    else:
        res["not_judged"] += 1
        res["why_not"] = exp["why_not"]
    if want_generator and exp["judged"]:
        snapped = co.snapped_site(ops, case)
        xs, offs, _ = co.case_fracs(case)
        small = [c for c in snapped if c != 0 and abs(c) < co.EPS_EQ + co.MARGIN]
        gcase = co.make_case(case["si"], "snapped", snapped, offs, snapped, case.get("stratum"))
        gexp = co.analyse(ops, gcase)
        if small or not gexp["judged"]:
            res["not_judged"] += 1
        else:
            try:
                gs = GeneratorSite(sg, x, sgoffset=off)
                gops = _oplists(sg, gs.symops)
                res["judged"] += 1
                moved = max(abs(float(a) - float(b)) for a, b in zip(gs.xyz, xs))
                if snapped != xs and moved <= co.TOL and len(gexp["clusters"]) == 1:
                    # the snap step is skipped for sites of multiplicity 1 (`if mult > 1`)
                    res["bad"].append(("no-snap-multiplicity-1", "GeneratorSite",
                                       "site within %.1e of the special position %r of multiplicity 1 is left at %r (xyz not adjusted)" %
                                       (max(abs(float(a - b)) for a, b in zip(xs, snapped)), [float(c) for c in snapped], list(map(float, gs.xyz)))))
                    return res
                for clause, msg in co.judge(gexp, [list(p) for p in gs.eqxyz], gops, gs.multiplicity):
                    res["bad"].append((_one_clause(sg, gs.xyz, off, clause), "GeneratorSite", msg))
                inv = sorted(_oplists(sg, [gs.invariants])[0])
                if inv != sorted(gexp["stab"]):
                    res["bad"].append(("invariants", "GeneratorSite", "invariants %r, exact site symmetry %r" % (inv[:16], sorted(gexp["stab"])[:16])))
                if max(abs(float(a) - float(b)) for a, b in zip(gs.xyz, snapped)) > co.TOL:
                    res["bad"].append(("snap", "GeneratorSite", "xyz %r, special position nearest the input %r" % (list(gs.xyz), [float(c) for c in snapped])))
                res["gen"] = {"mult": int(gs.multiplicity), "xyz": [float(c) for c in gs.xyz]}
                res["gexp"] = gexp
            except Exception as e:  # noqa
                res["bad"].append(("exception", "GeneratorSite", "GeneratorSite raised %s: %s" % (type(e).__name__, e)))
    # keep the result small for pickling
    return res


def run_asym_unit(sg, ops, results):
    """ExpandAsymmetricUnit on the sites of this setting that GeneratorSite was judged on (grouped by origin offset)."""
    from diffpy.structure.symmetryutilities import ExpandAsymmetricUnit
    bad, n = [], 0
    groups = {}
    for r in results:
        if "gexp" in r:
            groups.setdefault(tuple(r["case"]["off"]) + (r["case"]["D"],), []).append(r)
    for key, rs in groups.items():
        rs = rs[:4]
        xs = [_floats(r["case"])[0] for r in rs]
        off = _floats(rs[0]["case"])[1]
        try:
            eau = ExpandAsymmetricUnit(sg, xs, sgoffset=off)
        except Exception as e:  # noqa
            bad.append((rs[0]["case"], ("exception", "ExpandAsymmetricUnit", "raised %s: %s" % (type(e).__name__, e))))
            continue
        for r, m, ep in zip(rs, eau.multiplicity, eau.expandedpos):
            n += 1
            for clause, msg in co.judge(r["gexp"], [list(p) for p in ep], None, m):
                bad.append((r["case"], (_one_clause(sg, r["gen"]["xyz"], off, clause), "ExpandAsymmetricUnit", msg)))
    return bad, n


def build_cases(si, ops, rng, tier):
    zero = (F(0),) * 3
    cases = []
    strata = co.discover(ops, rng)
    keys = sorted(strata)
    if tier == "quick":
        rng.shuffle(keys)
        chosen = keys[:3]
        gen_variants = [("exact",), ("offset+shift",)]
        # one exact-type variant, one inside, one outside per chosen stratum
        special_variants = lambda j: [rng.choice(("exact", "shift", "offset", "offset+shift")), rng.choice(("inside", "inside", "inside+offset")), "outside"]  # noqa
        nsites = 1
    else:
        chosen = keys
        gen_variants = [("exact", "shift"), ("offset", "offset+shift"), ("exact",)]
        special_variants = lambda j: (["exact", "shift", "offset", "offset+shift", "inside", "inside+offset", "outside"] if j == 0  # noqa
                                      else [rng.choice(("exact", "shift", "offset", "offset+shift")), rng.choice(("inside", "inside+offset")), "outside"])
        nsites = 2 if len(ops) > 48 else 3
    for vs in gen_variants:
        cases += co.cases_for_site(si, rng, co.rand_general(rng), None, vs)
    more = [strata]
    for _ in range(nsites - 1):
        more.append(co.discover(ops, rng))
    for st in chosen:
        for j, table in enumerate(more):
            if st in table:
                cases += co.cases_for_site(si, rng, table[st], list(st), special_variants(j))
    return cases, len(keys)


def _worker(arg):
    si, seed, tier = arg
    t0 = time.time()
    from diffpy.structure.spacegroups import SpaceGroupList
    sg = SpaceGroupList[si]
    rng = random.Random(seed * 1000003 + si)
    out = {"si": si, "results": [], "eau_bad": [], "eau_n": 0, "error": None, "nstrata": 0}
    try:
        ops = co.exact_ops(sg)
        cases, out["nstrata"] = build_cases(si, ops, rng, tier)
        for c in cases:
            out["results"].append(run_case(sg, ops, c))
        out["eau_bad"], out["eau_n"] = run_asym_unit(sg, ops, out["results"])
        for r in out["results"]:
            r.pop("gexp", None)
    except Exception as e:  # noqa
        import traceback
        out["error"] = "%s: %s\n%s" % (type(e).__name__, e, traceback.format_exc()[-600:])
    out["wall"] = time.time() - t0
    return out


# ------------------------------------------------------------------------------------------------
# model side: evaluate the Coq definitions on the same exact inputs
# ------------------------------------------------------------------------------------------------
HEADER = """From Coq Require Import ZArith List.
From DS Require Import Base.ZMat Base.SGDefs Model.GroupCheck Model.C02_Orbit Model.C02_Eps Gen.SGTables.
Import ListNotations. Open Scope Z_scope.
Definition G (i : nat) := nth i (map sg_ops all_settings) [].
"""


def zl(v):
    return "(%d)" % v if v < 0 else "%d" % v


def coq_case(cid, c):
    args = "%s (G %d) (V3 %s) (V3 %s)" % (zl(c["D"]), c["si"], " ".join(zl(v) for v in c["off"]), " ".join(zl(v) for v in c["x"]))
    return ("Eval vm_compute in (777, %d, showz (G %d) (expand_eps %s), showz (G %d) (expand_exact %s)).\n"
            % (cid, c["si"], args, c["si"], args))


def parse_showz(txt):
    vals = [int(v) for v in re.findall(r"-?\d+", txt)]
    pos, ops, mult = [], [], None
    i = 0
    while i < len(vals):
        if vals[i] == -1:
            pos.append(vals[i + 1:i + 4])
            j = i + 4
            while j < len(vals) and vals[j] >= 0:
                j += 1
            ops.append(vals[i + 4:j])
            i = j
        elif vals[i] == -2:
            mult = vals[i + 1]
            i += 2
        else:
            raise ValueError("unexpected token in model output")
    return pos, ops, mult


def run_model(ctx, cases, nops):
    """cases: {cid: case}.  Returns {cid: ((pos, ops, mult) of expand_eps, same of expand_exact)}."""
    ids = sorted(cases, key=lambda k: -nops[cases[k]["si"]] ** 2)
    shards = [[] for _ in range(NSHARDS)]
    load = [0] * NSHARDS
    for k in ids:
        j = load.index(min(load))
        shards[j].append(k)
        load[j] += nops[cases[k]["si"]] ** 2 + 50
    texts = [HEADER + "".join(coq_case(k, cases[k]) for k in sh) for sh in shards if sh]
    out, errors = {}, []

    def one(i_text):
        i, text = i_text
        return ctx.coq_eval("c02_cases_%d" % i, text, timeout=1500)

    with ThreadPoolExecutor(max_workers=NSHARDS) as ex:
        for rc, txt in ex.map(one, enumerate(texts)):
            flat = " ".join(txt.split())
            for m in re.finditer(r"\(777, (\d+), \[([^\]]*)\], \[([^\]]*)\]\)", flat):
                out[int(m.group(1))] = (parse_showz(m.group(2)), parse_showz(m.group(3)))
            if rc != 0:
                errors.append(txt[-400:])
    return out, errors


def compare_model(case, impl, model):
    """Model (positions in grid units) vs implementation; '' when they agree."""
    mpos, mops, mmult = model
    Dn = case["D"]
    if impl is None:
        return "implementation raised"
    if mmult != impl["mult"] or len(mpos) != len(impl["pos"]):
        return "model multiplicity %s / %d positions, implementation %s / %d positions" % (mmult, len(mpos), impl["mult"], len(impl["pos"]))
    for j, (mp, ip) in enumerate(zip(mpos, impl["pos"])):
        if co.pdist(ip, [F(v, Dn) for v in mp]) > co.TOL:
            return "position %d: model %r, implementation %r" % (j, [v / Dn for v in mp], ip)
    for j, (mo, io) in enumerate(zip(mops, impl["ops"])):
        if mo != io:
            return "operations of position %d: model %r, implementation %r" % (j, mo[:12], io[:12])
    return ""


# ------------------------------------------------------------------------------------------------
def report(ctx, seen, case, clause, api, msg, sgname):
    k = (clause, api)
    seen[k] = seen.get(k, 0) + 1
    if seen[k] > MAX_REPORT:
        return
    Dn = case["D"]
    ctx.violation("%s (%s, setting index %d %s, %s site): %s" % (api, clause, case["si"], sgname, case["kind"], msg),
                  {"case": case, "api": api, "clause": clause, "message": msg, "setting": sgname,
                   "xyz": [str(F(v, Dn)) for v in case["x"]], "sgoffset": [str(F(v, Dn)) for v in case["off"]]},
                  key="%s:%s:%s:si%d" % (clause, api, case["kind"], case["si"]))


def process(ctx, settings_idx, do_model=True):
    from diffpy.structure.spacegroups import SpaceGroupList
    nops = {i: len(SpaceGroupList[i].symop_list) for i in range(len(SpaceGroupList))}
    order = sorted(settings_idx, key=lambda i: -nops[i])
    t0 = time.time()
    with multiprocessing.Pool(min(core.NPROC, 16)) as pool:
        outs = pool.map(_worker, [(i, ctx.seed, ctx.tier) for i in order], chunksize=1)
    ctx.log("implementation + exact oracle on %d settings: %.1fs" % (len(order), time.time() - t0))
    cases, results = {}, {}
    seen = {}
    kinds, skipped, fragile = {}, {}, 0
    njudged = neau = nstrata = 0
    errors = []
    for o in outs:
        if o["error"]:
            errors.append("setting index %d: %s" % (o["si"], o["error"]))
        nstrata += o["nstrata"]
        neau += o["eau_n"]
        name = SpaceGroupList[o["si"]].short_name
        for r in o["results"]:
            cid = len(cases)
            cases[cid] = r["case"]
            results[cid] = r
            c = r["case"]
            kinds[c["kind"]] = kinds.get(c["kind"], 0) + 1
            njudged += r["judged"]
            if r["not_judged"]:
                skipped[r["why_not"] or "snapped site not judged"] = skipped.get(r["why_not"] or "snapped site not judged", 0) + 1
            ctx.count((c["si"], tuple(c["stratum"] or ()), c["kind"]))
            for clause, api, msg in r["bad"]:
                report(ctx, seen, c, clause, api, msg, name)
        for c, (clause, api, msg) in o["eau_bad"]:
            report(ctx, seen, c, clause, api, msg, name)
    if seen:
        ctx.log("finder: problems by (clause, entry point):", sorted(seen.items()))
    ctx.obligation("harness:workers-completed", not errors, "; ".join(errors)[:600])
    ctx.count(n=neau)
    # model correspondence
    agree = disagree = skipped_fragile = sep_checked = 0
    first_diff = ""
    if do_model and cases:
        t0 = time.time()
        model, merr = run_model(ctx, cases, nops)
        ctx.log("Coq evaluation of expand_eps / expand_exact on %d cases: %.1fs" % (len(cases), time.time() - t0))
        ctx.obligation("model:evaluated-all-cases", not merr and len(model) == len(cases),
                       ("%d of %d evaluated; " % (len(model), len(cases))) + " | ".join(merr)[:500])
        sep_bad = ""
        for cid, (meps, mexact) in model.items():
            r = results[cid]
            c = r["case"]
            if r["fragile"]:
                skipped_fragile += 1
                continue
            d = compare_model(c, r["impl"], meps)
            if d:
                disagree += 1
                if not first_diff:
                    first_diff = "setting index %d, case %s: %s" % (c["si"], json.dumps(c), d)
                # the finder has already judged this case; if it did not, say so in the log
                ctx.log("model/implementation difference:", first_diff[:400] if disagree == 1 else "(%d)" % disagree)
            else:
                agree += 1
            # where the images are separated the tolerance algorithm must equal the exact expansion
            if r["judged"] and c["kind"] not in ("inside", "inside+offset"):
                sep_checked += 1
                if meps != mexact and not sep_bad:
                    sep_bad = "case %s: expand_eps differs from expand_exact" % json.dumps(c)
            ctx.count()
        ctx.obligation("correspondence:expand_eps-vs-expandPosition", disagree == 0, first_diff)
        ctx.obligation("model:expand_eps=expand_exact-on-separated-cases", not sep_bad, sep_bad)
    for cid in list(results)[:200]:
        r = results[cid]
        if r["case"]["kind"] in ("inside", "offset+shift", "outside") and r["impl"]:
            c = r["case"]
            ctx.sample({"setting_index": c["si"], "kind": c["kind"], "xyz": [str(F(v, c["D"])) for v in c["x"]],
                        "sgoffset": [str(F(v, c["D"])) for v in c["off"]], "site_symmetry_order": r["nstab"],
                        "multiplicity_returned": r["impl"]["mult"], "orbit_size_exact": r["nclusters"]}, limit=6)
    ctx.coverage.update({
        "rule": "distinct (setting, exact site-symmetry operation set, case kind); kinds: general/special sites exact, "
                "integer cell shift, shifted origin, perturbed 1e-7..4e-6 (inside), perturbed >= 5e-5 (outside)",
        "settings": len(order), "strata_discovered": nstrata, "cases_by_kind": kinds,
        "finder_judgements": njudged, "finder_not_judged": skipped, "expand_asymmetric_unit_sites": neau,
        "model_agree": agree, "model_disagree": disagree, "model_skipped_margin_below_1e-9": skipped_fragile,
        "separated_cases_eps_equals_exact": sep_checked,
    })
    return results


def run(ctx):
    ctx.trusted += ["Coq 8.16.1 kernel + vm_compute (no native_compute)", "translate/sgtables.py (fail-closed ast translator of the tables)",
                    "vlib/c02_orbit.py: exact Fraction oracle, case generator, margin rule (decisions closer than 1e-9 to a threshold are not judged)",
                    "float arithmetic of numpy is compared with the exact model to 1e-9, not modelled"]
    ctx.assumptions += ["a site is a rational triple; the model works on the grid k/D with 12 | D (every rational site has this form)",
                        "tolerances in the model are the exact rational values of the doubles 1.0e-5 and (1.0e-5+1.0)-1.0",
                        "GeneratorSite/ExpandAsymmetricUnit (snap step) are checked by the exact oracle only, not modelled in Coq"]
    from vlib.props import c03
    with core.BuildLock():
        ok = ctx.regen("sgtables", sgtables.generate)
        if ok:
            ok, _ = ctx.coq(TARGETS, theorems_in={"Props/C02"})
        c03.tables_match_live(ctx)
        from diffpy.structure.spacegroups import SpaceGroupList
        # corpus first
        cdir = os.path.join(core.VERIF, "corpus", "C02")
        if os.path.isdir(cdir):
            for f in sorted(os.listdir(cdir)):
                if f.endswith(".json"):
                    replay_case(ctx, json.load(open(os.path.join(cdir, f))), model=ok)
        process(ctx, list(range(len(SpaceGroupList))), do_model=ok)


def replay_case(ctx, case, model=True):
    from diffpy.structure.spacegroups import SpaceGroupList
    sg = SpaceGroupList[case["si"]]
    ops = co.exact_ops(sg)
    r = run_case(sg, ops, case)
    seen = {}
    for clause, api, msg in r["bad"]:
        report(ctx, seen, case, clause, api, msg, sg.short_name)
    ctx.count(("corpus", case["si"], case["kind"]))
    if model and not r["fragile"]:
        out, err = run_model(ctx, {0: case}, {case["si"]: len(ops)})
        if 0 in out:
            d = compare_model(case, r["impl"], out[0][0])
            ctx.obligation("correspondence:corpus-case", not d, d)
    return r


def replay(ctx, rep):
    case = rep.get("case", {}).get("case") or rep.get("case")
    if not case or "si" not in case:
        ctx.log("replay file carries no concrete case; re-running the whole check")
        return run(ctx)
    with core.BuildLock():
        ok = ctx.regen("sgtables", sgtables.generate)
        if ok:
            ok, _ = ctx.coq(TARGETS, theorems_in={"Props/C02"})
        r = replay_case(ctx, case, model=ok)
    ctx.log("replayed: impl multiplicity %s, exact orbit size %d, problems: %s" %
            (r["impl"] and r["impl"]["mult"], r["nclusters"], r["bad"] or "none"))
