"""C02 - symmetry expansion of a site returns exactly its crystallographic orbit.

Theorems: coq/Props/C02.v (exact model on the discrete torus for ANY group list + all tabulated settings,
tolerance algorithm = exact expansion under separation).
Tie: (T) Gen/SGTables regenerated from the source on every run; (C) the Coq model `expand_eps` /
`expand_exact` evaluated by the kernel (vm_compute) on the same exact inputs as the real `expandPosition`.
Finder: independent fractions.Fraction orbit applied to the output of expandPosition / GeneratorSite /
ExpandAsymmetricUnit (property text stated directly on the implementation).
"""
import json
import multiprocessing
import os
import random
import re
import time
from concurrent.futures import ThreadPoolExecutor
from fractions import Fraction as F

from translate import sgtables
from vlib import core
from vlib import c02_orbit as co

TARGETS = ["Props/C02.vo", "Props/C02_Uij.vo"]
THEOREMS_IN = {"Props/C02", "Props/C02_Uij"}
UIJ_MAX_POSITIONS = 48   # tensors are compared on sites with at most this many equivalent positions
NSHARDS = 16
MAX_REPORT = 3          # violations reported per (clause, entry point)


# ------------------------------------------------------------------------------------------------
# implementation side (runs in worker processes)
# ------------------------------------------------------------------------------------------------
def _floats(case):
    Dn = case["D"]
    import numpy
    x = numpy.array([float(F(v, Dn)) for v in case["x"]])
    off = numpy.array([float(F(v, Dn)) for v in case["off"]])
    return x, off


def _oplists(sg, nested):
    ids = {id(op): i for i, op in enumerate(sg.symop_list)}
    return [[ids.get(id(op), -1) for op in l] for l in nested]


def _one_clause(sg, site, off, clause):
    """Separate the D14 witness (a coordinate that is negative by less than 1e-12 before the reduction
    x - floor(x)) from any other way of returning a coordinate equal to 1.0."""
    if clause != "coordinate-equals-1.0":
        return clause
    import numpy
    site = numpy.asarray(site, dtype=float)
    for op in sg.symop_list:
        raw = op(site + off) - off
        if numpy.any((raw < 0.0) & (raw > -1e-12)):
            return "coordinate-equals-1.0-from-tiny-negative"
    return clause


def run_case(sg, ops, case, want_generator=True):
    """Run the real code on one case and judge it with the exact oracle.  Returns a result dict."""
    from diffpy.structure.symmetryutilities import expandPosition, GeneratorSite
    x, off = _floats(case)
    res = {"case": case, "bad": [], "judged": 0, "not_judged": 0, "why_not": ""}
    exp = co.analyse(ops, case)
    res["fragile"] = exp["fragile"]
    res["nclusters"] = len(exp["clusters"])
    res["nstab"] = len(exp["stab"])
    try:
        pos, nested, mult = expandPosition(sg, x, off, case.get("eps"))
        res["impl"] = {"pos": [[float(c) for c in p] for p in pos], "ops": _oplists(sg, nested), "mult": int(mult)}
    except Exception as e:  # noqa
        res["impl"] = None
        res["bad"].append(("exception", "expandPosition", "expandPosition raised %s: %s" % (type(e).__name__, e)))
        return res
    if exp["judged"]:
        res["judged"] += 1
        for clause, msg in co.judge(exp, res["impl"]["pos"], res["impl"]["ops"], res["impl"]["mult"]):
            res["bad"].append((_one_clause(sg, x, off, clause), "expandPosition", msg))
    else:
        res["not_judged"] += 1
        res["why_not"] = exp["why_not"]
    # GeneratorSite is constructed once per case (with a tensor) and kept raw for the model correspondence
    gs = None
    if want_generator:
        U0 = case.get("U")
        try:
            import numpy
            kw = {"sgoffset": off, "eps": case.get("eps")}
            if U0:
                kw["Uij"] = numpy.array([[U0[0], U0[3], U0[4]], [U0[3], U0[1], U0[5]], [U0[4], U0[5], U0[2]]], dtype=float)
            gs = GeneratorSite(sg, x, **kw)
            gops = _oplists(sg, gs.symops)
            g = {"xyz": [float(c) for c in gs.xyz], "eq": [[float(c) for c in p] for p in gs.eqxyz], "ops": gops,
                 "mult": int(gs.multiplicity), "inv": _oplists(sg, [gs.invariants])[0]}
            if U0 and len(gs.eqxyz) <= UIJ_MAX_POSITIONS:
                six = lambda M: [float(M[0][0]), float(M[1][1]), float(M[2][2]), float(M[0][1]), float(M[0][2]), float(M[1][2])]  # noqa
                g["U"] = six(gs.Uij)
                g["eqU"] = [six(M) for M in gs.eqUij]
                g["sym"] = bool(all(abs(M[i][j] - M[j][i]) <= 1e-12 for M in list(gs.eqUij) + [gs.Uij] for i in range(3) for j in range(3)))
            res["gimpl"] = g
        except Exception as e:  # noqa
            res["gimpl"] = None
            res["bad"].append(("exception", "GeneratorSite", "GeneratorSite raised %s: %s" % (type(e).__name__, e)))
    if gs is not None and exp["judged"]:
        snapped = co.snapped_site(ops, case)
        xs, offs, _ = co.case_fracs(case)
        EQc, _, MGc = co.tolerances(case)
        small = [c for c in snapped if c != 0 and abs(c) < EQc + MGc]
        gcase = co.make_case(case["si"], "snapped", snapped, offs, snapped, case.get("stratum"), base=12 if case.get("dyadic") else None)
        gcase["eps"], gcase["dyadic"] = case.get("eps"), case.get("dyadic")
        gexp = co.analyse(ops, gcase)
        if small or not gexp["judged"]:
            res["not_judged"] += 1
        else:
            res["judged"] += 1
            for clause, msg in co.judge(gexp, res["gimpl"]["eq"], res["gimpl"]["ops"], gs.multiplicity):
                res["bad"].append((_one_clause(sg, gs.xyz, off, clause), "GeneratorSite", msg))
            inv = sorted(res["gimpl"]["inv"])
            if inv != sorted(gexp["stab"]):
                res["bad"].append(("invariants", "GeneratorSite", "invariants %r, exact site symmetry %r" % (inv[:16], sorted(gexp["stab"])[:16])))
            if max(abs(float(a) - float(b)) for a, b in zip(gs.xyz, snapped)) > co.TOL:
                res["bad"].append(("snap", "GeneratorSite", "xyz %r, special position nearest the input %r" % (list(gs.xyz), [float(c) for c in snapped])))
            res["gexp"] = gexp
    # keep the result small for pickling
    return res


def run_asym_unit(sg, ops, results):
    """ExpandAsymmetricUnit on sites of this setting (grouped by origin offset and grid, at most 4 per call).
    Returns (finder problems, number of sites, raw outputs per call for the model correspondence)."""
    from diffpy.structure.symmetryutilities import ExpandAsymmetricUnit
    bad, n, raw = [], 0, []
    groups = {}
    for k, r in enumerate(results):
        if r.get("gimpl"):
            groups.setdefault(tuple(r["case"]["off"]) + (r["case"]["D"], r["case"].get("eps")), []).append(k)
    for key, ks in groups.items():
        # prefer the sites the finder can judge, then the cheapest ones
        ks = sorted(ks, key=lambda k: ("gexp" not in results[k], results[k]["nclusters"]))[:4]
        rs = [results[k] for k in ks]
        xs = [_floats(r["case"])[0] for r in rs]
        off = _floats(rs[0]["case"])[1]
        try:
            import numpy
            Us = [numpy.array([[u[0], u[3], u[4]], [u[3], u[1], u[5]], [u[4], u[5], u[2]]], dtype=float)
                  for u in (r["case"].get("U") or [0.0] * 6 for r in rs)]
            eau = ExpandAsymmetricUnit(sg, xs, coreUijs=Us, sgoffset=off, eps=rs[0]["case"].get("eps"))
        except Exception as e:  # noqa
            bad.append((rs[0]["case"], ("exception", "ExpandAsymmetricUnit", "raised %s: %s" % (type(e).__name__, e))))
            continue
        six = lambda M: [float(M[0][0]), float(M[1][1]), float(M[2][2]), float(M[0][1]), float(M[0][2]), float(M[1][2])]  # noqa
        raw.append({"members": ks, "mult": [int(m) for m in eau.multiplicity],
                    "pos": [[[float(c) for c in p] for p in ep] for ep in eau.expandedpos],
                    "U": [[six(M) for M in eu] if len(eu) <= UIJ_MAX_POSITIONS else None for eu in eau.expandedUijs]})
        for r, m, ep in zip(rs, eau.multiplicity, eau.expandedpos):
            n += 1
            if "gexp" in r:
                for clause, msg in co.judge(r["gexp"], [list(p) for p in ep], None, m):
                    bad.append((r["case"], (_one_clause(sg, r["gimpl"]["xyz"], off, clause), "ExpandAsymmetricUnit", msg)))
    return bad, n, raw


def build_cases(si, ops, rng, tier):
    zero = (F(0),) * 3
    cases = []
    strata = co.discover(ops, rng)
    keys = sorted(strata)
    if tier == "quick":
        rng.shuffle(keys)
        chosen = keys[:2] if len(ops) >= 96 else keys[:3]
        gen_variants = [("exact",), ("offset+shift",)]
        # one exact-type variant, one inside, one outside per chosen stratum
        special_variants = lambda j: [rng.choice(("exact", "shift", "offset", "offset+shift")), rng.choice(("inside", "inside", "inside+offset")), "outside"]  # noqa
        nsites = 1
    else:
        chosen = keys
        gen_variants = [("exact", "shift"), ("offset", "offset+shift"), ("exact",)]
        special_variants = lambda j: (["exact", "shift", "offset", "offset+shift", "inside", "inside+offset", "outside"] if j == 0  # noqa
                                      else [rng.choice(("exact", "shift", "offset", "offset+shift")), rng.choice(("inside", "inside+offset")), "outside"])
        nsites = 1 if len(ops) >= 96 else (2 if len(ops) > 48 else 3)
    for vs in gen_variants:
        cases += co.cases_for_site(si, rng, co.rand_general(rng), None, vs)
    more = [strata]
    for _ in range(nsites - 1):
        more.append(co.discover(ops, rng))
    for st in chosen:
        for j, table in enumerate(more):
            if st in table:
                cases += co.cases_for_site(si, rng, table[st], list(st), special_variants(j))
    # the `eps` argument as an input dimension (groups with dyadic translations, dyadic mid-bin sites)
    if co.dyadic_group(ops):
        dstrata = co.fixed_set_strata(ops, rng, dyadic=True)
        dkeys = sorted(dstrata)
        rng.shuffle(dkeys)
        big = len(ops) >= 96
        if tier == "quick":
            picks = dkeys[:1]
            variants = lambda: ([rng.choice(("eps0-off", "eps0-off+offset"))] if len(ops) >= 48  # noqa
                                else ["eps0-off", "eps0-off+offset", rng.choice(("eps0-exact", "eps1e-7-off", "eps1e-7-in", "eps1e-3-in", "eps1e-3-in+offset"))])
        else:
            picks = dkeys[:1 if big else 3]
            variants = lambda: list(co.EPS_VARIANTS)  # noqa
        for st in picks:
            cases += co.eps_cases_for_site(si, rng, dstrata[st], list(st), variants())
    return cases, len(keys)


def _worker(arg):
    si, seed, tier = arg
    t0 = time.time()
    from diffpy.structure.spacegroups import SpaceGroupList
    sg = SpaceGroupList[si]
    rng = random.Random(seed * 1000003 + si)
    out = {"si": si, "results": [], "eau_bad": [], "eau_n": 0, "eau_raw": [], "error": None, "nstrata": 0}
    try:
        ops = co.exact_ops(sg)
        cases, out["nstrata"] = build_cases(si, ops, rng, tier)
        for c in cases:
            # a symmetric tensor with 3-digit decimal entries (made positive definite by the diagonal)
            c["U"] = [round(0.02 + rng.randrange(1, 60) / 1000.0, 3) for _ in range(3)] + [round(rng.randrange(-9, 10) / 1000.0, 3) for _ in range(3)]
            out["results"].append(run_case(sg, ops, c))
        out["eau_bad"], out["eau_n"], out["eau_raw"] = run_asym_unit(sg, ops, out["results"])
        for r in out["results"]:
            r.pop("gexp", None)
    except Exception as e:  # noqa
        import traceback
        out["error"] = "%s: %s\n%s" % (type(e).__name__, e, traceback.format_exc()[-600:])
    out["wall"] = time.time() - t0
    return out


# ------------------------------------------------------------------------------------------------
# model side: evaluate the Coq definitions on the same exact inputs
# ------------------------------------------------------------------------------------------------
HEADER = """From Coq Require Import ZArith List.
From DS Require Import Base.ZMat Base.SGDefs Model.GroupCheck Model.C02_Orbit Model.C02_Eps Model.C02_Gen Model.C02_EpsTol Gen.SGTables.
Import ListNotations. Open Scope Z_scope.
Definition G (i : nat) := nth i (map sg_ops all_settings) [].
"""
HEADER_U = """From Coq Require Import ZArith QArith List.
From DS Require Import Base.ZMat Base.SGDefs Model.GroupCheck Model.C02_Orbit Model.C02_Eps Model.C02_Gen Model.C02_Uij
  Model.C05_QBase Model.C06_UCert Gen.SGTables.
Import ListNotations. Open Scope Z_scope.
Definition G (i : nat) := nth i (map sg_ops all_settings) [].
Definition U_of (D : Z) (Gs : list symop) (off x : v3) (U : s6) : list Z :=
  match generator_site D Gs off x with Some g => ushow (eq_uijs (gs_symops g) U) | None => [-9] end.
"""


def zl(v):
    return "(%d)" % v if v < 0 else "%d" % v


def v3l(v):
    return "(V3 %s)" % " ".join(zl(c) for c in v)


def tol_expr(c):
    """`tol_of` applied to the exact rational value of the eps argument of the case (None = default)."""
    r = co.eps_ratio(c.get("eps"))
    return "(tol_of None)" if r is None else "(tol_of (Some (%d, %d)))" % r


def coq_case(cid, c, flag):
    """One evaluation: the first expansion is shared between expand_eps_t and the GeneratorSite model."""
    si = c["si"]
    hyp = ("(if snap_hyps_tb T %s G0 %s %s %s then 1 else 0)" % (zl(c["D"]), v3l(c["off"]), v3l(c["x"]), v3l(c["ref"]))) if flag else "(-1)"
    return ("Eval vm_compute in (let G0 := G %d in let T := %s in let r := expand_eps_t T %s G0 %s %s in (777, %d, showz G0 r, "
            "showz G0 (expand_exact %s G0 %s %s), gshow G0 (generator_site_from_t T %s G0 %s %s r), %s)).\n"
            % (si, tol_expr(c), zl(c["D"]), v3l(c["off"]), v3l(c["x"]), cid, zl(c["D"]), v3l(c["off"]), v3l(c["x"]),
               zl(c["D"]), v3l(c["off"]), v3l(c["x"]), hyp))


def coq_group(gid, si, D, off, xs, tol="(tol_of None)"):
    return ("Eval vm_compute in (778, %d, ashow (expand_asym_t %s %s (G %d) %s [%s])).\n"
            % (gid, tol, zl(D), si, v3l(off), "; ".join(v3l(x) for x in xs)))


def qlit(f):
    fr = F(float(f))
    return "(%s # %d)%%Q" % (zl(fr.numerator), fr.denominator)


def coq_ucase(cid, c, U):
    return ("Eval vm_compute in (779, %d, U_of %s (G %d) %s %s (S6 %s)).\n"
            % (cid, zl(c["D"]), c["si"], v3l(c["off"]), v3l(c["x"]), " ".join(qlit(u) for u in U)))


def ints(txt):
    return [int(v) for v in re.findall(r"-?\d+", txt)]


def parse_showz(vals):
    if isinstance(vals, str):
        vals = ints(vals)
    pos, ops, mult = [], [], None
    i = 0
    while i < len(vals):
        if vals[i] == -1:
            pos.append(vals[i + 1:i + 4])
            j = i + 4
            while j < len(vals) and vals[j] >= 0:
                j += 1
            ops.append(vals[i + 4:j])
            i = j
        elif vals[i] == -2:
            mult = vals[i + 1]
            i += 2
        else:
            raise ValueError("unexpected token in model output")
    return pos, ops, mult


def parse_gshow(txt):
    """None (ValueError in the model) or dict(D, xyz, inv, pos, ops, mult)."""
    vals = ints(txt)
    if vals[:1] == [-9]:
        return None
    if vals[0] != -3 or vals[5] != -4:
        raise ValueError("unexpected generator output")
    j = 6
    while j < len(vals) and vals[j] >= 0:
        j += 1
    pos, ops, mult = parse_showz(vals[j:])
    return {"D": vals[1], "xyz": vals[2:5], "inv": vals[6:j], "pos": pos, "ops": ops, "mult": mult}


def parse_ashow(txt):
    vals = ints(txt)
    if vals[:1] == [-9]:
        return None
    out, i = [], 0
    while i < len(vals):
        if vals[i] != -5:
            raise ValueError("unexpected asymmetric-unit output")
        m, Dn = vals[i + 1], vals[i + 2]
        j = i + 3
        while j < len(vals) and vals[j] != -5:
            j += 1
        cs = vals[i + 3:j]
        out.append({"mult": m, "D": Dn, "pos": [cs[k:k + 3] for k in range(0, len(cs), 3)]})
        i = j
    return out


def _shards(items, cost, n):
    items = sorted(items, key=lambda k: -cost(k))
    shards, load = [[] for _ in range(n)], [0] * n
    for k in items:
        j = load.index(min(load))
        shards[j].append(k)
        load[j] += cost(k) + 50
    return [sh for sh in shards if sh]


def run_model(ctx, cases, nops, flags=(), groups=None, ucases=None, cost=None):
    """cases: {cid: case}; flags: cids for which the hypotheses of the snap theorem are evaluated;
    groups: {gid: (si, D, off, [x...])} for expand_asym; ucases: {cid: adjusted tensor (6 floats)}.
    Returns ({cid: (eps, exact, generator, flag)}, {gid: asym}, {cid: tensors}, errors)."""
    groups = groups or {}
    ucases = ucases or {}
    flags = set(flags)
    texts = []
    cost = cost or {}
    for sh in _shards(list(cases), lambda k: cost.get(k, nops[cases[k]["si"]] ** 2), NSHARDS):
        texts.append(("m", HEADER + "".join(coq_case(k, cases[k], k in flags) for k in sh)))
    if groups:
        for sh in _shards(list(groups), lambda g: sum(nops[groups[g][0]] for _ in groups[g][3]), 8):
            texts.append(("g", HEADER + "".join(coq_group(g, *groups[g]) for g in sh)))
    if ucases:
        for sh in _shards(list(ucases), lambda k: nops[cases[k]["si"]] * 10, 8):
            texts.append(("u", HEADER_U + "".join(coq_ucase(k, cases[k], ucases[k]) for k in sh)))
    out, gout, uout, errors = {}, {}, {}, {"m": [], "g": [], "u": []}

    def one(i_kt):
        i, (kind, text) = i_kt
        rc, txt = ctx.coq_eval("c02_cases_%s%d" % (kind, i), text, timeout=1500)
        return kind, rc, txt

    with ThreadPoolExecutor(max_workers=NSHARDS) as ex:
        for kind, rc, txt in ex.map(one, enumerate(texts)):
            flat = " ".join(txt.split())
            for m in re.finditer(r"\(777, (\d+), \[([^\]]*)\], \[([^\]]*)\], \[([^\]]*)\], (-?\d+)\)", flat):
                out[int(m.group(1))] = (parse_showz(m.group(2)), parse_showz(m.group(3)), parse_gshow(m.group(4)), int(m.group(5)))
            for m in re.finditer(r"\(778, (\d+), \[([^\]]*)\]\)", flat):
                gout[int(m.group(1))] = parse_ashow(m.group(2))
            for m in re.finditer(r"\(779, (\d+), \[([^\]]*)\]\)", flat):
                v = ints(m.group(2))
                uout[int(m.group(1))] = None if v[:1] == [-9] else [[F(v[k + 2 * c], v[k + 2 * c + 1]) for c in range(6)] for k in range(0, len(v), 12)]
            if rc != 0:
                errors[kind].append(txt[-400:])
    return out, gout, uout, errors


def compare_model(case, impl, model):
    """Model (positions in grid units) vs implementation; '' when they agree."""
    mpos, mops, mmult = model
    Dn = case["D"]
    if impl is None:
        return "implementation raised"
    if mmult != impl["mult"] or len(mpos) != len(impl["pos"]):
        return "model multiplicity %s / %d positions, implementation %s / %d positions" % (mmult, len(mpos), impl["mult"], len(impl["pos"]))
    for j, (mp, ip) in enumerate(zip(mpos, impl["pos"])):
        if co.pdist(ip, [F(v, Dn) for v in mp]) > co.TOL:
            return "position %d: model %r, implementation %r" % (j, [v / Dn for v in mp], ip)
    for j, (mo, io) in enumerate(zip(mops, impl["ops"])):
        if mo != io:
            return "operations of position %d: model %r, implementation %r" % (j, mo[:12], io[:12])
    return ""


def compare_generator(gimpl, gm):
    """Model of GeneratorSite.__init__ vs the real object: xyz, eqxyz (in order), symops, multiplicity, invariants."""
    if gm is None or gimpl is None:
        return "" if (gm is None and gimpl is None) else "model %s, implementation %s" % ("raises" if gm is None else "returns", "raises" if gimpl is None else "returns")
    Dn = gm["D"]
    if max(abs(a - v / Dn) for a, v in zip(gimpl["xyz"], gm["xyz"])) > co.TOL:
        return "xyz: model %r, implementation %r" % ([v / Dn for v in gm["xyz"]], gimpl["xyz"])
    if gm["inv"] != gimpl["inv"]:
        return "invariants: model %r, implementation %r" % (gm["inv"][:16], gimpl["inv"][:16])
    return compare_model({"D": Dn}, {"pos": gimpl["eq"], "ops": gimpl["ops"], "mult": gimpl["mult"]}, (gm["pos"], gm["ops"], gm["mult"]))


def second_stage_fragile(ops, case, gm):
    """The model moved the site: is the re-expansion (or the zeroing below eps) within 1e-9 of a decision threshold?"""
    if gm is None or gm["D"] == case["D"]:
        return False
    Dn = gm["D"]
    EQ, _, MG = co.tolerances(case)
    if MG > 0 and any(abs(abs(v / Dn) - float(EQ)) < float(MG) for v in gm["xyz"]):
        return True
    k = Dn // case["D"]
    c2 = {"si": case["si"], "D": Dn, "kind": "snapped", "x": gm["xyz"], "off": [v * k for v in case["off"]], "ref": gm["xyz"],
          "eps": case.get("eps"), "dyadic": case.get("dyadic")}
    return bool(co.analyse(ops, c2)["fragile"])


def compare_asym_member(m, ep, gm):
    if gm is None:
        return "model raises, implementation returns"
    return compare_model({"D": gm["D"]}, {"pos": ep, "ops": [], "mult": m}, (gm["pos"], [], gm["mult"]))


def compare_tensors(g, mu):
    """eqUij of the implementation vs conj R U (exact, U = the adjusted tensor the implementation reports)."""
    if mu is None:
        return "model raises"
    if len(mu) != len(g["eqU"]):
        return "%d tensors in the model, %d in the implementation" % (len(mu), len(g["eqU"]))
    scale = max(1.0, max(abs(u) for u in g["U"]))
    for j, (a, b) in enumerate(zip(mu, g["eqU"])):
        if max(abs(float(p) - q) for p, q in zip(a, b)) > co.TOL * scale:
            return "tensor %d: model %r, implementation %r" % (j, [float(p) for p in a], b)
    return ""


# ------------------------------------------------------------------------------------------------
def report(ctx, seen, case, clause, api, msg, sgname):
    k = (clause, api)
    seen[k] = seen.get(k, 0) + 1
    if seen[k] > MAX_REPORT:
        return
    Dn = case["D"]
    ctx.violation("%s (%s, setting index %d %s, %s site): %s" % (api, clause, case["si"], sgname, case["kind"], msg),
                  {"case": case, "api": api, "clause": clause, "message": msg, "setting": sgname,
                   "xyz": [str(F(v, Dn)) for v in case["x"]], "sgoffset": [str(F(v, Dn)) for v in case["off"]]},
                  key="%s:%s:%s:si%d" % (clause, api, case["kind"], case["si"]))


def process(ctx, settings_idx, do_model=True, do_uij=True):
    from diffpy.structure.spacegroups import SpaceGroupList
    nops = {i: len(SpaceGroupList[i].symop_list) for i in range(len(SpaceGroupList))}
    order = sorted(settings_idx, key=lambda i: -nops[i])
    t0 = time.time()
    with multiprocessing.Pool(min(core.NPROC, 16)) as pool:
        outs = pool.map(_worker, [(i, ctx.seed, ctx.tier) for i in order], chunksize=1)
    ctx.log("implementation + exact oracle on %d settings: %.1fs" % (len(order), time.time() - t0))
    cases, results = {}, {}
    seen = {}
    kinds, skipped, fragile = {}, {}, 0
    njudged = neau = nstrata = 0
    errors = []
    eau_calls = []
    for o in outs:
        if o["error"]:
            errors.append("setting index %d: %s" % (o["si"], o["error"]))
        for g in o.get("eau_raw", []):
            eau_calls.append((o["si"], len(cases), g))
        nstrata += o["nstrata"]
        neau += o["eau_n"]
        name = SpaceGroupList[o["si"]].short_name
        for r in o["results"]:
            cid = len(cases)
            cases[cid] = r["case"]
            results[cid] = r
            c = r["case"]
            kinds[c["kind"]] = kinds.get(c["kind"], 0) + 1
            njudged += r["judged"]
            if r["not_judged"]:
                skipped[r["why_not"] or "snapped site not judged"] = skipped.get(r["why_not"] or "snapped site not judged", 0) + 1
            ctx.count((c["si"], tuple(c["stratum"] or ()), c["kind"]))
            for clause, api, msg in r["bad"]:
                report(ctx, seen, c, clause, api, msg, name)
        for c, (clause, api, msg) in o["eau_bad"]:
            report(ctx, seen, c, clause, api, msg, name)
    if seen:
        ctx.log("finder: problems by (clause, entry point):", sorted(seen.items()))
    ctx.obligation("harness:workers-completed", not errors, "; ".join(errors)[:600])
    ctx.count(n=neau)
    # model correspondence
    agree = disagree = skipped_fragile = sep_checked = 0
    g_agree = g_disagree = g_skipped = g_moved = 0
    a_agree = a_disagree = a_groups_eval = 0
    u_agree = u_disagree = 0
    hyp_yes = hyp_no = 0
    first_diff = g_first = a_first = u_first = ""
    if do_model and cases:
        t0 = time.time()
        # hypotheses of the snap theorem: evaluated on inside cases of small groups (quadratic in the group order)
        flags = [cid for cid, c in cases.items() if c["kind"] in ("inside", "inside+offset", "eps1e-7-in", "eps1e-3-in", "eps1e-3-in+offset")
                 and nops[c["si"]] <= 48 and not results[cid]["fragile"]]
        flags = flags[::(3 if ctx.tier == "quick" else 2)]
        # ExpandAsymmetricUnit calls that are cheap to evaluate in Coq as a whole
        groups = {}
        for gid, (si, base, g) in enumerate(eau_calls):
            mem = [base + k for k in g["members"]]
            if sum(nops[si] * max(1, results[c]["nclusters"]) for c in mem) <= 4000 and not any(results[c]["fragile"] for c in mem):
                c0 = cases[mem[0]]
                groups[gid] = (si, c0["D"], c0["off"], [cases[c]["x"] for c in mem], tol_expr(c0))
        groups = {g: groups[g] for g in list(groups)[::(5 if ctx.tier == "quick" else 4)]}
        ucases = {cid: r["gimpl"]["U"] for cid, r in results.items()
                  if r.get("gimpl") and "eqU" in r["gimpl"] and not r["fragile"] and cases[cid].get("eps") is None
                  and nops[cases[cid]["si"]] * r["nclusters"] <= 2500}
        ucases = {k: ucases[k] for k in list(ucases)[::(6 if ctx.tier == "quick" else 5)]}
        if not do_uij:
            ucases = {}
        # cost of one evaluation ~ operations x positions (x2 when the site is moved and re-expanded)
        cost = {cid: nops[c["si"]] * max(1, results[cid]["nclusters"]) * (2 if c["kind"].startswith("inside") else 1) for cid, c in cases.items()}
        model, gmodel, umodel, merr = run_model(ctx, cases, nops, flags, groups, ucases, cost)
        ctx.log("Coq evaluation on %d cases (+%d asymmetric-unit calls, %d tensor cases): %.1fs" % (len(cases), len(groups), len(ucases), time.time() - t0))
        ctx.obligation("model:evaluated-all-cases", not merr["m"] and len(model) == len(cases),
                       ("%d of %d evaluated; " % (len(model), len(cases))) + " | ".join(merr["m"])[:500])
        ctx.obligation("model:evaluated-asym-and-tensor-cases", not merr["g"] and not merr["u"] and len(gmodel) == len(groups) and len(umodel) == len(ucases),
                       ("%d/%d calls, %d/%d tensor cases; " % (len(gmodel), len(groups), len(umodel), len(ucases))) + " | ".join(merr["g"] + merr["u"])[:500])
        sep_bad = ""
        ops_cache = {}
        for cid, (meps, mexact, mgen, flag) in model.items():
            r = results[cid]
            c = r["case"]
            if flag == 1:
                hyp_yes += 1
            elif flag == 0:
                hyp_no += 1
            if r["fragile"]:
                skipped_fragile += 1
                continue
            d = compare_model(c, r["impl"], meps)
            if d:
                disagree += 1
                if not first_diff:
                    first_diff = "setting index %d, case %s: %s" % (c["si"], json.dumps(c), d)
                ctx.log("model/implementation difference:", first_diff[:400] if disagree == 1 else "(%d)" % disagree)
            else:
                agree += 1
            # where the images are separated the tolerance algorithm must equal the exact expansion
            if r["judged"] and c["kind"] not in ("inside", "inside+offset", "eps1e-7-in", "eps1e-3-in", "eps1e-3-in+offset"):
                sep_checked += 1
                if meps != mexact and not sep_bad:
                    sep_bad = "case %s: expand_eps differs from expand_exact" % json.dumps(c)
            ctx.count()
            # GeneratorSite.__init__ (position part)
            if "gimpl" in r:
                gd = compare_generator(r["gimpl"], mgen)
                if mgen is not None and mgen["D"] != c["D"]:
                    g_moved += 1
                if gd:
                    if c["si"] not in ops_cache:
                        ops_cache[c["si"]] = co.exact_ops(SpaceGroupList[c["si"]])
                    if second_stage_fragile(ops_cache[c["si"]], c, mgen):
                        g_skipped += 1
                    else:
                        g_disagree += 1
                        if not g_first:
                            g_first = "setting index %d, case %s: %s" % (c["si"], json.dumps(c), gd)
                            ctx.log("GeneratorSite model/implementation difference:", g_first[:400])
                else:
                    g_agree += 1
                ctx.count()
        # ExpandAsymmetricUnit: every member against the model GeneratorSite, cheap calls against expand_asym itself
        for gid, (si, base, g) in enumerate(eau_calls):
            mem = [base + k for k in g["members"]]
            for j, cidm in enumerate(mem):
                if results[cidm]["fragile"] or cidm not in model:
                    continue
                mgen = model[cidm][2]
                d = compare_asym_member(g["mult"][j], g["pos"][j], mgen)
                if d:
                    if si not in ops_cache:
                        ops_cache[si] = co.exact_ops(SpaceGroupList[si])
                    if second_stage_fragile(ops_cache[si], cases[cidm], mgen):
                        continue
                if d and not a_first:
                    a_first = "setting index %d, case %s: %s" % (si, json.dumps(cases[cidm]), d)
                # expandedUijs of the call = eqUij of the member's own GeneratorSite (whose model is compared separately)
                gi = results[cidm].get("gimpl") or {}
                if not d and g.get("U") and g["U"][j] is not None and "eqU" in gi:
                    if len(g["U"][j]) != len(gi["eqU"]) or any(abs(p - q) > 1e-12 for a_, b_ in zip(g["U"][j], gi["eqU"]) for p, q in zip(a_, b_)):
                        d = "expandedUijs differ from the eqUij of the site's GeneratorSite"
                        if not a_first:
                            a_first = "setting index %d, case %s: %s" % (si, json.dumps(cases[cidm]), d)
                a_disagree += 1 if d else 0
                a_agree += 0 if d else 1
            if gid in gmodel:
                a_groups_eval += 1
                ga = gmodel[gid]
                ok_g = ga is not None and len(ga) == len(mem)
                if ok_g:
                    for j, cidm in enumerate(mem):
                        mg = model[cidm][2] if cidm in model else None
                        if mg is None or ga[j]["mult"] != mg["mult"] or ga[j]["D"] != mg["D"] or ga[j]["pos"] != mg["pos"]:
                            ok_g = False
                if not ok_g and not a_first:
                    a_first = "setting index %d: expand_asym on %s differs from the per-site generator model" % (si, json.dumps(groups[gid][3]))
                    a_disagree += 1
        for cid, mu in umodel.items():
            r = results[cid]
            if not r["gimpl"].get("sym", True):
                d = "implementation returned a non-symmetric tensor"
            else:
                d = compare_tensors(r["gimpl"], mu)
            if d and cid in model and model[cid][2] is not None and compare_generator(r["gimpl"], model[cid][2]):
                continue      # positions already differ (reported or skipped above)
            if d:
                u_disagree += 1
                if not u_first:
                    u_first = "setting index %d, case %s: %s" % (cases[cid]["si"], json.dumps(cases[cid]), d)
            else:
                u_agree += 1
            ctx.count()
        ctx.obligation("correspondence:expand_eps-vs-expandPosition", disagree == 0, first_diff)
        ctx.obligation("model:expand_eps=expand_exact-on-separated-cases", not sep_bad, sep_bad)
        ctx.obligation("correspondence:generator_site-vs-GeneratorSite", g_disagree == 0, g_first)
        ctx.obligation("correspondence:expand_asym-vs-ExpandAsymmetricUnit", a_disagree == 0, a_first)
        ctx.obligation("correspondence:eq_uijs-vs-GeneratorSite.eqUij", u_disagree == 0, u_first)
    for cid in list(results)[:400]:
        r = results[cid]
        if r["case"]["kind"] in ("inside", "offset+shift", "outside", "eps0-off", "eps0-off+offset", "eps1e-3-in") and r["impl"]:
            c = r["case"]
            ctx.sample({"setting_index": c["si"], "kind": c["kind"], "eps": c.get("eps"), "xyz": [str(F(v, c["D"])) for v in c["x"]],
                        "sgoffset": [str(F(v, c["D"])) for v in c["off"]], "site_symmetry_order": r["nstab"],
                        "multiplicity_returned": r["impl"]["mult"], "orbit_size_exact": r["nclusters"]}, limit=6)
    ctx.coverage.update({
        "rule": "distinct (setting, exact site-symmetry operation set, case kind); kinds: general/special sites exact, "
                "integer cell shift, shifted origin, perturbed 1e-7..4e-6 (inside), perturbed >= 5e-5 (outside); eps argument 0 / 1e-7 / 1e-3 "
                "on dyadic mid-bin sites displaced by 2^-22, 2^-26, 2^-13 (kinds eps*)",
        "settings": len(order), "strata_discovered": nstrata, "cases_by_kind": kinds,
        "finder_judgements": njudged, "finder_not_judged": skipped, "expand_asymmetric_unit_sites": neau,
        "model_agree": agree, "model_disagree": disagree, "model_skipped_margin_below_1e-9": skipped_fragile,
        "separated_cases_eps_equals_exact": sep_checked,
        "generator_model_agree": g_agree, "generator_model_disagree": g_disagree, "generator_model_skipped_margin": g_skipped,
        "generator_model_sites_moved_by_snap": g_moved,
        "asym_unit_members_agree": a_agree, "asym_unit_disagree": a_disagree, "asym_unit_calls_evaluated_in_coq": a_groups_eval,
        "tensor_cases_agree": u_agree, "tensor_cases_disagree": u_disagree,
        "snap_theorem_hypotheses_hold": hyp_yes, "snap_theorem_hypotheses_fail": hyp_no,
    })
    return results


def run(ctx):
    ctx.trusted += ["Coq 8.16.1 kernel + vm_compute (no native_compute)", "translate/sgtables.py (fail-closed ast translator of the tables)",
                    "vlib/c02_orbit.py: exact Fraction oracle, case generator, margin rule (decisions closer than 1e-9 to a threshold are not judged)",
                    "float arithmetic of numpy is compared with the exact model to 1e-9, not modelled"]
    ctx.assumptions += ["a site is a rational triple; the model works on the grid k/D with 12 | D (every rational site has this form)",
                        "tolerances in the model are the exact rational values of the doubles 1.0e-5 and (1.0e-5+1.0)-1.0",
                        "the adjusted tensor self.Uij is taken from the implementation (its construction is C06's subject); eqUij = R U R^T is modelled",
                        "the null-space / parameter / formula parts of GeneratorSite belong to C05/C06 and are not modelled here"]
    from vlib.props import c03
    with core.BuildLock():
        ok = ctx.regen("sgtables", sgtables.generate)
        okU = False
        if ok:
            ctx.coq(TARGETS, theorems_in=THEOREMS_IN)
            # the position part and the tensor part are built (and can fail) independently
            ok = os.path.exists(os.path.join(core.COQ, "Props", "C02.vo"))
            okU = ok and os.path.exists(os.path.join(core.COQ, "Props", "C02_Uij.vo"))
        c03.tables_match_live(ctx)
        from diffpy.structure.spacegroups import SpaceGroupList
        # corpus first
        cdir = os.path.join(core.VERIF, "corpus", "C02")
        if os.path.isdir(cdir):
            for f in sorted(os.listdir(cdir)):
                if f.endswith(".json"):
                    replay_case(ctx, json.load(open(os.path.join(cdir, f))), model=ok)
        process(ctx, list(range(len(SpaceGroupList))), do_model=ok, do_uij=okU)


def replay_case(ctx, case, model=True):
    from diffpy.structure.spacegroups import SpaceGroupList
    sg = SpaceGroupList[case["si"]]
    ops = co.exact_ops(sg)
    r = run_case(sg, ops, case)
    seen = {}
    for clause, api, msg in r["bad"]:
        report(ctx, seen, case, clause, api, msg, sg.short_name)
    ctx.count(("corpus", case["si"], case["kind"]))
    if model and not r["fragile"]:
        out, _, _, err = run_model(ctx, {0: case}, {case["si"]: len(ops)})
        if 0 in out:
            d = compare_model(case, r["impl"], out[0][0])
            if not d and "gimpl" in r:
                d = compare_generator(r["gimpl"], out[0][2])
                if d and second_stage_fragile(ops, case, out[0][2]):
                    d = ""
            ctx.obligation("correspondence:corpus-case", not d, d)
    return r


def replay(ctx, rep):
    case = rep.get("case", {}).get("case") or rep.get("case")
    if not case or "si" not in case:
        ctx.log("replay file carries no concrete case; re-running the whole check")
        return run(ctx)
    with core.BuildLock():
        ok = ctx.regen("sgtables", sgtables.generate)
        if ok:
            ctx.coq(TARGETS, theorems_in=THEOREMS_IN)
            ok = os.path.exists(os.path.join(core.COQ, "Props", "C02.vo"))
        r = replay_case(ctx, case, model=ok)
    ctx.log("replayed: impl multiplicity %s, exact orbit size %d, problems: %s" %
            (r["impl"] and r["impl"]["mult"], r["nclusters"], r["bad"] or "none"))
