"""C05 - positional symmetry constraints are sound and complete.

Theorems: coq/Props/C05.v (soundness of the certificate checker Model/C05_PosCert.v, exact orbit partition).
Tie: Gen/SGTables regenerated from the source; the extracted checker is run on what the real GeneratorSite reports
for every setting x discovered site-symmetry stratum; SymmetryConstraints.coremap against the exact orbit partition.
Finder: formulas evaluated at other parameter values must still give a full orbit of the same multiplicity."""
from vlib import c0506_run


def run(ctx):
    c0506_run.run_property(ctx, "C05")


def replay(ctx, case):
    c0506_run.replay_property(ctx, "C05", case)
