"""C14 - re-expressing a structure in another lattice leaves the crystal unchanged."""
import numpy

from translate import lattice as tlattice, c14_place
from vlib import core, latlive

TARGETS = ["Props/C14.vo"]


def rand_lattice(rng):
    from diffpy.structure.lattice import Lattice
    k = rng.random()
    if k < 0.15:
        # edited after construction through one property / a partial setLatPar: every cached matrix must follow
        L = Lattice(*latlive.rand_cell(rng))
        for _ in range(rng.randint(1, 2)):
            cell = latlive.rand_cell(rng)
            p = rng.choice(["alpha", "beta", "gamma", "a", "c"])
            cur = dict(zip(["a", "b", "c", "alpha", "beta", "gamma"], L.abcABG()))
            cur[p] = cell[["a", "b", "c", "alpha", "beta", "gamma"].index(p)]
            import math
            ca, cb, cg = (math.cos(math.radians(cur[x])) for x in ("alpha", "beta", "gamma"))
            if 1 + 2 * ca * cb * cg - ca * ca - cb * cb - cg * cg > 0.05:
                setattr(L, p, cur[p])
        return L
    if k < 0.4:
        return Lattice(*latlive.rand_cell(rng))
    if k < 0.7:
        return Lattice(*latlive.rand_cell(rng), baserot=latlive.rand_rot(rng))
    return Lattice(base=latlive.rand_base(rng))


def rand_structure(rng, lat):
    from diffpy.structure import Structure, Atom
    atoms = []
    if rng.random() < 0.2:
        # several atoms built from ONE caller-owned float array (positions and tensors): each atom must own its data
        A = numpy.array([[rng.uniform(-0.1, 0.1) for _ in range(3)] for _ in range(3)])
        Ush = A @ A.T + 0.002 * numpy.identity(3)
        if rng.random() < 0.3:
            Ush = 0.01 * numpy.identity(3)
        xsh = numpy.array([rng.uniform(-1.5, 2.5) for _ in range(3)])
        for i in range(rng.randint(2, 4)):
            atoms.append(Atom(rng.choice(["C", "Na", "Cl"]), xsh, U=Ush))
        S = Structure(lattice=lat)
        for a in atoms:
            if rng.random() < 0.5:
                S.addNewAtom(a.element, xsh, U=Ush)
            else:
                S.append(a, copy=rng.random() < 0.5)
        S._caller_arrays = [(Ush, Ush.copy()), (xsh, xsh.copy())]
        return S
    for i in range(rng.randint(1, 6)):
        xyz = [rng.uniform(-1.5, 2.5) for _ in range(3)]
        if rng.random() < 0.5:
            A = numpy.array([[rng.uniform(-0.1, 0.1) for _ in range(3)] for _ in range(3)])
            U = A @ A.T + 0.002 * numpy.identity(3)
            atoms.append(Atom(rng.choice(["C", "Na", "Cl", "O2-"]), xyz, occupancy=round(rng.uniform(0.1, 1), 3), U=U))
        else:
            atoms.append(Atom(rng.choice(["C", "Na", "Cl"]), xyz, occupancy=round(rng.uniform(0.1, 1), 3), Uisoequiv=round(rng.uniform(0, 0.05), 4)))
    S = Structure(atoms, lattice=lat)
    for a in S:
        # an isotropic-valued tensor carried by an atom flagged anisotropic (as CIF files with full Uij lists do)
        if not a.anisotropy and rng.random() < 0.4:
            a.anisotropy = True
    return S


def observe(S):
    out = []
    for a in S:
        N = a.lattice.normbase
        out.append((numpy.array(a.xyz_cartn), N.T @ numpy.array(a.U) @ N, a.Uisoequiv, a.anisotropy, a.occupancy, id(a), a.element))
    return out


def run(ctx):
    ctx.trusted += ["Coq 8.16.1 kernel", "translate/lattice.py, translate/c14_place.py (fail-closed; validated against the live code each run)",
                    "stdlib Reals axioms (sig_forall_dec, sig_not_dec, functional_extensionality_dep, classic)"]
    ctx.assumptions += ["float rounding outside the model", "the equivalent isotropic value of an anisotropic atom is tr(Ucart)/3 (C09 links atom.py's formula to it)",
                        "list/identity behaviour of the container is C08's model; here: every atom visited once"]
    with core.BuildLock():
        ok = ctx.regen("lattice", tlattice.generate) and ctx.regen("c14_place", c14_place.generate)
        if ok:
            ctx.coq(TARGETS, theorems_in={"Props/C14"}, timeout=1500)
    M = latlive.load_module("LatFormulas.v", "C14_Place.v") if ok else None
    rng = ctx.rng
    n = 150 if ctx.tier == "quick" else 8000
    bad = []
    for i in range(n):
        L0 = rand_lattice(rng)
        S = rand_structure(rng, L0)
        before = observe(S)
        frac0 = [numpy.array(a.xyz) for a in S]
        U0 = [numpy.array(a.U) for a in S]
        chain = [rand_lattice(rng) for _ in range(rng.randint(1, 4))]
        if i % 3 == 0:
            # same cell parameters in a different orientation, and an identical copy: nothing may be skipped
            from diffpy.structure.lattice import Lattice
            k = rng.randrange(len(chain) + 1)
            prev = L0 if k == 0 else chain[k - 1]
            chain.insert(k, Lattice(*prev.abcABG(), baserot=latlive.rand_rot(rng)))
            chain.insert(k + 1, Lattice(chain[k]))
        cur = L0
        for Lk in chain + [L0]:
            if M:
                recO, recN = latlive.live_record(cur), latlive.live_record(Lk)
                pred = [(M.call("place_xyz", recO, recN, tuple(a.xyz)), M.call("place_U", recO, recN, latlive.flat(a.U)) if a.anisotropy else None) for a in S]
            r = S.placeInLattice(Lk)
            ctx.count(("place", i, len(chain)))
            if M:
                for a, (px, pu) in zip(S, pred):
                    if not numpy.allclose(a.xyz, px, rtol=1e-9, atol=1e-9) or (pu is not None and not numpy.allclose(numpy.array(a.U).flatten(), pu, rtol=1e-9, atol=1e-11)):
                        if len(bad) < 3:
                            bad.append("placeInLattice differs from generated place_xyz/place_U")
            after = observe(S)
            probs = []
            dev = []
            if r is not S or S.lattice is not Lk or any(a.lattice is not Lk for a in S):
                probs.append("lattice identity: the new lattice is not the lattice of the structure and of all atoms")
            # round-off grows with the square of the condition number of the cells involved (1.5e-8 seen at cond 528)
            cmax = max(float(numpy.linalg.cond(x.base)) for x in (L0, cur, Lk))
            f = max(1.0, (cmax / 50.0) ** 2)
            for (c0, u0, q0, an0, oc0, id0, el0), (c1, u1, q1, an1, oc1, id1, el1) in zip(before, after):
                if not numpy.allclose(c0, c1, atol=1e-7 * f):
                    probs.append("Cartesian position moved")
                if not numpy.allclose(u0, u1, atol=1e-8 * f):
                    probs.append("Cartesian displacement tensor changed")
                    dev.append(float(numpy.abs(numpy.array(u0) - numpy.array(u1)).max()))
                if not numpy.isclose(q0, q1, atol=1e-9 * f):
                    probs.append("Uisoequiv changed")
                if (an0, oc0, id0, el0) != (an1, oc1, id1, el1):
                    probs.append("flag/occupancy/identity changed")
            for p in sorted(set(probs)):
                ctx.violation("placeInLattice: %s" % p, {"start": repr(L0), "chain": [repr(x) for x in chain], "at": repr(Lk), "clause": p, "max_deviation": max(dev) if dev else None,
                               "cond": [float(numpy.linalg.cond(x.base)) for x in [L0] + chain]}, key="place:%s" % p.split(" ")[0])
            cur = Lk
        for arr, keep in getattr(S, "_caller_arrays", []):
            if not numpy.array_equal(arr, keep):
                ctx.violation("placeInLattice changed an array owned by the caller (the one the atoms were built from)",
                              {"start": repr(L0), "chain_len": len(chain)}, key="place:caller-array")
        fch = max(1.0, (max(float(numpy.linalg.cond(x.base)) for x in [L0] + chain) / 50.0) ** 2)
        if not all(numpy.allclose(a.xyz, f, atol=1e-7 * fch) for a, f in zip(S, frac0)) or not all(numpy.allclose(a.U, u, atol=1e-8 * fch) for a, u in zip(S, U0)):
            ctx.violation("a chain of lattices ending at the start does not restore fractional coordinates / tensors",
                          {"start": repr(L0), "chain": [repr(x) for x in chain]}, kind="history", key="chain-returns")
        if i < 3:
            ctx.sample({"start": repr(L0), "chain": [repr(x) for x in chain], "atoms": len(S)})
    if M:
        ctx.obligation("correspondence:placeInLattice-vs-generated-definitions", not bad, "; ".join(bad))
    ctx.coverage.update({"rule": "random structures (iso/aniso atoms) through random chains of lattices (parameters, rotated, base-defined) and back"})
