"""C18 - nanoparticle cut-outs contain only crystal sites inside the requested shape.

Proof: Props/C18.v over Model/C18_Ellipsoid.v (+ the C15 model), generated parts from translate/c18_ellipsoid.py and
translate/c15_supercell.py.  Correspondence: random cells/rotations/radii (exact rational model; cases where the
implementation's float decision is within a margin of a tie - centre choice, d = 1, ceil argument near an integer - are
skipped for the comparison, never for the finder).  Finder: the property text on the real makeEllipsoid/makeSphere.
"""
import json
import math
import re
from fractions import Fraction

import numpy

from translate import c15_supercell, c18_ellipsoid
from vlib import core
from vlib.props import c09 as h09
from vlib.props import c15 as h15

TARGETS = ["Props/C18.vo"]
MARGIN = 1e-7


# ---------------------------------------------------------------------------------------------- generators
def random_case(rng):
    lat = h09.random_latspec(rng)
    if lat is None:
        lat = {"kind": "par", "args": [1.0, 1.0, 1.0, 90.0, 90.0, 90.0]}
    natoms = rng.choice([1, 1, 2, 2, 3, 4, 0])
    atoms = []
    for k in range(natoms):
        if rng.random() < 0.85:
            xyz = [round(rng.uniform(0.0, 0.999), 3) for _ in range(3)]
        else:
            xyz = [round(rng.uniform(-0.4, 1.4), 3) for _ in range(3)]     # outside the cell: completeness clause not applicable
        at = {"element": rng.choice(h15.ELEMENTS), "xyz": xyz, "label": "L%d" % k, "occupancy": rng.choice([1.0, 0.5]),
              "extra": {"tag": k, "note": "n%d" % rng.randint(0, 9)}}
        if rng.random() < 0.4:
            at["U"] = h09.sym_tensor(rng, 0.01)
        atoms.append(at)
    # radii relative to the cell so that the block stays small
    L = h09.make_lattice(lat)
    size = min(L.a, L.b, L.c)
    r = [round(rng.uniform(0.3, 1.6) * size, 3) for _ in range(3)]
    k = rng.random()
    if k < 0.35:
        call = {"fn": "makeSphere", "radii": [r[0]]}
    elif k < 0.5:
        call = {"fn": "makeEllipsoid", "radii": [r[0]]}
    elif k < 0.6:
        call = {"fn": "makeEllipsoid", "radii": [r[0], r[1]]}
    else:
        call = {"fn": "makeEllipsoid", "radii": r}
    return {"structure": {"lattice": lat, "atoms": atoms}, "call": call}


def dyadic_case(rng):
    """Inputs that are short binary fractions (cell given by its base matrix in eighths, coordinates in 64ths, radii in
    eighths): the exact-rational model then works with small numbers.  Any shape and orientation of cell is reachable."""
    while True:
        case = random_case(rng)
        L = h09.make_lattice(case["structure"]["lattice"])
        base = numpy.round(numpy.array(L.base, dtype=float) * 8) / 8
        if numpy.linalg.det(base) > 0.3 * abs(numpy.linalg.det(L.base)) and numpy.linalg.det(base) > 1e-3:
            break
    case["structure"]["lattice"] = {"kind": "base", "base": base.tolist()}
    for a in case["structure"]["atoms"]:
        a["xyz"] = [round(x * 64) / 64 for x in a["xyz"]]
    case["call"]["radii"] = [max(0.125, round(r * 8) / 8) for r in case["call"]["radii"]]
    return case


def radii3(call):
    r = call["radii"]
    a = r[0]
    b = r[1] if len(r) > 1 else a
    c = r[2] if len(r) > 2 else a
    return a, b, c


def do_call(S, call):
    from diffpy.structure.expansion.makeellipsoid import makeEllipsoid, makeSphere
    try:
        if call["fn"] == "makeSphere":
            return "ok", makeSphere(S, call["radii"][0])
        return "ok", makeEllipsoid(S, *call["radii"])
    except ValueError as e:
        return "ValueError", str(e)
    except IndexError as e:
        return "IndexError", str(e)
    except Exception as e:
        return type(e).__name__, str(e)


# ---------------------------------------------------------------------------------------------- finder: the property text
def check_property(S, before, case, status, res, margin=None):
    margin = MARGIN if margin is None else margin
    bad = []
    a, b, c = radii3(case["call"])
    rad = numpy.array([a, b, c], dtype=float)
    if not h15.same_snapshot(before, h15.snapshot(S)):
        bad.append(("input not modified", "the input structure changed"))
    if len(S) == 0:
        return bad          # nothing to centre on: outside the property's domain (the implementation raises IndexError)
    if status != "ok":
        bad.append(("returns for all positive radii", "%s(%s) raised %s: %s" % (case["call"]["fn"], case["call"]["radii"], status, res)))
        return bad
    N = res
    B = numpy.array(S.lattice.base, dtype=float)
    RB = numpy.linalg.inv(B)
    scale = max(1.0, float(numpy.abs(numpy.array(N.lattice.base)).max()))
    pos = numpy.array([numpy.array(g.xyz_cartn, dtype=float) for g in N]).reshape(-1, 3)
    if len(N) == 0:
        bad.append(("centred on a returned atom", "empty result for a non-empty structure"))
        return bad
    # genuine sites with the parent's attributes
    parents = list(S)
    pcart = numpy.array([numpy.dot(p.xyz, B) for p in parents])
    for g, x in zip(N, pos):
        tag = getattr(g, "tag", None)
        if tag is None or not (0 <= tag < len(parents)):
            bad.append(("genuine sites", "a returned atom does not derive from an input atom"))
            break
        t = (x - pcart[tag]).dot(RB)
        if not numpy.allclose(t, numpy.round(t), rtol=0, atol=1e-7):
            bad.append(("genuine sites", "returned atom at %s is parent %d displaced by %s cell vectors" % (x.tolist(), tag, t.tolist())))
            break
        if not h15.payload_equal(parents[tag], g):
            bad.append(("parent attributes", "returned atom of parent %d lost its element/label/occupancy/U/extras" % tag))
            break
    # inside an ellipsoid centred on one of the returned atoms (decision margin on d = 1)
    ok_center = False
    for cx in pos:
        d = numpy.sqrt((((pos - cx) / rad) ** 2).sum(axis=1))
        if (d <= 1 + margin).all():
            ok_center = True
            break
    if not ok_center:
        bad.append(("all inside an ellipsoid centred on a returned atom", "no returned atom is a centre containing all others"))
        return bad
    # no site twice
    dup = False
    if len(pos) > 1:
        dm = numpy.abs(pos[:, None, :] - pos[None, :, :]).max(axis=2) + numpy.identity(len(pos)) * 1e9
        dup = bool((dm < 1e-6 * scale).any())
    if dup:
        coinc = False
        for i, p in enumerate(parents):
            for q in parents[i + 1:]:
                dd = numpy.array(p.xyz) - numpy.array(q.xyz)
                if numpy.allclose(dd, numpy.round(dd), atol=1e-9):
                    coinc = True
        if not coinc:
            bad.append(("no site twice", "a position is listed twice"))
    # completeness inside the returned cell (input atoms inside their cell)
    if all((0 <= numpy.array(p.xyz)).all() and (numpy.array(p.xyz) < 1).all() for p in parents):
        NB = numpy.array(N.lattice.base, dtype=float)
        mm = numpy.round(numpy.diag(NB.dot(RB))).astype(int)
        tags = numpy.array([getattr(g, "tag", -1) for g in N])
        d_all = numpy.sqrt((((pos[:, None, :] - pos[None, :, :]) / rad) ** 2).sum(axis=2))
        centres = [i for i in range(len(pos)) if (d_all[:, i] <= 1 + margin).all()]
        cx = pos[centres[0]]
        for tag, p in enumerate(parents):
            for i in range(int(mm[0])):
                for j in range(int(mm[1])):
                    for k in range(int(mm[2])):
                        x = pcart[tag] + i * B[0] + j * B[1] + k * B[2]
                        # present unless outside for EVERY admissible centre (the centre is not unique within the margin)
                        if all((math.sqrt((((x - pos[ci]) / rad) ** 2).sum()) < 1 - margin) or (margin == 0 and math.sqrt((((x - pos[ci]) / rad) ** 2).sum()) <= 1) for ci in centres):
                            mine = pos[tags == tag]
                            if len(mine) == 0 or numpy.abs(mine - x).max(axis=1).min() > 1e-6 * scale:
                                bad.append(("complete inside the returned cell", "site of parent %d + (%d,%d,%d) is inside but missing" % (tag, i, j, k)))
                                return bad
        del cx
    return bad


def sphere_vs_ellipsoid(S, r):
    from diffpy.structure.expansion.makeellipsoid import makeEllipsoid, makeSphere
    try:
        A, B = makeSphere(S, r), makeEllipsoid(S, r, r, r)
    except Exception:
        return []
    same = len(A) == len(B) and all(x.element == y.element and numpy.array_equal(x.xyz, y.xyz) for x, y in zip(A, B)) \
        and A.lattice.abcABG() == B.lattice.abcABG()
    return [] if same else [("sphere = ellipsoid with equal radii", "radius %r: %d vs %d atoms" % (r, len(A), len(B)))]


def report(ctx, case, fails):
    seen = ctx.__dict__.setdefault("_c18_seen", set())
    for cl, det in fails:
        if cl in seen:
            continue
        seen.add(cl)
        ctx.violation("%s: %s" % (cl, det), dict(case, clause=cl, detail=det), kind="input", key="clause:" + cl)
    return len(fails)


# ---------------------------------------------------------------------------------------------- model side
def frac_variant():
    return c18_ellipsoid.spec()["frac"]


def margins_ok(S, case, status, res, variant):
    """True when none of the implementation's float decisions is close to a tie (then model and code must agree)."""
    a, b, c = radii3(case["call"])
    rad = numpy.array([a, b, c], dtype=float)
    rb = numpy.array(S.lattice.recbase, dtype=float)
    frac = rad.dot(numpy.abs(rb)) if variant == "abs" else rad.dot(rb)
    for f in frac:
        if abs(2 * f - round(2 * f)) < 1e-6:
            return False
    m = max(math.ceil(2 * f) for f in frac)
    if m < 1 or len(S) == 0:
        return True
    if m ** 3 * len(S) > 400:
        return False
    B = numpy.array(S.lattice.base, dtype=float) * m
    xyz = numpy.array([(numpy.array(p.xyz) + [i, j, k]) / m for p in S for i in range(m) for j in range(m) for k in range(m)])
    d = numpy.sqrt((((xyz - 0.5).dot(B)) ** 2).sum(axis=1))
    n = len(xyz)
    srt = numpy.sort(d)
    if len(srt) > 1 and abs(srt[1] - srt[0]) < 1e-7 * max(1.0, srt[0]):
        return False          # tie for the centre
    if abs(srt[0] - n) < 1e-7 * n:
        return False
    ci = int(numpy.argmin(d)) if srt[0] < n else n - 1
    cart = xyz.dot(B)
    dd = numpy.sqrt((((cart - cart[ci]) / rad) ** 2).sum(axis=1))
    if (numpy.abs(dd - 1) < MARGIN).any():
        return False
    return True


COQ_HEAD = """From Coq Require Import QArith Qabs ZArith List Bool.
From DS Require Import Base.C09_GNum Gen.C15_Spec Model.C15_Supercell Gen.C18_Spec Model.C18_Ellipsoid.
Import ListNotations.
Open Scope Q_scope.
Definition outq (r : eresult (structure Q nat)) : list Q :=
  match r with
  | EValueError => [0]
  | EIndexError => [3]
  | EOk St => let c := s_cell St in
      [1; c_a c; c_b c; c_c c; c_alpha c; c_beta c; c_gamma c] ++
      flat_map (fun a => [inject_Z (Z.of_nat (at_pay a)); x0 (at_xyz a); x1 (at_xyz a); x2 (at_xyz a)]) (s_atoms St)
  end.
Definition qmax1 (y : Q) : Q := if Qle_bool 1 (Qabs y) then Qabs y else 1.
Fixpoint agree_l (xs ys : list Q) : bool :=
  match xs, ys with
  | [], [] => true
  | x :: xr, y :: yr => Qle_bool (Qabs (x - y)) ((1 # 1000000000000) * qmax1 y) && agree_l xr yr
  | _, _ => false
  end.
Definition agree (r : eresult (structure Q nat)) (ys : list Q) : bool := agree_l (outq r) ys.
Definition brief (r : eresult (structure Q nat)) : list Z :=
  match r with EValueError => [0%Z] | EIndexError => [3%Z] | EOk St => [1%Z; Z.of_nat (length (s_atoms St))] end.
"""


def qm(m):
    return "(GM %s)" % " ".join("(GV %s %s %s)" % tuple(h15.qlit(float(x)) for x in r) for r in numpy.array(m, dtype=float))


def coq_call(case, S):
    spec = case["structure"]
    atoms = "; ".join("Atom (GV %s %s %s) %d%%nat" % (h15.qlit(a["xyz"][0]), h15.qlit(a["xyz"][1]), h15.qlit(a["xyz"][2]), k)
                      for k, a in enumerate(spec["atoms"]))
    lat = S.lattice
    cell = "Cell %s %s" % (" ".join(h15.qlit(float(x)) for x in lat.abcABG()), qm(lat.baserot))
    ein = "(EIn (Struct [%s] (%s)) %s %s)" % (atoms, cell, qm(lat.base), qm(lat.recbase))
    r = case["call"]["radii"]
    if case["call"]["fn"] == "makeSphere":
        return "(make_sphere QOps Qceil %s %s)" % (ein, h15.qlit(r[0]))
    ob = "(Some %s)" % h15.qlit(r[1]) if len(r) > 1 else "None"
    oc = "(Some %s)" % h15.qlit(r[2]) if len(r) > 2 else "None"
    return "(make_ellipsoid_opt QOps Qceil %s %s %s %s)" % (ein, h15.qlit(r[0]), ob, oc)


def expected_list(status, res):
    if status == "ValueError":
        return [0]
    if status == "IndexError":
        return [3]
    if status != "ok":
        return [2]
    out = [1] + [float(x) for x in res.lattice.abcABG()]
    for g in res:
        out += [int(getattr(g, "tag", -1))] + [float(x) for x in g.xyz]
    return out


def run_cases(ctx, ncases, with_model, variant):
    rng = ctx.rng
    nviol = 0
    todo = []
    nskip = 0
    for k in range(ncases):
        case = dyadic_case(rng) if (with_model and k % 2 == 0) else random_case(rng)
        S = h15.build_structure(case["structure"])
        before = h15.snapshot(S)
        status, res = do_call(S, case["call"])
        fails = check_property(S, before, case, status, res)
        if case["call"]["fn"] == "makeSphere" and status == "ok":
            fails += sphere_vs_ellipsoid(S, case["call"]["radii"][0])
        if status == "ok" and len(S) > 0:
            S2 = h15.build_structure(case["structure"])
            st2, res2 = do_call(S2, case["call"])
            if st2 == "ok":
                fails += h15.independence_failures(S2, res2)
        lat = case["structure"]["lattice"]
        ctx.count(("case", len(S), lat["kind"], "rot" in lat, case["call"]["fn"], len(case["call"]["radii"]),
                   status if status != "ok" else min(len(res), 40)))
        nviol += report(ctx, case, fails)
        if with_model and case["structure"]["lattice"]["kind"] == "base" and k % 2 == 0:
            if margins_ok(S, case, status, res, variant):
                todo.append((case, S, status, res))
            else:
                nskip += 1
    ctx.coverage["model_comparisons_skipped_near_ties"] = ctx.coverage.get("model_comparisons_skipped_near_ties", 0) + nskip
    if not with_model or not todo:
        return nviol
    lines = ["Eval vm_compute in (agree %s [%s])." % (coq_call(c, S), "; ".join(h15.qlit(x) for x in expected_list(st, res)))
             for c, S, st, res in todo]
    rc, out = ctx.coq_eval("c18_cases", COQ_HEAD + "\n".join(lines) + "\n", timeout=900)
    verdicts = re.findall(r"=\s*(true|false)\s*:\s*bool", out) if rc == 0 else []
    if rc != 0 or len(verdicts) != len(todo):
        ctx.obligation("correspondence:model-runs", False, "coqc rc=%s, %d results for %d cases: %s" % (rc, len(verdicts), len(todo), out[-400:]))
        return nviol
    badidx = [k for k, v in enumerate(verdicts) if v != "true"]
    detail = ""
    if badidx:
        case, S, status, res = todo[badidx[0]]
        rc2, out2 = ctx.coq_eval("c18_first_bad", COQ_HEAD + "Eval vm_compute in (brief %s).\n" % coq_call(case, S), timeout=300)
        detail = "model: %s ; implementation: %s ; case %s" % (" ".join(out2.split())[-80:], status if status != "ok" else "%d atoms" % len(res),
                                                              json.dumps(case)[:1200])
        ctx.sample({"disagreement": detail[:600]})
    ctx.obligation("correspondence:ellipsoid-model-vs-implementation", not badidx, detail)
    ctx.coverage["model_comparisons"] = ctx.coverage.get("model_comparisons", 0) + len(todo)
    return nviol


ROTATED = {"structure": {"lattice": {"kind": "par", "args": [3.5, 3.5, 3.5, 90.0, 90.0, 90.0],
                                     "rot": [[0.0, -1.0, 0.0], [-1.0, 0.0, 0.0], [0.0, 0.0, -1.0]]},
                         "atoms": [{"element": "Ni", "xyz": [0.0, 0.0, 0.0], "label": "Ni1", "occupancy": 1.0, "extra": {"tag": 0}}]},
           "call": {"fn": "makeSphere", "radii": [5.0]}}


def directed_cases(ctx):
    """Cells turned so that the Cartesian vector (a, b, c) has no positive fractional component."""
    n = 0
    for case in [ROTATED]:
        S = h15.build_structure(case["structure"])
        before = h15.snapshot(S)
        status, res = do_call(S, case["call"])
        ctx.count(("directed", "rotated-180"))
        n += report(ctx, case, check_property(S, before, case, status, res))
    # sites lying EXACTLY on the surface (binary-exact cells and radii, so the float decision is exact): they are inside
    import copy
    for k, (edge, atoms, call) in enumerate([
            (2.0, [[0.0, 0.0, 0.0]], {"fn": "makeSphere", "radii": [2.0]}),
            (2.0, [[0.0, 0.0, 0.0]], {"fn": "makeEllipsoid", "radii": [6.0, 2.0, 4.0]}),
            (4.0, [[0.0, 0.0, 0.0], [0.5, 0.5, 0.5]], {"fn": "makeSphere", "radii": [4.0]}),
            (1.0, [[0.25, 0.25, 0.25]], {"fn": "makeEllipsoid", "radii": [1.0, 2.0]})]):
        case = copy.deepcopy(ROTATED)
        case["structure"]["lattice"] = {"kind": "base", "base": [[edge, 0.0, 0.0], [0.0, edge, 0.0], [0.0, 0.0, edge]]}
        proto = case["structure"]["atoms"][0]
        case["structure"]["atoms"] = [dict(proto, xyz=x, label="B%d" % i, extra=dict(proto.get("extra", {}), tag=i)) for i, x in enumerate(atoms)]
        case["call"] = call
        S = h15.build_structure(case["structure"])
        before = h15.snapshot(S)
        status, res = do_call(S, case["call"])
        ctx.count(("directed", "surface", k))
        n += report(ctx, case, check_property(S, before, case, status, res, margin=0))
    return n


def run(ctx):
    ctx.trusted += ["Coq 8.16.1 kernel; vm_compute; stdlib Reals axioms under the R statements",
                    "translate/c18_ellipsoid.py, translate/c15_supercell.py (fail-closed recognisers)",
                    "Model/C18_Ellipsoid.v: list model of the index scan and pop loop, Python negative indexing, comparison of squares instead of sqrt",
                    "harness: generators, exact-rational encoding of the doubles, margin skipping (centre ties, |d-1| < 1e-7, 2*frac near an integer)"]
    ctx.assumptions += ["sqrt is monotone on floats: `d < bestd` and `sum ** 0.5 > 1` are modelled on the squares",
                        "the supercell lattice has base m * base (validated on live lattices by this run and by C15)",
                        "radii are positive finite numbers; an empty structure is outside the property's domain (IndexError in code and model)",
                        "near-ties of float decisions are excluded from the model comparison, not from the finder"]
    quick = ctx.tier == "quick"
    variant = None
    with core.BuildLock():
        ok1 = ctx.regen("c15_supercell", c15_supercell.generate)
        ok2 = ctx.regen("c18_ellipsoid", c18_ellipsoid.generate)
        built = False
        if ok1 and ok2:
            variant = frac_variant()
            built, _ = ctx.coq(TARGETS, theorems_in={"Props/C18"})
        n = directed_cases(ctx)
        for _ in range(1 if quick else 10):
            n += run_cases(ctx, 220 if quick else 600, with_model=bool(built), variant=variant)
    if not built:
        ctx.obligation("correspondence:model-runs", False, "model not available")
    ctx.coverage.update({"exhaustive": False, "finder_violations": n, "frac_formula": variant,
                         "rule": "random cells (orthogonal/hexagonal/oblique/rotated/from base) x 0..4 atoms (in and out of the cell) x "
                                 "sphere/ellipsoid with 1..3 radii of 0.3..1.6 cell edges; key = (#atoms, lattice kind, call, clipped result size)"})
    ctx.sample({"case": "Ni fcc-like cell a=3.5 rotated by 180 degrees about (1,-1,0), makeSphere(S, 5)", "checked": "returns, sites, inside, no duplicates, complete"})


def replay(ctx, rep):
    case = rep.get("case", rep)
    case = {"structure": case["structure"], "call": case["call"]}
    S = h15.build_structure(case["structure"])
    before = h15.snapshot(S)
    status, res = do_call(S, case["call"])
    ctx.count()
    report(ctx, case, check_property(S, before, case, status, res))
    ctx.obligation("replay-completed", True)
