"""C19 - space-group lookups are correct when first used from several threads at once.

Proof (coq/Props/C19.v): for builders of the shape "fill a local dictionary, then one publish" every
schedule gives the sequential answers; the IR regenerated from spacegroups.py has that shape.
Correspondence: schedule replay on the real module (vlib/c19_replay.py, fresh interpreter per
schedule, settrace line hooks + events, no source hooks) against the model run on the SAME schedule
with the live table data.  Finder: every completed call in every replayed schedule must return what
the same call returns single-threaded.
"""
import concurrent.futures as cf
import json
import os
import re
import subprocess
import sys

from translate import c19_lazy
from vlib import core

TARGETS = ["Props/C19.vo"]
FUNCS = c19_lazy.FUNCS
ENC = {-1: "ValueError", -2: "KeyError", -3: "AssertionError", -4: "RecursionError", -10: "True", -11: "False", -5: "None"}


# ---------------------------------------------------------------- child runs
def child(spec, timeout=240):
    env = dict(os.environ)
    env["PYTHONPATH"] = os.path.join(core.REPO, "src") + ":" + core.VERIF
    env["PYTHONHASHSEED"] = "0"
    env["PYTHONDONTWRITEBYTECODE"] = "1"
    p = subprocess.run(["/venv/bin/python", "-W", "ignore", "-m", "vlib.c19_replay"], input=json.dumps(spec), text=True,
                       stdout=subprocess.PIPE, stderr=subprocess.PIPE, env=env, timeout=timeout, cwd=core.VERIF)
    try:
        return json.loads(p.stdout)
    except ValueError:
        return {"error": (p.stderr or p.stdout)[-600:]}


def mkspec(threads, schedule, nested=False):
    return {"funcs": FUNCS, "threads": threads, "schedule": schedule, "nested": nested}


# ---------------------------------------------------------------- model instance from the live data
class Instance:
    def __init__(self, a):
        import diffpy.structure.spacegroups as S
        self.S = S
        self.a = a
        self.ids = {}
        lst = S.SpaceGroupList
        getters = {
            "number": lambda sg: sg.number, "strnumber": lambda sg: str(sg.number), "short_name": lambda sg: sg.short_name,
            "pdb_name": lambda sg: sg.pdb_name, "pdb_nospace": lambda sg: sg.pdb_name.replace(" ", ""),
            "hash": lambda sg: ("h", S._hashSymOpList(sg.symop_list)),
        }
        self.entries = {}
        for i, kinds in sorted(a["loops"].items()):
            self.entries[i] = [(self.intern(getters[k](sg)), n + 1) for n, sg in enumerate(lst) for k in kinds]
        self.aliases = [(self.intern(x), self.intern(hm.replace(" ", ""))) for x, hm in a["aliases"]]
        self.n = len(lst)

    def intern(self, k):
        kk = (type(k).__name__, k)
        if kk not in self.ids:
            self.ids[kk] = len(self.ids) + 1
        return self.ids[kk]

    def candidates(self, sgid):
        env = {"sgid": sgid}
        cands, is_str = [], True
        for step in self.a["recipe"]:
            if step[0] == "cand":
                cands.append(self.intern(env[step[1]]))
            elif step[0] == "strguard":
                if not isinstance(sgid, str):
                    is_str = False
                    break
            else:
                exec(step[1], {"__builtins__": {}}, env)   # pure string expression, whitelisted by the translator
        return cands, is_str

    def coq_call(self, c):
        if c[0] in ("get", "isid"):
            cands, s = self.candidates(c[1])
            return "%s [%s] %s" % ("CGet" if c[0] == "get" else "CIsId", "; ".join(map(str, cands)), "true" if s else "false")
        h = self.intern(("h", self.S._hashSymOpList(self.S.SpaceGroupList[c[1]].symop_list)))
        return "CFind %d" % h

    def coq_data(self):
        def lst(ps):
            return "[" + "; ".join("(%d, %d)" % p for p in ps) + "]"
        arms = "\n".join("    | %d%%nat => %s" % (i, lst(es)) for i, es in sorted(self.entries.items()))
        return ("Definition real_data : data :=\n  {| d_entries := fun n => match n with\n%s\n    | _ => []\n    end;\n"
                "     d_aliases := %s;\n     d_none := 0;\n     d_len := %d |}.\n" % (arms, lst(self.aliases), self.n))

    def sequential(self, c):
        S = self.S
        idx = {sg.number: i for i, sg in enumerate(S.SpaceGroupList)}
        try:
            if c[0] == "get":
                return "sg:%d" % idx[S.GetSpaceGroup(c[1]).number]
            if c[0] == "isid":
                return str(bool(S.IsSpaceGroupIdentifier(c[1])))
            ops = list(S.SpaceGroupList[c[1]].symop_list)
            if len(c) > 2 and c[2]:
                ops.reverse()
            return "sg:%d" % idx[S.FindSpaceGroup(ops, shuffle=bool(len(c) > 3 and c[3])).number]
        except Exception as e:
            return type(e).__name__


PRELUDE = """From Coq Require Import ZArith List Bool.
From DS Require Import Model.C19_Threads.
Import ListNotations.
Open Scope Z_scope.
Definition enc (r : result) : Z :=
  match r with Found v => v | NotFound => -1 | KeyErr => -2 | AssertErr => -3 | RecErr => -4
             | RBool true => -10 | RBool false => -11 | RNone => -5 end.
Definition sched_of (l : list (nat * N)) : list nat := flat_map (fun tn => repeat (fst tn) (N.to_nat (snd tn))) l.
Definition outcome (p : prog) (d : data) (css : list (list call)) (l : list (nat * N)) : list Z :=
  let w := run p d css (sched_of l) in
  (if all_finished w then 1 else 0) :: flat_map (fun rs => -99 :: map enc rs) (results w).
"""


def model_eval(ctx, a, inst, cases, shards=16):
    """cases: list of (css as list of list of coq-call strings, [(tid, n)]) -> list of (finished, [[outcome]])"""
    if not cases:
        return []
    head = PRELUDE + c19_lazy.coq_prog(a, "case_prog").replace("Definition case_prog", "Open Scope nat_scope.\nDefinition case_prog") \
        + "Open Scope Z_scope.\n" + inst.coq_data()
    head += "Eval vm_compute in (build_ok case_prog real_data).\n"
    chunks = [cases[i::shards] for i in range(shards)]

    def one(k):
        body = []
        for css, sched in chunks[k]:
            cs = "[" + "; ".join("[" + "; ".join(cl) + "]" for cl in css) + "]"
            sc = "[" + "; ".join("(%d%%nat, %d%%N)" % (t, n) for t, n in sched) + "]"
            body.append("Eval vm_compute in (outcome case_prog real_data %s %s)." % (cs, sc))
        rc, out = ctx.coq_eval("c19_cases_%d" % k, head + "\n".join(body) + "\n", timeout=900)
        vals = []
        for blk in re.split(r"\n\s*=", "\n" + out)[1:]:
            txt = blk.split(":")[0]
            if "true" in txt or "false" in txt:
                vals.append("true" in txt)
            else:
                vals.append([int(x) for x in re.findall(r"-?\d+", txt)])
        return rc, out, vals

    with cf.ThreadPoolExecutor(shards) as ex:
        res = list(ex.map(one, range(shards)))
    out = [None] * len(cases)
    build_ok = True
    for k, (rc, text, vals) in enumerate(res):
        if not chunks[k]:
            continue
        if rc != 0 or len(vals) != len(chunks[k]) + 1:
            raise RuntimeError("model evaluation failed: " + text[-500:])
        build_ok = build_ok and vals[0] is True
        for j, v in enumerate(vals[1:]):
            fin = v[0] == 1
            threads, cur = [], None
            for x in v[1:]:
                if x == -99:
                    cur = []
                    threads.append(cur)
                else:
                    cur.append("sg:%d" % (x - 1) if x >= 1 else ENC.get(x, "?%d" % x))
            out[k + j * shards] = (fin, threads)
    return build_ok, out


# ---------------------------------------------------------------- schedules
A_CALLS = [["get", "P1"], ["find", 0], ["isid", "P1"]]
B_POOL = [["get", "Fm-3m"], ["isid", "P 1"], ["get", 225], ["get", " fm-3M "], ["get", "F m -3 m"], ["get", "Fm3m"],
          ["get", "P121"], ["get", "Xx"], ["isid", 99999], ["find", 224], ["find", 17, True], ["find", 100, True, True],
          ["get", "229"], ["isid", "I a -3 d"]]


def plain_trace(calls, nested=False):
    o = child(mkspec({"A": calls}, [], nested))
    if "error" in o:
        raise RuntimeError("replay engine failed: " + o["error"])
    counts = {}
    order = []
    for _, evs in o["segments"]:
        for f, l in evs:
            if (f, l) not in counts:
                order.append((f, l))
            counts[(f, l)] = counts.get((f, l), 0) + 1
    return order, counts


def occurrences(n, thorough):
    if n <= 1:
        return [1]
    s = {1, 2, n}
    if n > 4:
        s.add(n // 2)
    if thorough and n > 10:
        s |= {3, n // 3, n - 1}
    return sorted(s)


A2_CALLS = [["find", 0], ["get", "P1"], ["isid", "P1"]]
BUILDERS = ("_buildSGLookupTable", "_getSGHashLookupTable")


def mixed_schedules(thorough, nested=False):
    """MIXED first-use workloads: the first-use thread is parked at every executed line of a builder while the other
    thread starts with a lookup in the OTHER table (a builder that also writes the other table's global exposes it
    half filled): A = GetSpaceGroup first, parked in the identifier builder, B starts with FindSpaceGroup of late and
    early settings; A = FindSpaceGroup first, parked in the hash builder, B starts with GetSpaceGroup."""
    import diffpy.structure.spacegroups as S
    last = len(S.SpaceGroupList) - 1
    b_find = [["find", last], ["find", 1], ["find", 224, True], ["get", 225], ["isid", "P 1"]]
    b_get = [["get", "Fm-3m"], ["get", last and S.SpaceGroupList[last].number], ["isid", "I a -3 d"], ["find", 17]]
    out = []
    for acalls, fn, bsets in ((A_CALLS, BUILDERS[0], [b_find] + ([b_get] if thorough else [])),
                              (A2_CALLS, BUILDERS[1], [b_get] + ([b_find] if thorough else []))):
        order, counts = plain_trace(acalls, nested)
        for (f, l) in order:
            if f != fn:
                continue
            for occ in occurrences(counts[(f, l)], thorough):
                for bc in bsets:
                    out.append(("mixed", {"A": acalls, "B": bc}, [["A", [f, l, occ]], ["B", None], ["A", None]]))
    return out


def make_schedules(ctx, a):
    thorough = ctx.tier == "thorough"
    order, counts = plain_trace(A_CALLS)
    scheds = mixed_schedules(thorough)
    k = 0
    for (f, l) in order:
        for occ in occurrences(counts[(f, l)], thorough):
            rot = k % len(B_POOL)
            bcalls = B_POOL[rot:] + B_POOL[:rot]
            scheds.append(("preempt", {"A": A_CALLS, "B": bcalls}, [["A", [f, l, occ]], ["B", None], ["A", None]]))
            k += 1
    # three threads: a late second builder under a reader that has already tested the table
    blines = [fl for fl in order if fl[0] == "_buildSGLookupTable"]
    glines = [fl for fl in order if fl[0] == "GetSpaceGroup"]
    hlines = [fl for fl in order if fl[0] == "_getSGHashLookupTable"]
    flines = [fl for fl in order if fl[0] == "FindSpaceGroup"]
    def after_guard(fn):
        costly = sorted(l for l, c in a["lines"][fn].items() if c > 0)
        return [(fn, l) for l in costly[1:3]]
    if len(blines) >= 2:
        for gl in after_guard("GetSpaceGroup"):
            for nxt in blines[1:]:
                scheds.append(("late-builder", {"A": [["get", "P1"]], "B": [["get", "P1"]], "C": [["get", "Fm-3m"], ["get", 2]]},
                               [["A", list(blines[0]) + [1]], ["B", None], ["C", list(gl) + [1]], ["A", list(nxt) + [1]],
                                ["C", None], ["A", None]]))
    if len(hlines) >= 2:
        for fl in after_guard("FindSpaceGroup"):
            for nxt in hlines[1:]:
                scheds.append(("late-builder", {"A": [["find", 0]], "B": [["find", 3]], "C": [["find", 224], ["find", 5, True]]},
                               [["A", list(hlines[0]) + [1]], ["B", None], ["C", list(fl) + [1]], ["A", list(nxt) + [1]],
                                ["C", None], ["A", None]]))
    # random schedules
    pool = [fl for fl in order]
    nrand = 150 if thorough else 16
    for _ in range(nrand):
        nt = ctx.rng.choice([2, 2, 3, 4])
        names = "ABCD"[:nt]
        threads = {n: [list(ctx.rng.choice(B_POOL + A_CALLS)) for _ in range(ctx.rng.randint(1, 3))] for n in names}
        sched = []
        for _ in range(ctx.rng.randint(2, 7)):
            f, l = ctx.rng.choice(pool)
            sched.append([ctx.rng.choice(names), [f, l, ctx.rng.choice(occurrences(counts[(f, l)], True))]])
        scheds.append(("random", threads, sched))
    return scheds


def steps_of(a, segments, names):
    """segments of executed lines -> model schedule [(tid, number of shared operations)]"""
    sched, unknown = [], []
    for name, evs in segments:
        n = 0
        for f, l in evs:
            c = a["lines"].get(f, {}).get(l)
            if c is None:
                unknown.append((f, l))
                c = 0
            n += c
        if n:
            sched.append((names.index(name), n))
    return sched, unknown


def run_schedules(ctx, a, inst, scheds):
    specs = [mkspec(th, sc) for _, th, sc in scheds]
    with cf.ThreadPoolExecutor(min(core.NPROC, 16)) as ex:
        outs = list(ex.map(child, specs))
    cases, meta = [], []
    bad = []
    for (kind, threads, sc), o in zip(scheds, outs):
        names = sorted(threads)
        if "error" in o or o.get("hang"):
            bad.append("replay failed for %s %s: %s" % (kind, sc, o.get("error", "hang")))
            continue
        msched, unknown = steps_of(a, o["segments"], names)
        if unknown:
            bad.append("executed lines the translator has no action count for: %s" % sorted(set(unknown))[:5])
            continue
        cases.append(([[inst.coq_call(c) for c in threads[n]] for n in names], msched))
        meta.append((kind, threads, sc, o, names))
    return cases, meta, bad


def compare(ctx, a, inst, scheds):
    cases, meta, bad = run_schedules(ctx, a, inst, scheds)
    build_ok, preds = model_eval(ctx, a, inst, cases) if cases else (True, [])
    mism, nviol, seen_keys = [], 0, set()
    ctx.log("replayed %d schedules, model evaluated" % len(meta))
    for (kind, threads, sc, o, names), pred in zip(meta, preds):
        fin, mres = pred
        obs = [o["results"][n] for n in names]
        key = (kind, json.dumps(sc))
        ctx.count(key)
        if not fin or mres != obs:
            mism.append("schedule %s %s: model %s (finished=%s), implementation %s" % (kind, sc, mres, fin, obs))
        # the property itself, on the implementation
        for n, res in zip(names, obs):
            for c, r in zip(threads[n], res):
                seq = inst.sequential(c)
                if r != seq:
                    nviol += 1
                    vkey = "first-use-race:%s:%s" % (c[0], kind)
                    if vkey in seen_keys:
                        continue
                    seen_keys.add(vkey)
                    ctx.violation("thread %s: %s returned %s under schedule %s, single-threaded it returns %s"
                                  % (n, c, r, sc, seq),
                                  {"threads": threads, "schedule": sc, "thread": n, "call": c, "observed": r, "sequential": seq},
                                  kind="schedule", key="first-use-race:%s:%s" % (c[0], kind))
        if len(ctx.samples) < 4:
            ctx.sample({"kind": kind, "threads": threads, "schedule": sc, "observed": obs, "model": mres,
                        "model_steps": cases[meta.index((kind, threads, sc, o, names))][1][:6]})
    return build_ok, mism, bad, nviol, len(meta)


def run(ctx):
    ctx.trusted += ["Coq 8.16.1 kernel + vm_compute (no native_compute)",
                    "translate/c19_lazy.py (fail-closed ast translator: statement patterns -> shared-state IR, per-line operation counts)",
                    "CPython: an operation on a dict with str/int keys is atomic and threads switch only between bytecodes; "
                    "the model's granularity (one step per shared-dictionary operation) is at least as fine as any real switch point between such operations",
                    "vlib/c19_replay.py: settrace line hooks + events enforce the schedule; pre-emption is exercised at line boundaries only",
                    "the unrolling of `return _getSGHashLookupTable()` to one re-test of the table"]
    ctx.assumptions += ["SpaceGroupList and alias_hmname are not modified after import",
                        "build_ok: the builders' own assertions hold on the live data and the tables are non-empty (evaluated on the live data each run)",
                        "hash collisions between different symop lists are not modelled beyond the builder's own length assertion",
                        "termination of every call is by construction of the model (command trees are finite)"]
    with core.BuildLock():
        ok = ctx.regen("c19_lazy", c19_lazy.generate)
        proved = False
        if ok:
            proved, _ = ctx.coq(TARGETS, theorems_in={"Props/C19"})
    try:
        a = c19_lazy.analyse()
    except core.TranslatorRefusal:
        a = None
    inst = None
    if a is not None:
        inst = Instance(a)
        scheds = make_schedules(ctx, a)
        ctx.log("%d schedules generated" % len(scheds))
        build_ok, mism, bad, nviol, nrun = compare(ctx, a, inst, scheds)
        # build_ok is the hypothesis of the theorem; it only has a meaning for programs of the safe shape
        ctx.obligation("correspondence:build_ok-on-live-data", build_ok or not proved,
                       "" if build_ok else "build_ok case_prog real_data = false")
        ctx.obligation("correspondence:schedule-replay", not mism and not bad, "; ".join((bad + mism)[:3]))
        ctx.coverage.update({"schedules_replayed": nrun, "traces_validated_against_impl": nrun - len(mism),
                             "finder_violations": nviol})
    else:
        # translator refused: still run the finder with a line pool taken from a plain trace
        finder_only(ctx)
    ctx.coverage.update({"rule": "one schedule per (executed line of the five lookup functions) x (occurrence 1, 2, middle, last) with the "
                                 "first-use thread parked there while a second thread runs a rotating list of all reader call kinds, "
                                 "3-thread late-builder schedules, and seeded random multi-thread schedules; distinct = distinct (kind, schedule)"})


def finder_only(ctx):
    import diffpy.structure.spacegroups as S

    class Dummy:
        pass
    order, counts = plain_trace(A_CALLS, nested=True)
    idx = {sg.number: i for i, sg in enumerate(S.SpaceGroupList)}
    scheds = []
    for k, (f, l) in enumerate(order):
        for occ in occurrences(counts[(f, l)], False):
            rot = k % len(B_POOL)
            scheds.append(({"A": A_CALLS, "B": B_POOL[rot:] + B_POOL[:rot]}, [["A", [f, l, occ]], ["B", None], ["A", None]]))
    scheds += [(th, sc) for _, th, sc in mixed_schedules(ctx.tier == "thorough", nested=True)]
    with cf.ThreadPoolExecutor(min(core.NPROC, 16)) as ex:
        outs = list(ex.map(child, [mkspec(t, s, True) for t, s in scheds]))
    inst = Dummy()
    inst.S = S
    seen_keys = set()
    for (threads, sc), o in zip(scheds, outs):
        if "error" in o:
            continue
        ctx.count(("finder", json.dumps(sc)))
        for n, res in o["results"].items():
            for c, r in zip(threads[n], res):
                seq = Instance.sequential(inst, c)
                if r != seq and c[0] not in seen_keys:
                    seen_keys.add(c[0])
                    ctx.violation("thread %s: %s returned %s under schedule %s, single-threaded it returns %s" % (n, c, r, sc, seq),
                                  {"threads": threads, "schedule": sc, "thread": n, "call": c, "observed": r, "sequential": seq},
                                  kind="schedule", key="first-use-race:%s:preempt" % c[0])


def replay(ctx, case):
    c = case["case"]
    if "threads" not in c:
        ctx.log("replay file names broken obligations only:", c)
        return run(ctx)
    o = child(mkspec(c["threads"], c["schedule"], any(t and str(t[0]).startswith("<") for _, t in c["schedule"])))
    ctx.log("replayed schedule", c["schedule"], "->", o.get("results"), o.get("error", ""))
    ctx.count(("replay", json.dumps(c["schedule"])))
    ctx.count(("replay2", 0))
    import diffpy.structure.spacegroups as S

    class Dummy:
        pass
    inst = Dummy()
    inst.S = S
    for n, res in o.get("results", {}).items():
        for call, r in zip(c["threads"][n], res):
            seq = Instance.sequential(inst, call)
            if r != seq:
                ctx.violation("thread %s: %s returned %s, single-threaded it returns %s" % (n, call, r, seq),
                              dict(c, observed=r, sequential=seq, thread=n, call=call), kind="schedule",
                              key="first-use-race:%s:replay" % call[0])
